"""C15 helper: what "process-global state" means for the history explorer.

Two layers, both plain reads of the live interpreter (no library code is executed here):

settings()   interpreter- and process-wide SETTINGS that no extraction may leave changed - not even the first one of a
             process, not even a failed one: recursion limit, switch interval, int<->str digit limit, decimal context,
             locale, default socket timeout, umask, cwd, os.environ, sys.path / meta_path / path_hooks, the four hooks
             (sys.excepthook, sys.unraisablehook, sys.displayhook, threading.excepthook), trace / profile functions,
             sys.stdin/stdout/stderr, signal handlers, gc switches, tempfile.tempdir, csv.field_size_limit,
             logging switches (disable level, raiseExceptions, logger class, root level), warnings entry points,
             lxml's default parser, PIL's decompression-bomb switches, tarfile / zipfile
             defaults, codecs error handlers. Compared after EVERY history step (warm and cold histories).

modstate()   identity of everything bound at module level (and in the class bodies) of the library's own modules and of
             every third-party module loaded in the process, value of their module-level scalars: the generic form of
             "patched third-party functions and module-level configuration". Compared after every warm history (lazy
             imports of the first use are excluded by the warm-up). A fast per-namespace hash filters, a slow per-name
             comparison decides (scalars by value, everything else by identity); containers are compared by identity
             only - caches may grow, their influence is judged through the results.
"""
from __future__ import annotations

import os
import sys
import threading
import types

_SCALARS = (bool, int, float, complex, str, bytes, type(None))


def _name(f):
    if f is None:
        return None
    return f"{getattr(f, '__module__', '?')}.{getattr(f, '__qualname__', type(f).__name__)}@{id(f):x}"


def settings() -> dict:
    import codecs
    import csv
    import decimal
    import gc
    import locale
    import logging
    import signal
    import socket
    import tarfile
    import tempfile
    import warnings
    import zipfile
    s = {}
    s["recursionlimit"] = sys.getrecursionlimit()
    s["switchinterval"] = sys.getswitchinterval()
    s["int_max_str_digits"] = sys.get_int_max_str_digits() if hasattr(sys, "get_int_max_str_digits") else None
    s["dont_write_bytecode"] = sys.dont_write_bytecode
    s["sys.path"] = tuple(sys.path)
    s["sys.meta_path"] = tuple(_name(x) for x in sys.meta_path)
    s["sys.path_hooks"] = len(sys.path_hooks)
    s["excepthook"] = _name(sys.excepthook)
    s["unraisablehook"] = _name(sys.unraisablehook)
    s["displayhook"] = _name(sys.displayhook)
    s["threading.excepthook"] = _name(threading.excepthook)
    s["trace"] = (_name(sys.gettrace()), _name(sys.getprofile()), _name(getattr(threading, "_trace_hook", None)),
                  _name(getattr(threading, "_profile_hook", None)))
    s["stdio"] = (id(sys.stdin), id(sys.stdout), id(sys.stderr))
    c = decimal.getcontext()
    s["decimal"] = (c.prec, c.rounding, c.Emin, c.Emax, c.capitals, c.clamp, tuple(sorted(str(k) for k, v in c.traps.items() if v)))
    d = decimal.DefaultContext
    s["decimal.DefaultContext"] = (d.prec, d.rounding, d.Emin, d.Emax, d.capitals, d.clamp, tuple(sorted(str(k) for k, v in d.traps.items() if v)))
    try:
        s["locale"] = locale.setlocale(locale.LC_ALL)
    except Exception as e:  # noqa
        s["locale"] = repr(e)
    s["socket.timeout"] = socket.getdefaulttimeout()
    m = os.umask(0o022)
    os.umask(m)
    s["umask"] = m
    try:
        s["cwd"] = os.getcwd()
    except OSError as e:
        s["cwd"] = repr(e)
    s["environ"] = tuple(sorted(os.environ.items()))
    sig = []
    for n in sorted(signal.valid_signals()):
        try:
            h = signal.getsignal(n)
        except Exception:  # noqa
            continue
        sig.append((int(n), h if isinstance(h, int) or h is None else _name(h)))
    s["signals"] = tuple(sig)
    s["gc"] = (gc.isenabled(), gc.get_threshold(), gc.get_debug())
    s["tempfile.tempdir"] = tempfile.tempdir
    s["csv.field_size_limit"] = csv.field_size_limit()
    s["logging"] = (logging.root.manager.disable, logging.raiseExceptions, _name(logging.getLoggerClass()), logging.root.level,
                    logging.lastResort is not None and logging.lastResort.level)
    s["warnings"] = (_name(warnings.showwarning), _name(warnings.formatwarning), getattr(warnings, "_defaultaction", None))
    lx = sys.modules.get("lxml.etree")
    if lx is not None:
        try:
            s["lxml.default_parser"] = id(lx.get_default_parser())
        except Exception:  # noqa
            pass
    im = sys.modules.get("PIL.Image")
    if im is not None:
        s["PIL.MAX_IMAGE_PIXELS"] = im.MAX_IMAGE_PIXELS
    imf = sys.modules.get("PIL.ImageFile")
    if imf is not None:
        s["PIL.LOAD_TRUNCATED_IMAGES"] = imf.LOAD_TRUNCATED_IMAGES
    s["tarfile"] = (tarfile.ENCODING, _name(getattr(tarfile.TarFile, "extraction_filter", None)), tarfile.TarFile.errorlevel,
                    tarfile.TarFile.format)
    s["zipfile"] = (getattr(zipfile, "ZIP64_LIMIT", None), getattr(zipfile, "ZIP_FILECOUNT_LIMIT", None), getattr(zipfile, "ZIP_MAX_COMMENT", None))
    err = []
    for n in ("strict", "ignore", "replace", "xmlcharrefreplace", "backslashreplace", "namereplace", "surrogateescape", "surrogatepass"):
        try:
            err.append(id(codecs.lookup_error(n)))
        except LookupError:
            err.append(None)
    s["codecs.errors"] = tuple(err)
    return s


_SIGNUMS = []


def probe() -> dict:
    """settings() for use after EVERY LINE of a traced extraction (write-point discovery of the schedule explorer): the
    same state read raw - no formatting, no enum conversion, environment hashed - at ~1/10 of the cost; keys as in
    settings() minus "trace" (a tracer is running when this is used)"""
    import _signal
    import codecs
    import csv
    import decimal
    import gc
    import locale
    import logging
    import socket
    import tarfile
    import tempfile
    import warnings
    import zipfile
    if not _SIGNUMS:
        import signal
        _SIGNUMS.extend(sorted(int(n) for n in signal.valid_signals()))
    s = {}
    s["recursionlimit"] = sys.getrecursionlimit()
    s["switchinterval"] = sys.getswitchinterval()
    s["int_max_str_digits"] = sys.get_int_max_str_digits() if hasattr(sys, "get_int_max_str_digits") else None
    s["dont_write_bytecode"] = sys.dont_write_bytecode
    s["sys.path"] = tuple(sys.path)
    s["sys.meta_path"] = tuple(map(id, sys.meta_path))
    s["sys.path_hooks"] = len(sys.path_hooks)
    s["excepthook"] = id(sys.excepthook)
    s["unraisablehook"] = id(sys.unraisablehook)
    s["displayhook"] = id(sys.displayhook)
    s["threading.excepthook"] = id(threading.excepthook)
    s["stdio"] = (id(sys.stdin), id(sys.stdout), id(sys.stderr))
    c = decimal.getcontext()
    s["decimal"] = (c.prec, c.rounding, c.Emin, c.Emax, c.capitals, c.clamp, repr(c.traps))
    d = decimal.DefaultContext
    s["decimal.DefaultContext"] = (d.prec, d.rounding, d.Emin, d.Emax, d.capitals, d.clamp, repr(d.traps))
    try:
        s["locale"] = locale.setlocale(locale.LC_ALL)
    except Exception as e:  # noqa
        s["locale"] = repr(e)
    s["socket.timeout"] = socket.getdefaulttimeout()
    m = os.umask(0o022)
    os.umask(m)
    s["umask"] = m
    try:
        s["cwd"] = os.getcwd()
    except OSError as e:
        s["cwd"] = repr(e)
    s["environ"] = hash(frozenset(getattr(os.environ, "_data", os.environ).items()))
    sig = []
    for n in _SIGNUMS:
        try:
            h = _signal.getsignal(n)
        except Exception:  # noqa
            continue
        sig.append(h if isinstance(h, int) or h is None else id(h))
    s["signals"] = tuple(sig)
    s["gc"] = (gc.isenabled(), gc.get_threshold(), gc.get_debug())
    s["tempfile.tempdir"] = tempfile.tempdir
    s["csv.field_size_limit"] = csv.field_size_limit()
    s["logging"] = (logging.root.manager.disable, logging.raiseExceptions, id(logging.getLoggerClass()), logging.root.level,
                    logging.lastResort is not None and logging.lastResort.level)
    s["warnings"] = (id(warnings.showwarning), id(warnings.formatwarning), getattr(warnings, "_defaultaction", None))
    lx = sys.modules.get("lxml.etree")
    if lx is not None:
        try:
            s["lxml.default_parser"] = id(lx.get_default_parser())
        except Exception:  # noqa
            pass
    im = sys.modules.get("PIL.Image")
    if im is not None:
        s["PIL.MAX_IMAGE_PIXELS"] = im.MAX_IMAGE_PIXELS
    imf = sys.modules.get("PIL.ImageFile")
    if imf is not None:
        s["PIL.LOAD_TRUNCATED_IMAGES"] = imf.LOAD_TRUNCATED_IMAGES
    s["tarfile"] = (tarfile.ENCODING, id(getattr(tarfile.TarFile, "extraction_filter", None)), tarfile.TarFile.errorlevel,
                    tarfile.TarFile.format)
    s["zipfile"] = (getattr(zipfile, "ZIP64_LIMIT", None), getattr(zipfile, "ZIP_FILECOUNT_LIMIT", None), getattr(zipfile, "ZIP_MAX_COMMENT", None))
    err = []
    for n in ("strict", "ignore", "replace", "xmlcharrefreplace", "backslashreplace", "namereplace", "surrogateescape", "surrogatepass"):
        try:
            err.append(id(codecs.lookup_error(n)))
        except LookupError:
            err.append(None)
    s["codecs.errors"] = tuple(err)
    return s


_CONTAINERS = (dict, list, set, bytearray)


class LibState:
    """module-level and class-level bindings of the LIBRARY'S OWN modules (package prefix `pkg`), cheap enough to be read
    after every traced line: per namespace the identities of everything bound there (locks excluded: the schedule explorer
    swaps them) and the sizes of the containers bound there (dict / list / set / bytearray and subclasses: a cache that
    grows, a scratch buffer that is extended). namespaces are fixed when the object is made (after a warm-up)."""

    def __init__(self, pkg="sharepoint2text", lock_types=()):
        self.lock_types = tuple(lock_types)
        self.spaces = []
        for name, m in sorted((n, m) for n, m in list(sys.modules.items()) if m is not None):
            if name != pkg and not name.startswith(pkg + "."):
                continue
            if ".tests" in name or not isinstance(m, types.ModuleType):
                continue
            self.spaces.append((name, m.__dict__))
            for v in list(m.__dict__.values()):
                if isinstance(v, type) and getattr(v, "__module__", None) == name:
                    self.spaces.append((f"{name}:{v.__qualname__}", v.__dict__))
        # the containers bound there now (one that is bound later shows as a changed binding first)
        self.containers = [(ns, v) for ns, d in self.spaces for v in list(d.values()) if isinstance(v, _CONTAINERS)]

    def read(self) -> tuple:
        """(per namespace: hash of the identities bound there - locks included, so not comparable across a lock swap;
        sizes of the containers)"""
        return (tuple([hash(tuple(map(id, d.values()))) for _, d in self.spaces]), tuple([len(v) for _, v in self.containers]))

    def changed_spaces(self, a: tuple, b: tuple) -> list:
        out = [self.spaces[i][0] for i, (x, y) in enumerate(zip(a[0], b[0])) if x != y]
        out += [self.containers[i][0] + " (container size)" for i, (x, y) in enumerate(zip(a[1], b[1])) if x != y]
        return sorted(set(out))

    def detail(self) -> dict:
        lt = self.lock_types
        out = {}
        for ns, d in self.spaces:
            for k, v in list(d.items()):
                if isinstance(v, lt) or (k.startswith("__") and k.endswith("__")):
                    continue
                out[f"{ns}.{k}"] = (v if type(v) in _SCALARS and len(repr(v)) < 80 else id(v), len(v) if isinstance(v, _CONTAINERS) else None)
        return out

    @staticmethod
    def changed(a: dict, b: dict) -> dict:
        """names bound in both details whose binding or container size differs, names that disappeared"""
        return {k: (a[k], b.get(k, "<deleted>")) for k in a if b.get(k, "<deleted>") != a[k]}


def restore(ref: dict) -> None:
    """best effort: put the restorable settings back to `ref` so that one finding does not cascade into the next cases"""
    import csv
    import decimal
    import locale
    import socket
    import tempfile
    try:
        sys.setrecursionlimit(ref["recursionlimit"])
    except Exception:  # noqa
        pass
    try:
        sys.setswitchinterval(ref["switchinterval"])
        if ref["int_max_str_digits"] is not None:
            sys.set_int_max_str_digits(ref["int_max_str_digits"])
        c = decimal.getcontext()
        c.prec, c.rounding, c.Emin, c.Emax, c.capitals, c.clamp = ref["decimal"][:6]
        locale.setlocale(locale.LC_ALL, ref["locale"])
        socket.setdefaulttimeout(ref["socket.timeout"])
        os.umask(ref["umask"])
        os.chdir(ref["cwd"])
        csv.field_size_limit(ref["csv.field_size_limit"])
        tempfile.tempdir = ref["tempfile.tempdir"]
        sys.path[:] = list(ref["sys.path"])
        for k in list(os.environ):
            if k not in dict(ref["environ"]):
                del os.environ[k]
        os.environ.update(dict(ref["environ"]))
    except Exception:  # noqa
        pass


def diff(ref: dict, cur: dict) -> dict:
    out = {}
    for k in ref:
        if k in cur and ref[k] != cur[k]:
            a, b = ref[k], cur[k]
            if isinstance(a, tuple) and isinstance(b, tuple) and len(repr(a)) > 200:
                sa, sb = set(a), set(b)
                a, b = sorted(sa - sb, key=repr)[:6], sorted(sb - sa, key=repr)[:6]
            out[k] = (a, b)
    return out


# ------------------------------------------------------------------ module-level bindings

# names that are rebound as part of normal operation and cannot influence a result (listed in the evidence)
EXCLUDED = {
}


def _watched_modules():
    std = getattr(sys, "stdlib_module_names", frozenset())
    for name, m in list(sys.modules.items()):
        if m is None or not isinstance(m, types.ModuleType):
            continue
        top = name.partition(".")[0]
        if top in ("verif", "__main__", "__mp_main__") or top in std or top.startswith("_"):
            continue
        yield name, m


_FUNCTION = type(lambda: None)


def _show(tok):
    if isinstance(tok, int):
        return f"object@{tok:x}"
    if isinstance(tok, tuple) and tok and tok[0] == "fn":
        return f"function(code@{tok[1]:x}, closure {[f'{c:x}' for c in tok[5]]})"
    return tok


class ModState:
    """fast hash per namespace + slow detail on demand"""

    def __init__(self):
        self.fast = {}        # namespace name -> hash of value identities
        self.detail = {}      # namespace name -> {attr: token}
        self.classes = {}     # module name -> (dict size, [classes defined there])
        self.update(initial=True)

    @staticmethod
    def _tok(v):
        if type(v) in _SCALARS:
            r = repr(v)
            return r if len(r) < 120 else (type(v).__name__, len(r), hash(v))
        if type(v) is _FUNCTION:
            # a plain function IS its code object, its defaults and the objects its closure captured: a binding that is set again
            # to a function re-created from the same `def` over the same captured objects (an idempotent patch applied once more)
            # is the same state; a wrapper around another function, or the original put back / not put back, is not
            try:
                cells = tuple(id(c.cell_contents) for c in (v.__closure__ or ()))
            except ValueError:          # empty cell
                return id(v)
            return ("fn", id(v.__code__), id(v.__globals__), repr(v.__defaults__)[:200], repr(v.__kwdefaults__)[:200], cells)
        return id(v)

    def _namespaces(self):
        for name, m in _watched_modules():
            try:
                d = m.__dict__
            except AttributeError:
                continue
            yield name, d
            c = self.classes.get(name)
            if c is None or c[0] != len(d):
                cl = [v for v in list(d.values()) if isinstance(v, type) and getattr(v, "__module__", None) == name]
                c = self.classes[name] = (len(d), cl)
            for cls in c[1]:
                yield f"{name}:{cls.__qualname__}", cls.__dict__

    @staticmethod
    def _hash(d):
        try:
            return hash(tuple(map(id, d.values())))
        except RuntimeError:      # dict changed size during iteration (another thread importing)
            return hash(tuple(map(id, list(d.values()))))

    def _detail(self, ns, d):
        return {k: self._tok(v) for k, v in list(d.items()) if not (k.startswith("__") and k.endswith("__")) and f"{ns}.{k}" not in EXCLUDED}

    def update(self, initial=False):
        """returns {qualified name: (before, after)} for every binding that changed since the last call; new
        namespaces (modules imported since) are adopted silently, new names inside a known namespace are not a change
        of an existing binding either (lazy attribute), removed or rebound names are."""
        changes = {}
        for ns, d in self._namespaces():
            h = self._hash(d)
            if self.fast.get(ns) == h:
                continue
            det = self._detail(ns, d)
            old = self.detail.get(ns)
            if old is not None and not initial:
                for k, tok in old.items():
                    if det.get(k, "<deleted>") != tok:
                        v = d.get(k)
                        changes[f"{ns}.{k}"] = (_show(tok),
                                                 "<deleted>" if k not in d else (det[k] if type(v) in _SCALARS else f"{type(v).__name__} {_name(v)}"))
            self.fast[ns] = h
            self.detail[ns] = det
        return changes
