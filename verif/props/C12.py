"""C12 - extraction cost is bounded by the input size; the explicit limits hold exactly.

Space I: amplifier template x magnitude lattice (bounded-exhaustive, nothing sampled).  Three parts:

amp       every template of verif.props.c12_templates (a file of about 2 KB or less with ONE magnitude hole n, or a "grow" template
          whose size is proportional to n) x every magnitude of its lattice (hole: 10^0..10^6 quick / ..10^9, 2^31-1, 2^31+1, 2^32-1
          thorough; 16-/8-bit fields: up to 65535 / 255; grow: 1..10^3 / ..10^5; entity bombs: expansion 10^1..10^6 / ..10^9).
          .doc has no reference writer; its templates (c12_templates, section "OLE2 host: DOC") write the little the reader needs from
          [MS-DOC]: n picture headers (BITMAPINFOHEADER back to back / spread; declared by biSizeImage, by width x height, with a
          colour table; overshooting the stream; PNG signatures sharing one IEND, in the WordDocument and in the table stream, with and
          without IEND) inside ONE declared picture extent of a 256 KiB stream, n = 1..1000 quick / ..6000 thorough (the file size does
          not depend on n); the four FIB character counts as holes; the property-set forgeries of the .xls / .ppt hosts.
          A case is {"t": template id, "n": magnitude}.  The file is extracted through the extractor that the router selects for
          its name (list(extractor(BytesIO(data), name)) + get_full_text() of every result) under the deterministic cost meter
          verif.props.c12_meter (sys.monitoring LINE events inside sharepoint2text / olefile / xlrd / openpyxl / pypdf, tracemalloc
          peak, MemoryError under RLIMIT_AS = 3 GiB, CPU-time back-stop; input volume = bytes of the input that the stream delivers
          plus bytes that slices / scanning methods of the delivered buffers go through: the C-level work on the input that no LINE
          event shows, e.g. data[:pos].count(..) per item).  Clause `cost`:
              events <= 2*10^6 + 2000 * size      peak additional memory <= 32 MiB + 64 * size      input volume <= 4 MiB + 64 * size
          Entity-bomb templates (kind exp) are judged more sharply (clause `cost`, _materialised): against the SAME template at the
          smallest expansion of its lattice, text output may grow by 64 Ki characters + 64 * size and peak memory by 1 MiB + 64 * size
          and no more (the parser's own guard only starts at 8 MiB of output, which the 32 MiB base can never see).  The bomb sits in the
          main part (10^1..10^6 quick / ..10^9) and, one template per member, in EVERY XML member of a docx / pptx / xlsx / odt / ods /
          odp / odg / epub package: content types, relationships, core properties, styles, meta, manifest, shared strings,
          workbook / presentation, container / OPF / chapter (38 templates, expansion 10^3, 10^6 quick / + 10^7, 10^9 thorough).
          Families added for what lives in C code only: mbox separator lines that delimit EMPTY messages in five layouts (before /
          after / between real messages, blank lines between, CRLF, nothing but separators), n = 1..10^4 quick / ..10^5 thorough;
          archives with one member of n zero bytes also for n = per-member limit, limit + 1 and 10^8 in the quick tier (no member
          is selected there: nothing may be decoded).
          size = uncompressed input size (ZIP package: sum of member sizes; archive: file + members within the per-member limit).
limits    read_file(path, max_file_size=m) for m in {0, 1, s-1, s, s+1} (txt, docx, zip) x what the path IS (PATH_KINDS: regular file as
          str / pathlib.Path, absolute / relative symbolic link, link to a link, link whose target path is longer than the file,
          file behind a symbolic link to its directory, second hard link, sparse file (txt only)); s = the number of bytes
          open(path).read() returns, i.e. the size of what read_file would read, whatever a size probe says;  a 7z archive of 100 MiB -1/0/+1
          bytes through the extractor, read_file(max_file_size=0) and read_file();  archive members of limit -1/0/+1 bytes in zip
          (stored, deflated), tar, tar.gz, 7z (copy, LZMA2; one folder per member) for the default per-member limit (10 MiB) and
          for configure_archive_extraction(max_memory_size=1000 | 65536) x the COMPANY of the big member (OTHERS: a small supported
          member | nothing | a member of an unsupported type | a hidden member | a second big member - with all but the first, no
          member at all is selected once big.txt is over the limit; quick: every company at the limit 1000, 'alone' one byte over
          the default limit; thorough: the full product), with monitors on ZipFile.read/open, TarFile.extractfile,
          LZMADecompressor.decompress and every write-mode open() (audit hook).
fixtures  every file under sharepoint2text/tests/resources through the same meter: the maxima of events/size and peak/size are
          reported in the evidence to justify the constants (a fixture over budget would be reported like any other case).
"""
from __future__ import annotations

import atexit
import io
import json
import os
import random
import shutil
import tempfile

from verif.mc import pool as P

LEVEL = "exploration"
MOD = "verif.props.C12"
MIB = 1 << 20
LIMIT_7Z = 100 * MIB
MEMBER_LIMIT = 10 * MIB
HARD_WALL = 900.0               # wall-clock kill of a worker (last resort; the CPU-time limits of the meter come first)
FIXTURE_DIR = "/repo/sharepoint2text/tests/resources"


def _toks():
    from verif.props import c12_templates as T
    return T.tok("Bbcdfg"), T.tok("Bcdfgh")

_WARM = set()


def _seed():
    return int(os.environ.get("VERIF_SEED", "0") or 0)


# ------------------------------------------------------------------------------------------------ amplifier part
def _extract_fn(name, data):
    from sharepoint2text.parsing.router import get_extractor
    from verif.props import c12_meter as M
    ext = get_extractor(name)

    def fn():
        res = list(ext(M.stream_for(data), name))
        tl = 0
        for r in res:
            tl += len(r.get_full_text() or "")
        return (len(res), tl)
    return fn


def _outcome(m):
    if m["abort"] or m["memerr"]:
        return "over:" + (m["abort"] or "memerr")
    if m.get("volume", 0) > m.get("vol_budget", 1 << 62):
        return "over:volume"
    if m["exc"]:
        return "exc:" + m["exc"]
    v = m["value"]
    return "ok:%s" % ("results" if v and v[0] else "empty")


GROWTH_FACTOR = 2.0
MEMERR_LOWER_BOUND = 1 << 30      # a MemoryError under RLIMIT_AS = 3 GiB means the call wanted at least this much


def _superlinear(tid, n, m, v):
    """A "grow" template's size is proportional to n, so a cost that is merely linear with a large constant can cross the budget
    without contradicting the property ("a fixed multiple of the input size").  Such a case counts only if the cost PER BYTE has at
    least doubled against the largest smaller magnitude q of the lattice that stays within budget (fully measured): per-byte cost
    growing with the size is what "not a fixed multiple" means.  Aborted counters enter with their value at the abort (a lower bound).
    -> (verdict list or [], text)"""
    from verif.props import c12_meter as M
    from verif.props import c12_templates as T
    for q in sorted((x for x in set(T.magnitudes(tid, "thorough")) if x < n), reverse=True):
        bq = T.build(tid, q)
        mq = M.measure(_extract_fn(bq["name"], bq["data"]), bq["size"])
        if M.verdict(mq):
            continue
        sn, sq = max(m["size"], 1), max(mq["size"], 1)
        facts = []
        if m["events"] > m["ev_budget"] or m["abort"] == "events":
            facts.append(("events", (m["events"] / sn) / max(mq["events"] / sq, 1e-9)))
        if m.get("volume", 0) > m.get("vol_budget", 1 << 62) or m["abort"] == "volume":
            facts.append(("volume", (m["volume"] / sn) / max(mq.get("volume", 0) / sq, 1e-9)))
        pk = m["peak"] if m["peak"] is not None else (MEMERR_LOWER_BOUND if m["memerr"] else None)
        if m["memerr"] and pk is not None:
            pk = max(pk, MEMERR_LOWER_BOUND)
        if pk is not None and (pk > m["mem_budget"] or m["abort"] == "memory" or m["memerr"]) and mq["peak"]:
            facts.append(("memory", (pk / sn) / max(mq["peak"] / sq, 1e-9)))
        if m["abort"] in ("cpu", "cpu-traced"):
            cq = mq["cpu"] if m["abort"] == "cpu" else (mq["cpu2"] or 0.0)
            lim = M.CPU_LIMIT if m["abort"] == "cpu" else M.CPU_LIMIT_TRACED
            facts.append(("cpu", (lim / sn) / (max(cq, 0.05) / sq)))
        good = [(c, g) for c, g in facts if g >= GROWTH_FACTOR]
        txt = "; per-byte cost against n=%d (%d bytes, within budget): %s" % (q, sq, ", ".join("%s x%.1f" % cg for cg in facts))
        if good:
            return v, txt
        return [], txt
    return v, "; no smaller magnitude is within budget"


ENT_OUT_SLACK = 64 << 10          # characters of text
ENT_MEM_SLACK = 1 << 20           # bytes of peak additional memory


def _text_len(m):
    return m["value"][1] if m.get("value") else 0


def _materialised(tid, n, b, m):
    """Entity-bomb templates (kind exp): the file is the SAME file but for the number of nesting levels of the entity declarations (a few
    dozen bytes per level), so "irrespective of entity tricks" is judged against the same template at the smallest expansion n0 of its
    lattice, measured in the same process: the text that comes out and the peak additional memory may exceed those of n0 by 64 bytes
    per input byte plus a slack (64 Ki characters / 1 MiB) and no more.  An expansion that is carried out shows here long before it
    reaches the fixed 32 MiB base of the general budget (expat's own amplification guard only starts at 8 MiB of output, so the
    general budget alone can never see an entity expansion).  Refusing, ignoring or dropping the reference all pass.
    -> list of violated counters (strings)"""
    from verif.props import c12_meter as M
    from verif.props import c12_templates as T
    out, pk = _text_len(m), (m["peak"] or 0)
    so, sm = ENT_OUT_SLACK + M.MEM_PER_BYTE * b["size"], ENT_MEM_SLACK + M.MEM_PER_BYTE * b["size"]
    if out <= so and pk <= sm:
        return []                                      # within the allowance even against a baseline of nothing
    n0 = T.magnitudes(tid, "quick")[0]
    if n0 >= n:
        return []
    b0 = T.build(tid, n0)
    m0 = M.measure(_extract_fn(b0["name"], b0["data"]), b0["size"])
    out0, pk0 = _text_len(m0), (m0["peak"] or 0)
    res = []
    if out > out0 + so:
        res.append(f"entity expansion materialised: {out} characters of text against {out0} for the same file with expansion {n0} "
                   f"(allowance {so} more)")
    if pk > pk0 + sm:
        res.append(f"entity expansion materialised: peak additional memory {pk} B against {pk0} B for the same file with expansion {n0} "
                   f"(allowance {sm} B more)")
    return res


def eval_amp(case):
    from verif.props import c12_meter as M
    from verif.props import c12_templates as T
    tid, n = case["t"], int(case["n"])
    if tid not in T.TEMPLATES:
        return {"fails": [], "outcome": "unknown-template", "harness": f"unknown template {tid}"}
    if tid not in _WARM:
        # first use of this template in this process: imports, caches and code-object discovery happen here, under the same
        # protection, and are not judged
        b0 = T.build(tid, T.magnitudes(tid, "quick")[0])
        M.measure(_extract_fn(b0["name"], b0["data"]), b0["size"])
        _WARM.add(tid)
        b0 = None
    b = T.build(tid, n)
    m = M.measure(_extract_fn(b["name"], b["data"]), b["size"])
    v = M.verdict(m)
    fails = []
    growth = ""
    if v and T.TEMPLATES[tid]["kind"] == "grow":
        v, growth = _superlinear(tid, n, m, v)
    if not v and T.TEMPLATES[tid]["kind"] == "exp":
        v = _materialised(tid, n, b, m)
    if v:
        fails.append(("cost", f"{T.TEMPLATES[tid]['doc']} | n={n}: file of {len(b['data'])} bytes (uncompressed size {b['size']}): " + "; ".join(v) +
                      growth + f" [events={m['events']} volume={m.get('volume')} peak={m['peak']} cpu={m['cpu']}s outcome={m['exc'] or m['value']}]"))
    info = {"events": m["events"], "volume": m.get("volume"), "peak": m["peak"], "size": b["size"], "file": len(b["data"]), "cpu": m["cpu"], "exc": m["exc"],
            "value": m["value"]}
    harness = None
    if T.TEMPLATES[tid]["expect"] == "ok" and n == T.magnitudes(tid, "quick")[0] and not v and (m["exc"] or not (m["value"] and m["value"][0])):
        harness = f"template {tid} does not extract at its smallest magnitude: {m['exc']} {m['msg']} {m['value']}"
    oc = _outcome(m)
    if oc.startswith("over:") and not fails:
        oc = "linear-" + oc            # grow template over budget with a per-byte cost that does not grow: not judged
    return {"fails": fails, "outcome": oc, "info": info, "harness": harness}


# ------------------------------------------------------------------------------------------------ limits part
_TMP = []


def _tmpdir():
    if not _TMP:
        d = tempfile.mkdtemp(prefix="verif-c12-")
        _TMP.append(d)
        atexit.register(shutil.rmtree, d, True)
    return _TMP[0]


def _too_large():
    from sharepoint2text.parsing.exceptions import ExtractionFileTooLargeError
    return ExtractionFileTooLargeError


def _small_file(ext):
    from verif.props import c12_templates as T
    BIG_TOK = _toks()[0]
    if ext == "txt":
        return "t.txt", (BIG_TOK + " " + "lorem ipsum " * 8).encode()
    if ext == "docx":
        return T.docx_pkg(T._wp(BIG_TOK))
    if ext == "zip":
        return "t.zip", T.mkzip([("a.txt", (BIG_TOK + " text").encode())], stored=())
    raise ValueError(ext)


def _run_read_file(path, **kw):
    import sharepoint2text
    try:
        res = list(sharepoint2text.read_file(path, **kw))
        return None, res
    except BaseException as e:  # noqa
        return e, []


PATH_KINDS = ("reg", "pathobj", "sym", "symrel", "sym2", "symlong", "symdir", "hard", "sparse")
SPARSE_SIZE = MIB


def _place(kind, name, data):
    """puts the file into a fresh directory and returns (directory, the path to hand to read_file, the size a reader of that path
    gets).  kind says what the path IS (what is read is always the same file):
        reg      the regular file itself (str)                  pathobj  the same as a pathlib.Path
        sym      absolute symbolic link to it                   symrel   relative symbolic link (target = a bare file name)
        sym2     link to a link to it                           symlong  link whose target PATH is longer than the file (the file sits
                                                                         in a directory with a 200-character name)
        symdir   regular file reached through a symbolic link to its directory
        hard     second hard link to the same inode
        sparse   regular file extended by a hole to SPARSE_SIZE bytes (apparent size = what read() returns; few blocks allocated)"""
    d = tempfile.mkdtemp(prefix="mfs-", dir=_tmpdir())
    real_dir = os.path.join(d, "r" * 200) if kind == "symlong" else os.path.join(d, "real")
    os.mkdir(real_dir)
    real = os.path.join(real_dir, name)
    with open(real, "wb") as f:
        f.write(data)
        if kind == "sparse":
            f.truncate(SPARSE_SIZE)
    size = os.stat(real).st_size
    if kind in ("reg", "sparse"):
        return d, real, size
    if kind == "pathobj":
        import pathlib
        return d, pathlib.Path(real), size
    if kind == "symdir":
        os.symlink(real_dir, os.path.join(d, "dirlink"))
        return d, os.path.join(d, "dirlink", name), size
    path = os.path.join(d, "l-" + name)
    if kind in ("sym", "symlong"):
        os.symlink(real, path)
    elif kind == "symrel":
        path = os.path.join(real_dir, "l-" + name)
        os.symlink(name, path)
    elif kind == "sym2":
        mid = os.path.join(d, "m-" + name)
        os.symlink(real, mid)
        os.symlink(mid, path)
    elif kind == "hard":
        os.link(real, path)
    else:
        raise ValueError(kind)
    return d, path, size


def eval_max_file_size(case):
    """the size that decides is the size of what read_file is going to READ through the path it was given: s = number of bytes
    open(path, 'rb').read() returns (measured here, independently of any stat call)"""
    name, data = _small_file(case["ext"])
    kind = case.get("via", "reg")
    d, path, _st = _place(kind, name, data)
    try:
        with open(path, "rb") as f:
            s = 0
            while True:
                chunk = f.read(1 << 20)
                if not chunk:
                    break
                s += len(chunk)
        m = {"0": 0, "1": 1, "s-1": s - 1, "s": s, "s+1": s + 1}[case["m"]]
        exc, res = _run_read_file(path, max_file_size=m)
    finally:
        shutil.rmtree(d, True)
    what = f"read_file({name}, max_file_size={m}) on a file of {s} bytes" + ("" if kind in ("reg",) else f" [path kind: {kind}]")
    must_refuse = m > 0 and s > m
    fails = []
    if must_refuse and not isinstance(exc, _too_large()):
        fails.append(("max_file_size", f"{what} must raise ExtractionFileTooLargeError; "
                                       f"got {type(exc).__name__ if exc else '%d results' % len(res)}"))
    if not must_refuse and isinstance(exc, _too_large()):
        fails.append(("max_file_size", f"{what} must not refuse the file "
                                       f"({'0 disables the check' if m == 0 else 'size <= limit'}); got {type(exc).__name__}: {exc}"))
    return {"fails": fails, "outcome": f"mfs:{kind}:{'refused' if isinstance(exc, _too_large()) else ('exc:' + type(exc).__name__ if exc else 'ok')}"}


def sevenz_of_size(total):
    """a valid 7z archive (one member a.txt, copy coder) of exactly `total` bytes: the filler sits between the signature header and
    the pack stream (PackPos = gap), as 7zFormat.txt allows"""
    from verif.gen import sevenz as SZ
    members = [{"name": "a.txt", "data": (_toks()[0] + " text").encode()}]
    gap = total - len(SZ.sevenz(members, {"pack_gap": 0}))
    for _i in range(6):
        d = SZ.sevenz(members, {"pack_gap": gap})
        if len(d) == total:
            return d
        gap += total - len(d)
        d = None
    raise AssertionError("cannot hit the archive size")


def eval_7z_limit(case):
    total = LIMIT_7Z + int(case["d"])
    data = sevenz_of_size(total)
    via = case["via"]
    exc, res = None, []
    if via == "extractor":
        from sharepoint2text.parsing.router import get_extractor
        try:
            res = list(get_extractor("t.7z")(io.BytesIO(data), "t.7z"))
        except BaseException as e:  # noqa
            exc = e
    else:
        path = os.path.join(_tmpdir(), f"lim-{os.getpid()}.7z")
        with open(path, "wb") as f:
            f.write(data)
        data = None
        try:
            exc, res = _run_read_file(path, **({"max_file_size": 0} if via == "read_file0" else {}))
        finally:
            os.remove(path)
    refused = isinstance(exc, _too_large())
    fails = []
    if total > LIMIT_7Z and not refused:
        fails.append(("7z_limit", f"7z archive of 100 MiB {case['d']:+d} bytes via {via}: must be refused with ExtractionFileTooLargeError; got "
                                  f"{type(exc).__name__ if exc else '%d results' % len(res)}"))
    if total <= LIMIT_7Z and refused:
        fails.append(("7z_limit", f"7z archive of 100 MiB {case['d']:+d} bytes via {via}: is within the limit and must not be refused; got {exc}"))
    return {"fails": fails, "outcome": f"7z:{'refused' if refused else ('exc:' + type(exc).__name__ if exc else 'ok:%d' % len(res))}"}


def member_bytes(k):
    BIG_TOK = _toks()[0]
    return (BIG_TOK + " ").encode() + b"a" * (k - len(BIG_TOK) - 1)


OTHERS = ("ok", "alone", "unsup", "hidden", "twobig")


def member_archive(c, k, o="ok"):
    """archive [big.txt (k bytes)] + its company o; returns (name, bytes).  o says what ELSE is in the archive:
        ok      ok.txt, a small supported member (the only company in which some member is always selected)
        alone   nothing                                     unsup   u.bin, a small member of an unsupported type
        hidden  .ok.txt, a small hidden member              twobig  big2.txt, a second member of k bytes
    (with every company but 'ok' NO member at all qualifies once k is over the limit)"""
    from verif.gen import sevenz as SZ, tarforge as TF, zipforge as ZF
    import zipfile
    big, ok = member_bytes(k), (_toks()[1] + " small").encode()
    members = [{"name": "big.txt", "data": big}]
    if o == "ok":
        members.append({"name": "ok.txt", "data": ok})
    elif o == "unsup":
        members.append({"name": "u.bin", "data": bytes(range(256))})
    elif o == "hidden":
        members.append({"name": ".ok.txt", "data": ok})
    elif o == "twobig":
        members.append({"name": "big2.txt", "data": big})
    elif o != "alone":
        raise ValueError(o)
    if c in ("zip-s", "zip-d"):
        return "t.zip", ZF.zip_honest(members, zipfile.ZIP_STORED if c == "zip-s" else zipfile.ZIP_DEFLATED)
    if c in ("tar-lnk", "tar-sym", "tar.gz-lnk"):
        # a hard / symbolic link with a supported extension pointing at the big member: its own size field is 0, its content is big.txt's
        alias = {"name": "alias.txt", "type": "LNK" if c.endswith("lnk") else "SYM", "linkname": "big.txt"}
        return ("t.tar.gz" if c.startswith("tar.gz") else "t.tar"), TF.tarforge(members + [alias], compression="gz" if c.startswith("tar.gz") else None)
    if c == "tar":
        return "t.tar", TF.tarforge(members)
    if c == "tar.gz":
        return "t.tar.gz", TF.tarforge(members, compression="gz")
    if c in ("7z-copy", "7z-lzma2"):
        return "t.7z", SZ.sevenz(members, {"coder": c.split("-")[1], "layout": "per_file"})
    if c in ("7z-copy-solid", "7z-lzma2-solid", "7z-copy-solid-last", "7z-lzma2-solid-last"):
        # one folder holding both members: the folder has to be decoded to reach ok.txt, but big.txt still must not land on disk
        ms = members[::-1] if c.endswith("-last") else members
        return "t.7z", SZ.sevenz(ms, {"coder": c.split("-")[1], "layout": "solid"})
    raise ValueError(c)


class _Monitors:
    """records what happens to archive members during one read_archive call"""

    def __init__(self):
        self.hits = []

    def __enter__(self):
        import lzma
        import tarfile
        import zipfile
        from verif.props import c09_monitor as AM
        hits = self.hits
        self._zr, self._zo, self._te, self._ld = zipfile.ZipFile.read, zipfile.ZipFile.open, tarfile.TarFile.extractfile, lzma.LZMADecompressor
        zr, zo, te, ld = self._zr, self._zo, self._te, self._ld

        def nm(x):
            return x.filename if isinstance(x, zipfile.ZipInfo) else str(x)

        def read(zf, name, *a, **k):
            hits.append(("ZipFile.read", nm(name)))
            return zr(zf, name, *a, **k)

        def zopen(zf, name, *a, **k):
            hits.append(("ZipFile.open", nm(name)))
            return zo(zf, name, *a, **k)

        def extractfile(tf, member):
            hits.append(("TarFile.extractfile", member.name if hasattr(member, "name") else str(member)))
            return te(tf, member)

        class Dec:
            def __init__(self, *a, **k):
                self._d = ld(*a, **k)

            def decompress(self, data, max_length=-1):
                out = self._d.decompress(data, max_length)
                hits.append(("LZMADecompressor.decompress", len(out)))
                return out

            def __getattr__(self, k):
                return getattr(self._d, k)
        zipfile.ZipFile.read, zipfile.ZipFile.open, tarfile.TarFile.extractfile, lzma.LZMADecompressor = read, zopen, extractfile, Dec
        self._lzma, self._tar, self._zip, self._am = lzma, tarfile, zipfile, AM
        AM.start()
        return self

    def __exit__(self, *a):
        ev = self._am.stop()
        self._zip.ZipFile.read, self._zip.ZipFile.open, self._tar.TarFile.extractfile, self._lzma.LZMADecompressor = self._zr, self._zo, self._te, self._ld
        for e in ev:
            if e[0] == "open" and e[1] == "W":
                self.hits.append(("open-for-writing", e[3]))
        return False


def eval_member_limit(case):
    from sharepoint2text.parsing.extractors import archive_extractor as AE
    from sharepoint2text.parsing.router import get_extractor
    L = case["L"] or MEMBER_LIMIT
    k = L + int(case["d"])
    o = case.get("o", "ok")
    name, data = member_archive(case["c"], k, o)
    AE.configure_archive_extraction(max_memory_size=L)
    exc, res = None, []
    mon = _Monitors()
    try:
        with mon:
            try:
                res = list(get_extractor(name)(io.BytesIO(data), name))
            except BaseException as e:  # noqa
                exc = e
    finally:
        AE.configure_archive_extraction(max_memory_size=MEMBER_LIMIT)
    texts = []
    for r in res:
        try:
            texts.append(r.get_full_text() or "")
        except Exception as e:  # noqa
            texts.append(f"<get_full_text raised {type(e).__name__}>")
    BIG_TOK, OK_TOK = _toks()
    has_big = any(BIG_TOK in t for t in texts)
    has_ok = any(OK_TOK in t for t in texts)
    company = {"ok": ", ok.txt", "alone": "", "unsup": ", u.bin (unsupported type)", "hidden": ", .ok.txt (hidden)", "twobig": f", big2.txt of {k} bytes"}[o]
    what = f"{case['c']} archive [big.txt of {k} bytes{company}], per-member limit {L}" + ("" if case["L"] is None else " (configured)")
    fails = []
    if k <= L:
        if exc is not None or not has_big:
            fails.append(("member_at_limit_processed", f"{what}: big.txt is within the limit and must be extracted; got "
                                                       f"{type(exc).__name__ + ': ' + str(exc)[:120] if exc else '%d results without its text' % len(res)}"))
    else:
        if exc is not None or has_big:
            fails.append(("member_over_limit_skipped", f"{what}: big.txt is over the limit and must be skipped; got "
                                                       f"{type(exc).__name__ + ': ' + str(exc)[:120] if exc else 'a result with its text'}"))
        elif not has_ok and o == "ok":
            fails.append(("member_over_limit_others_lost", f"{what}: skipping big.txt lost ok.txt as well ({len(res)} results)"))
        bad = []
        for h in mon.hits:
            if h[0] in ("ZipFile.read", "ZipFile.open", "TarFile.extractfile") and h[1] in ("big.txt", "big2.txt", "alias.txt"):
                bad.append(f"{h[0]}({h[1] if h[1] == 'big2.txt' else 'big.txt'})")
            elif h[0] == "LZMADecompressor.decompress" and h[1] >= k and ("-solid" not in case["c"] or o != "ok"):
                # (a solid folder has to be decoded only if it holds a selected member as well)
                bad.append(f"LZMADecompressor.decompress -> {h[1]} bytes")
            elif h[0] == "open-for-writing" and os.path.basename(h[1]) in ("big.txt", "big2.txt"):
                bad.append(f"open({h[1]!r}, 'wb')")
        if bad:
            fails.append(("member_over_limit_decompressed", f"{what}: the oversize member was decompressed / written: " + ", ".join(sorted(set(bad)))))
    return {"fails": fails, "outcome": f"member:{'le' if k <= L else 'gt'}:{'exc' if exc else ('big' if has_big else 'nobig')}:"
                                       f"{'ok' if has_ok else 'nook'}:{len(set(h[0] for h in mon.hits))}"}


# ------------------------------------------------------------------------------------------------ fixtures part
def fixture_list():
    out = []
    for d, _dirs, files in os.walk(FIXTURE_DIR):
        for f in files:
            out.append(os.path.relpath(os.path.join(d, f), FIXTURE_DIR))
    return sorted(out)


def eval_fixture(case):
    from verif.props import c12_meter as M
    from verif.props import c12_templates as T
    from sharepoint2text.parsing.router import get_extractor, is_supported_file
    rel = case["p"]
    path = os.path.join(FIXTURE_DIR, rel)
    name = os.path.basename(path)
    if not is_supported_file(name):
        return {"fails": [], "outcome": "fixture:unsupported", "info": None}
    with open(path, "rb") as f:
        data = f.read()
    if not data:
        return {"fails": [], "outcome": "fixture:empty-file", "info": None}
    size = T.usize(data)
    fn = _extract_fn(name, data)
    if ("fx", os.path.splitext(name)[1]) not in _WARM:
        M.measure(fn, size)
        _WARM.add(("fx", os.path.splitext(name)[1]))
    m = M.measure(fn, size)
    v = M.verdict(m)
    fails = [("cost", f"fixture {rel} ({len(data)} bytes, uncompressed {size}): " + "; ".join(v))] if v else []
    return {"fails": fails, "outcome": "fixture:" + _outcome(m),
            "info": {"p": rel, "size": size, "events": m["events"], "peak": m["peak"], "ev_per_byte": round(m["events"] / max(size, 1), 2),
                     "volume": m.get("volume", 0), "vol_per_byte": round(m.get("volume", 0) / max(size, 1), 2),
                     "peak_per_byte": None if m["peak"] is None else round(m["peak"] / max(size, 1), 2)}}


# ------------------------------------------------------------------------------------------------ dispatch
def evaluate(fmt, case):
    k = case.get("k", "amp")
    if k == "amp":
        return eval_amp(case)
    if k == "max_file_size":
        return eval_max_file_size(case)
    if k == "7z_limit":
        return eval_7z_limit(case)
    if k == "member_limit":
        return eval_member_limit(case)
    if k == "fixture":
        return eval_fixture(case)
    raise ValueError(k)


def _eval_task(arg):
    import time
    fmt, case = arg
    P.note(json.dumps(case))
    t0 = time.process_time()
    try:
        r = evaluate(fmt, case)
    except MemoryError:
        r = {"fails": [], "outcome": "harness-memory", "harness": f"MemoryError in the harness while building / judging {case}"}
    r["cpu_total"] = round(time.process_time() - t0, 2)
    return r


def _eval_batch(arg):
    """several cases of one template in one worker (one warm-up); a note before every case tells the master which one was running
    if the worker has to be killed"""
    out = []
    for fmt, case in arg:
        out.append(_eval_task((fmt, case)))
    return out


_POOL = []


def _pool():
    if not _POOL:
        p = P.Pool(1, env={"VERIF_SEED": str(_seed())})
        _POOL.append(p)
        atexit.register(p.close)
    return _POOL[0]


def _killed_failure(case, why):
    if case.get("k", "amp") in ("amp", "fixture"):
        return [("cost", f"worker {why} after {HARD_WALL:.0f} s wall clock / died while extracting {case}")]
    return [("harness", f"worker {why} while running {case}")]


_FRESH: dict = {}      # key -> results of the executions made after the sweep for the double replay of every failing case
_SWEEP: dict = {}      # key -> result of the sweep (serves the shrink candidates: they are cases of the same lattice)


def _key(fmt, case):
    return json.dumps([fmt, case], sort_keys=True)


def _as_fails(case, st, res):
    if st == "killed":
        return _killed_failure(case, res)
    if st != "done":
        return [("harness", str(res)[-500:])]
    return [tuple(x) for x in res["fails"]]


def reexec(fmt, case):
    """Re-runs one case in a sandboxed worker (RLIMIT_AS 3 GiB, wall-clock kill): a bomb must not take the master down.
    During triage of a sweep the answers come from executions that run() has already made on the real code: two fresh executions
    of every failing case (made in parallel after the sweep, for the 'replay twice' rule), then the sweep's own result (shrink
    candidates are cases of the same lattice).  A stand-alone replay (./check C12 --replay f) always executes."""
    k = _key(fmt, case)
    if _FRESH.get(k):
        return _FRESH[k].pop(0)
    if k in _SWEEP:
        return _SWEEP[k]
    st, res, _ = _pool().map(MOD, "_eval_task", [(fmt, case)], hard_timeout=HARD_WALL)[0]
    return _as_fails(case, st, res)


def fmt_of(case):
    from verif.props import c12_templates as T
    k = case.get("k", "amp")
    if k == "amp":
        return T.TEMPLATES[case["t"]]["id"].split("-")[0]
    if k == "fixture":
        return "fixture"
    return "limits"


def shrinks(case):
    """amp: the same template at every smaller magnitude of its (thorough) lattice, smallest first;
    member_limit: the small configured limit and the copy coder first (cheaper to replay, same boundary)"""
    if case.get("k") == "member_limit":
        if case.get("o", "ok") not in ("ok", "alone"):
            yield dict(case, o="alone")
        if case["L"] != 1000:
            yield dict(case, L=1000)
        if case["c"] == "7z-lzma2":
            yield dict(case, c="7z-copy")
        if case["c"] in ("zip-d", "tar.gz"):
            yield dict(case, c={"zip-d": "zip-s", "tar.gz": "tar"}[case["c"]])
        return
    if case.get("k") == "max_file_size":
        # the plainest member of the same path class first: plain text, the direct absolute link
        via = case.get("via", "reg")
        if _via_class(via) == "symlink" and via != "sym":
            yield dict(case, via="sym")
        if via == "pathobj":
            yield {k: v for k, v in case.items() if k != "via"}
        if case["ext"] != "txt":
            yield dict(case, ext="txt")
        return
    if case.get("k", "amp") != "amp":
        return
    from verif.props import c12_templates as T
    for n in sorted(set(T.magnitudes(case["t"], "thorough"))):
        if n < case["n"]:
            yield {"t": case["t"], "n": n}


def embeds(small, big):
    if small.get("k", "amp") != big.get("k", "amp"):
        return False
    if small.get("k", "amp") == "amp":
        return small["t"] == big["t"] and big["n"] >= small["n"]
    if small.get("k") == "member_limit":
        return (_family(small["c"]) == _family(big["c"]) and small["d"] == big["d"] and
                (small.get("o", "ok") == "ok") == (big.get("o", "ok") == "ok"))
    if small.get("k") == "max_file_size":
        return small["m"] == big["m"] and _via_class(small.get("via", "reg")) == _via_class(big.get("via", "reg"))
    return small == big


def _via_class(via):
    return {"reg": "regular", "pathobj": "regular", "sym": "symlink", "symrel": "symlink", "sym2": "symlink", "symlong": "symlink"}.get(via, via)


def _family(c):
    return c.split("-")[0].split(".")[0]


def fingerprint_view(case):
    """an amplifier finding is identified by its template; the smallest failing magnitude is kept in the replay file only"""
    if case.get("k", "amp") == "amp":
        return {"t": case["t"]}
    if case.get("k") == "member_limit":
        if case.get("o", "ok") != "ok":
            return {"k": "member_limit", "container": _family(case["c"]), "d": case["d"], "selected": "none"}
        return {"k": "member_limit", "container": _family(case["c"]), "d": case["d"]}
    if case.get("k") == "max_file_size" and case.get("via", "reg") != "reg":
        return {"k": "max_file_size", "m": case["m"], "path": _via_class(case["via"])}
    return case


# ------------------------------------------------------------------------------------------------ enumeration
def cases(tier):
    from verif.props import c12_templates as T
    out = []
    for tid in T.TEMPLATES:
        for n in T.magnitudes(tid, tier):
            out.append({"t": tid, "n": n})
    for ext in ("txt", "docx", "zip"):
        for via in PATH_KINDS:
            if via == "sparse" and ext != "txt":
                continue                       # a hole behind a ZIP package would hide its end-of-central-directory record
            for m in ("0", "1", "s-1", "s", "s+1"):
                out.append({"k": "max_file_size", "ext": ext, "m": m} if via == "reg" else {"k": "max_file_size", "ext": ext, "m": m, "via": via})
    for via in ("extractor", "read_file0", "read_file"):
        for d in (-1, 0, 1):
            out.append({"k": "7z_limit", "via": via, "d": d})
    for c in ("zip-s", "zip-d", "tar", "tar.gz", "tar-lnk", "tar-sym", "tar.gz-lnk", "7z-copy", "7z-lzma2",
              "7z-copy-solid", "7z-lzma2-solid", "7z-copy-solid-last", "7z-lzma2-solid-last"):
        for L in (None, 1000, 65536):
            for d in (-1, 0, 1):
                out.append({"k": "member_limit", "c": c, "L": L, "d": d})
                for o in OTHERS[1:]:
                    # quick: the small configured limit with every company; the default limit over the limit, alone
                    if tier != "quick" or L == 1000 or (L is None and d == 1 and o == "alone"):
                        out.append({"k": "member_limit", "c": c, "L": L, "d": d, "o": o})
    for p in fixture_list():
        out.append({"k": "fixture", "p": p})
    return out


def _weight(case):
    k = case.get("k", "amp")
    if k == "amp":
        return case["n"]
    if k in ("7z_limit",) or (k == "member_limit" and case["L"] is None):
        return 10 ** 8
    return 1000


BATCH_MAX_N = 10 ** 5


def _sweep(args, ctx):
    """Executes every (fmt, case) once.  The cheap magnitudes (n <= 10^5) of one template travel together (one warm-up per template
    instead of one per case); everything else is a task of its own.  If a worker has to be killed, the case named by its last note
    is the culprit and the rest of its batch is re-submitted."""
    results = {}
    pending = list(args)
    rounds = 0
    while pending and rounds < 50:
        rounds += 1
        batches = {}
        tasks = []
        for fmt, case in pending:
            if case.get("k", "amp") == "amp" and case["n"] <= BATCH_MAX_N:
                batches.setdefault(case["t"], []).append((fmt, case))
            else:
                tasks.append([(fmt, case)])
        for tid in batches:
            tasks.append(sorted(batches[tid], key=lambda fc: fc[1]["n"]))
        tasks.sort(key=lambda t: -max(_weight(fc[1]) for fc in t))
        res = P.run_all(MOD, "_eval_batch", tasks, n=ctx.ncpu, hard_timeout=HARD_WALL, env={"VERIF_SEED": str(ctx.seed)})
        pending = []
        for task, (st, r, note) in zip(tasks, res):
            if st == "done":
                for (fmt, case), rr in zip(task, r):
                    results[_key(fmt, case)] = ("done", rr, None)
                continue
            culprit = None
            if st == "killed" and note is not None:
                try:
                    culprit = json.loads(note)
                except Exception:
                    culprit = None
            hit = False
            for fmt, case in task:
                if culprit is not None and case == culprit and not hit:
                    results[_key(fmt, case)] = (st, r, note)
                    hit = True
                elif hit:
                    pending.append((fmt, case))
                elif culprit is None or len(task) == 1:
                    results[_key(fmt, case)] = (st, r, note)
                else:
                    pending.append((fmt, case))      # finished before the kill, result lost with the worker: run again
    return [results.get(_key(fmt, case), ("error", "not executed", None)) for fmt, case in args]


def run(ctx):
    from verif.props import c12_meter as M
    from verif.props import c12_templates as T
    herr = [f"generator self-test: {e}" for e in T.selftest()]
    cs = cases(ctx.tier)
    rnd = random.Random(ctx.seed)
    rnd.shuffle(cs)
    cs.sort(key=lambda c: -_weight(c))              # heavy cases first (work order only)
    args = [(fmt_of(c), c) for c in cs]
    res = _sweep(args, ctx)
    fails, outcomes, per_part = [], {}, {}
    fx = []
    amp_over = {}
    slow = []
    near = []
    vol_max = None
    for (fmt, case), (st, r, _note) in zip(args, res):
        _SWEEP[_key(fmt, case)] = _as_fails(case, st, r)
        if st == "done":
            slow.append((r.get("cpu_total", 0), json.dumps(case, sort_keys=True)))
        part = case.get("k", "amp")
        per_part[part] = per_part.get(part, 0) + 1
        if st == "killed":
            for clause, msg in _killed_failure(case, r):
                if clause == "harness":
                    herr.append(msg)
                else:
                    fails.append((clause, fmt, case, msg))
            outcomes[f"{part}:killed"] = outcomes.get(f"{part}:killed", 0) + 1
            continue
        if st != "done":
            herr.append(f"case {case}: {st}: {str(r)[-500:]}")
            continue
        if r.get("harness"):
            herr.append(r["harness"])
        key = f"{fmt}:{r['outcome']}"
        outcomes[key] = outcomes.get(key, 0) + 1
        for clause, msg in r["fails"]:
            fails.append((clause, fmt, case, msg))
        if part == "fixture" and r.get("info"):
            fx.append(r["info"])
        if part == "amp" and r["fails"]:
            amp_over.setdefault(case["t"], []).append(case["n"])
        if part == "amp" and not r["fails"] and r.get("info"):
            i = r["info"]
            eb, mb = M.budgets(i["size"])
            vb = M.vol_budget(i["size"])
            fr = max(i["events"] / eb, (i["peak"] or 0) / mb, (i.get("volume") or 0) / vb)
            if fr >= 0.5:
                near.append({"case": case, "events_fraction": round(i["events"] / eb, 3), "memory_fraction": round((i["peak"] or 0) / mb, 3),
                             "volume_fraction": round((i.get("volume") or 0) / vb, 3)})
            vr = (i.get("volume") or 0) / max(i["size"], 1)
            if vol_max is None or vr > vol_max[0]:
                vol_max = (vr, case, i.get("volume"), i["size"])
    # the double replay of every failing case, in parallel (triage asks for it case by case)
    failing = sorted({_key(f[1], f[2]) for f in fails})
    rargs = [tuple(json.loads(k)) for k in failing for _i in (0, 1)]
    rres = P.run_all(MOD, "_eval_task", rargs, n=ctx.ncpu, hard_timeout=HARD_WALL, env={"VERIF_SEED": str(ctx.seed)}) if rargs else []
    rres = [(st, r, note) for st, r, note in rres]
    for (fmt, case), (st, r, _note) in zip(rargs, rres):
        _FRESH.setdefault(_key(fmt, case), []).append(_as_fails(case, st, r))
    slow.sort(reverse=True)
    fxb = [i for i in fx if i["size"] >= 4096]          # per-byte ratios of tiny files only show the fixed base cost
    fx_ev = max(fxb, key=lambda i: i["ev_per_byte"]) if fxb else None
    fx_pk = max((i for i in fxb if i["peak_per_byte"] is not None), key=lambda i: i["peak_per_byte"], default=None)
    fx_vol = max(fxb, key=lambda i: i["vol_per_byte"]) if fxb else None
    fx_abs_ev = max(fx, key=lambda i: i["events"]) if fx else None
    fx_abs_pk = max((i for i in fx if i["peak"] is not None), key=lambda i: i["peak"], default=None)
    samples = []
    for c in cs:
        if c.get("k", "amp") == "amp" and c["t"] in ("ods-cols-value", "xlsx-far-row", "7z-zeros-lzma2") and c["n"] == 1000:
            b = T.build(c["t"], c["n"])
            samples.append({"case": c, "file": b["name"], "bytes": len(b["data"]), "size": b["size"], "doc": T.TEMPLATES[c["t"]]["doc"],
                            "budget_events": M.budgets(b["size"])[0], "budget_memory": M.budgets(b["size"])[1]})
    samples.append({"case": {"k": "member_limit", "c": "7z-lzma2", "L": 1000, "d": 1}, "doc": "7z [big.txt 1001 bytes, ok.txt], limit configured to 1000"})
    samples.append({"case": {"k": "7z_limit", "via": "read_file0", "d": 0}, "doc": "valid 7z of exactly 104857600 bytes (PackPos filler)"})
    cov = {"evaluations": len(cs), "distinct_nontrivial": len(outcomes), "exhaustive": True, "samples": samples[:6],
           "rule": "every amplifier template x every magnitude of its lattice (tier bound), extracted by the real extractor under the "
                   "line-event / tracemalloc meter; every boundary value of every explicit limit; every fixture. distinct_nontrivial = "
                   "distinct (format, outcome class) pairs, outcome class in ok:results | ok:empty | exc:<type> | over:<counter> | "
                   "limit verdict classes",
           "templates": len(T.TEMPLATES), "per_part": per_part, "outcomes": dict(sorted(outcomes.items())),
           "budget": {"events": "2e6 + 2000 * size", "memory_bytes": "32 MiB + 64 * size", "input_volume_bytes": "4 MiB + 64 * size",
                      "entity_bomb_vs_smallest_expansion": "text +64 Ki chars + 64 * size; peak memory +1 MiB + 64 * size",
                      "cpu_backstop_s": M.CPU_LIMIT,
                      "rlimit_as": "3 GiB", "counted_packages": M.PACKAGES},
           "fixture_maxima": {"files_measured": len(fx), "note": "per-byte maxima over fixtures of at least 4 KiB; budget constants: 2000 events / byte, 64 bytes / byte",
                              "max_events_per_byte": fx_ev and {"p": fx_ev["p"], "value": fx_ev["ev_per_byte"], "size": fx_ev["size"]},
                              "max_volume_per_byte": fx_vol and {"p": fx_vol["p"], "value": fx_vol["vol_per_byte"], "size": fx_vol["size"]},
                              "max_peak_per_byte": fx_pk and {"p": fx_pk["p"], "value": fx_pk["peak_per_byte"], "size": fx_pk["size"]},
                              "max_events": fx_abs_ev and {"p": fx_abs_ev["p"], "value": fx_abs_ev["events"], "size": fx_abs_ev["size"]},
                              "max_peak": fx_abs_pk and {"p": fx_abs_pk["p"], "value": fx_abs_pk["peak"], "size": fx_abs_pk["size"]}},
           "slowest_cases_cpu_s": [{"cpu": c, "case": json.loads(k)} for c, k in slow[:12]],
           "max_input_volume_per_byte_within_budget": vol_max and {"case": vol_max[1], "volume": vol_max[2], "size": vol_max[3], "per_byte": round(vol_max[0], 2)},
           "within_budget_but_above_half": sorted(near, key=lambda x: json.dumps(x["case"], sort_keys=True)),
           "over_budget_magnitudes": {k: sorted(v) for k, v in sorted(amp_over.items())},
           "bounds": {"tier": ctx.tier, "lattices": {k: v[0 if ctx.quick else 1] for k, v in T.MAGS.items()},
                      "doc_picture_headers": T.DOC_PIC_MAGS[0 if ctx.quick else 1], "doc_stream_bytes": T.DOC_STREAM,
                      "entity_bomb_in_every_xml_member": {"expansions": T.PART_BOMB_MAGS[0 if ctx.quick else 1],
                                                          "templates": sorted(t for t in T.TEMPLATES if "-part" in t and t.endswith("-entity-bomb"))},
                      "member_limit_company": list(OTHERS), "member_limit_company_quick": "company != ok: configured limit 1000 (all d); default limit: d=+1, alone",
                      "mbox_empty_message_layouts": sorted(T.MBOX_EMPTY), "archive_zero_member_sizes": T.ZMAGS[0 if ctx.quick else 1],
                      "max_file_size_path_kinds": list(PATH_KINDS), "max_file_size_limits": ["0", "1", "s-1", "s", "s+1"]}}
    assumptions = [
        "uncompressed input size: ZIP packages = sum of the (honest) uncompressed member sizes; archives = file size + members that are "
        "within the per-member limit (an oversize member must be skipped without decompression, so it buys no budget)",
        "only the cost is judged in the amplifier part: whether an input is refused, truncated or fully expanded is don't-care (entity "
        "declarations, forged lengths, cycles may be refused or ignored - they just must not cost more than the budget)",
        "'100 MB' of the README is read as the code's 100 MiB (MAX_7Z_FILE_SIZE); at and below it only 'not refused as too large' is "
        "demanded",
        "tar.* streams have to be read through to find the next header: CPU time proportional to the uncompressed size is allowed, "
        "magnitudes are capped at 10^9 there so that the 60 s CPU back-stop cannot be reached by an honest skip",
        "archives whose declared member size is SMALLER than what the stream expands to are not enumerated (which size is 'the input "
        "size' is not settled by the statement)",
        "Python code of the standard library (email, html.parser, zipfile, tarfile, xml) is not counted by the line-event meter (the "
        "property names the packages); it is covered by the memory counter and the CPU back-stop only",
        ".msg has no writer: no amplifier templates for it (its OLE property sets are parsed by the same olefile code as the .xls / "
        ".ppt / .doc templates); .doc templates are written directly from [MS-DOC] (FIB + cp1252 text + picture area)",
        "max_file_size: 'a file larger than max_file_size' is the file that read_file opens and reads through the given path (a "
        "symbolic link counts with the size of its target); only paths whose content cannot change between probe and read are "
        "enumerated (no growing files, FIFOs or /proc entries)",
    ]
    return {"coverage": cov, "failures": fails, "harness_errors": herr, "assumptions": assumptions}
