"""C04 helper: the LINE-RECOMBINATION family for Word 97-2003 documents (.doc), the format without a reference writer.

A .doc result (DocContent) derives its units, headings and table / picture attachment from the LINES of the main text, so
which results exist depends on the line sequence - but the fixtures offer one sequence each, and byte mutations hardly ever
produce another meaningful one.  This family keeps a fixture's container, properties, pictures and formatting and replaces
only its main text by every sequence of at most n lines drawn from the fixture's OWN distinct lines (the first MAX_LINES
of them, in order of first appearance; the empty line is one of them), e.g. "a heading line and nothing else", "two table
rows", "text, then heading":

    case = {"file": fixture, "mut": null, "lines": [i, j, ...], "path": kind}        i, j: indices into lines_of(fixture)

The main text is located the way [MS-DOC] prescribes (FIB.ccpText, FIB.fcClx / lcbClx -> Clx in the table stream named by
FIB.fWhichTblStm -> Pcdt -> PlcPcd; a piece is compressed cp1252 or UTF-16LE), never by scanning for text.  The new lines are
joined by the paragraph mark (CR), and CRs fill the rest of the original character count, so every character position,
every offset in the file and the final paragraph mark stay what they were; the WordDocument stream is rewritten in place
(same length) with olefile.  Fixtures whose main text is not one single piece, is not a regular file, or whose lines do
not fit are skipped.  Nothing here shares code with the library.
"""
from __future__ import annotations

import io
import struct

MAX_LINES = 12
CR = "\r"


def _span(data: bytes):
    """-> (WordDocument bytes, byte offset of the main text, number of characters, bytes per character) | None"""
    import olefile
    if len(data) < 512 or not olefile.isOleFile(io.BytesIO(data)):
        return None
    try:
        ole = olefile.OleFileIO(io.BytesIO(data))
        try:
            if not ole.exists("WordDocument"):
                return None
            wd = ole.openstream("WordDocument").read()
            if len(wd) < 0x1AA or struct.unpack_from("<H", wd, 0)[0] != 0xA5EC:
                return None
            flags = struct.unpack_from("<H", wd, 0x0A)[0]
            table = "1Table" if flags & 0x0200 else "0Table"
            if flags & 0x0100 or not ole.exists(table):          # fEncrypted
                return None
            ccp = struct.unpack_from("<I", wd, 0x4C)[0]
            fc_clx, lcb_clx = struct.unpack_from("<II", wd, 0x1A2)
            clx = ole.openstream(table).read()[fc_clx:fc_clx + lcb_clx]
        finally:
            ole.close()
        p = 0
        while p < len(clx) and clx[p] == 1:                      # Prc: property modifiers in front of the piece table
            p += 3 + struct.unpack_from("<H", clx, p + 1)[0]
        if p >= len(clx) or clx[p] != 2:
            return None
        lcb = struct.unpack_from("<I", clx, p + 1)[0]
        plc = clx[p + 5:p + 5 + lcb]
        n = (lcb - 4) // 12
        cps = struct.unpack_from("<%dI" % (n + 1), plc, 0)
        if n < 1 or cps[0] != 0 or cps[1] < ccp or ccp < 1:      # the main text must lie inside the first piece
            return None
        _, fc, _ = struct.unpack_from("<HIH", plc, 4 * (n + 1))
        compressed = bool(fc & 0x40000000)
        off = (fc & 0x3FFFFFFF) // 2 if compressed else fc & 0x3FFFFFFF
        width = 1 if compressed else 2
        if off + ccp * width > len(wd):
            return None
        return wd, off, ccp, width
    except Exception:  # noqa  (a fixture this reader cannot take apart is skipped, not judged)
        return None


_CACHE: dict = {}


def lines_of(data: bytes):
    """the first MAX_LINES distinct lines of the main text, in order of first appearance -> list[str] | None"""
    key = (len(data), hash(data))
    if key not in _CACHE:
        sp = _span(data)
        if sp is None:
            _CACHE[key] = None
        else:
            wd, off, ccp, width = sp
            text = wd[off:off + ccp * width].decode("cp1252" if width == 1 else "utf-16-le", errors="replace")
            out = []
            for ln in text.split(CR):
                if ln not in out:
                    out.append(ln)
                if len(out) == MAX_LINES:
                    break
            _CACHE[key] = out
    return _CACHE[key]


def substitute(data: bytes, seq):
    """the fixture with its main text replaced by the lines seq (indices) -> bytes | None"""
    import olefile
    sp = _span(data)
    lines = lines_of(data)
    if sp is None or lines is None or not isinstance(seq, list) or any(not isinstance(i, int) or isinstance(i, bool) or not 0 <= i < len(lines) for i in seq):
        return None
    wd, off, ccp, width = sp
    text = CR.join(lines[i] for i in seq)
    if len(text) + 1 > ccp:
        return None
    text += CR * (ccp - len(text))
    try:
        raw = text.encode("cp1252" if width == 1 else "utf-16-le")
    except UnicodeEncodeError:
        return None
    if len(raw) != ccp * width:
        return None
    new = wd[:off] + raw + wd[off + len(raw):]
    buf = io.BytesIO(data)
    try:
        ole = olefile.OleFileIO(buf, write_mode=True)
        try:
            ole.write_stream("WordDocument", new)
        finally:
            ole.close()
    except Exception:  # noqa  (e.g. a WordDocument stream small enough to live in the mini stream: not rewritable in place)
        return None
    return buf.getvalue()


def sequences(nlines: int, maxlen: int):
    """all index sequences of length 0..maxlen over nlines lines, shortest first"""
    out = [[]]
    layer = [[]]
    for _ in range(maxlen):
        layer = [s + [i] for s in layer for i in range(nlines)]
        out += layer
    return out
