"""C15 helper: run one function in a process that has done nothing but `import sharepoint2text`.

The calling pool worker acts as a zygote: it imports the top-level package (what every user of the library does first),
never executes any other library code itself, and forks one child per call. The child therefore starts in exactly the
state of a fresh interpreter after the import - no extractor module lazily imported, no cache filled, no third-party
function patched - at the price of a fork instead of an interpreter start. The child returns its (picklable) result
through a pipe and leaves with os._exit.
"""
from __future__ import annotations

import importlib
import os
import pickle
import signal
import sys
import traceback

DIRTY = []          # reasons why this process is no longer "fresh" (filled by verif.props.C15 whenever it runs library code)


def fresh_child(module: str, func: str, arg, timeout: int = 900):
    """-> ("done", result) | ("error", traceback text) | ("killed", wait status)"""
    if DIRTY:
        raise RuntimeError(f"fresh_child called in a process that already ran library code: {DIRTY[:3]}")
    import sharepoint2text  # noqa: F401  (import only)
    mod = importlib.import_module(module)
    sys.stdout.flush()
    sys.stderr.flush()
    r, w = os.pipe()
    pid = os.fork()
    if pid == 0:
        code = 0
        try:
            os.close(r)
            signal.signal(signal.SIGALRM, signal.SIG_DFL)
            signal.alarm(timeout)
            try:
                out = ("done", getattr(mod, func)(arg))
            except BaseException as e:  # noqa
                out = ("error", "".join(traceback.format_exception(type(e), e, e.__traceback__))[-4000:])
            data = pickle.dumps(out)
            with os.fdopen(w, "wb") as f:
                f.write(data)
        except BaseException:  # noqa
            code = 3
        finally:
            os._exit(code)
    os.close(w)
    chunks = []
    with os.fdopen(r, "rb") as f:
        while True:
            b = f.read(1 << 20)
            if not b:
                break
            chunks.append(b)
    _, status = os.waitpid(pid, 0)
    data = b"".join(chunks)
    if not data:
        return ("killed", status)
    try:
        return pickle.loads(data)
    except Exception as e:  # noqa
        return ("error", f"unreadable child result ({type(e).__name__}), wait status {status}")
