"""C08 - encrypted input is rejected as encrypted (before any content), plain input never is.

Space I, paired inputs.  A case is plain JSON {"k": kind, ...parameters..., "seam": s}; `fmt` is the container family
(ooxml [case key "oext": docx/xlsx/pptx], odf [case key "ext": odt/odp/ods/odg/odf], xls, ppt, doc, pdf, zip, 7z, epub, fixture).  The generator carries the ground truth:
every case is built either WITH one of the encryption mechanisms of the statement (expect "enc"), or WITHOUT any (expect
"plain", including look-alikes that merely contain what a detector might search for), or as a PDF whose user password is
empty (expect "same": extraction must equal the unencrypted original's).  Malformed half-shells are "any" (not judged).

Enumerated (quick is a sub-space of thorough; see cases()):
  ooxml   CFB shell with every subset of {EncryptionInfo, EncryptedPackage, \\x06DataSpaces} x package size x CFB version, read as
          docx / xlsx / pptx; a CFB that holds other streams; plain generated documents, also with ZIP members named like the
          OLE streams
  odf     manifest:encryption-data on each file entry / on all, three manifest spellings (prefix "manifest", prefix "m", UTF-16
          encoded manifest) vs plain packages whose text / title / picture name / member path / media type CONTAINS a needle
  xls     FILEPASS at every record index of the globals substream, stream "Workbook" / "Book" vs plain workbooks with 2F 00 in
          cell payloads at every alignment (row 47, column 47, SST index 47, RK / NUMBER values, doubles with the pair at byte 0..6,
          UTF-16 strings with the pair at even and odd offsets, sheet name)
          STREAM NAME SPELLING: the BIFF stream stored as WORKBOOK / workbook / WorkBook / wORKBOOK / BOOK / book / bOOK (names in a compound
          file compare case-insensitively, [MS-CFB] 2.6.4; non-Excel producers write such spellings): FILEPASS at index 1 and last
          (thorough: every index) and the 4 other FILEPASS payloads = encrypted; plain workbook and the "all" look-alike = plain
  ppt     pptbin encrypted True / "keep_docprops" x layout x Current User stream vs plain
          EDIT HISTORY ("hist", one letter per EARLIER save, oldest first: p = 28-byte UserEditAtom of a save without encryption, e = 32-byte
          UserEditAtom with encryptSessionPersistIdRef): the document stream holds len(hist) + 1 PersistDirectoryAtom + UserEditAtom pairs
          chained through offsetLastEdit, the current edit written last and referenced by the Current User stream.  Only the CURRENT edit
          decides: every word over {p, e} before an encrypted save (True / keep_docprops) = encrypted; every word over {p} before a plain
          save = plain.  x layout x Current User {present, absent, "notoken": present with the plain header token (encrypted saves only)}.
          quick: 1..2 earlier saves, document 0; thorough: 1..3 earlier saves, documents 0, 1, all seams
  doc     .doc fixtures with the FIB fEncrypted bit (0x0100 of the flags word at 0x0A) toggled, both directions; and the
          NEIGHBOUR-BIT family: every other bit of the FibBase header words around it flipped alone (a plain file stays plain, the
          encrypted fixture stays encrypted) and together with fEncrypted (encrypted).  quick: the 16 bits of the flags word, the 8
          bits of the second flag byte (0x13) and the 32 bits of lKey (0x0E); thorough: all 256 bits of the 32-byte FibBase
  pdf     RC4-40 / RC4-128 (own writer), AES-128 / AES-256-R5 / AES-256 (pypdf writer in a separate generator process) x user
          password {"", "pw"} x owner password {"", "own"}; AES cases are extracted in a fresh interpreter ("fresh") or in one
          that has extracted an AES-256-R5 file before ("warm")
          LARGE STREAMS: documents with one long stream of exactly L bytes - the content stream of a page (one text line of numbered
          words; L = "text<L>") and / or a DCT image (COM-padded JPEG; "img<L>") - under every algorithm with the empty user password
          ("same as the unencrypted original", image bytes included): each stream is a single RC4 / AES-CBC message of L/16 blocks.
          quick: text 140000 + image 66000 in one document (RC4-40, RC4-128, AES-128, AES-256-R5), text 65536 (RC4, AES-128), text
          65535 / 65537 (RC4); thorough: all 5 algorithms x {text 2^k - 1, 2^k, 2^k + 1 for k = 12, 14, 16, 17; text 200000; image
          65536, 140000; text 140000 + image 66000}, the largest document also with owner / user passwords, through all seams, "warm"
  cfb     ENTRY NAME CASE ("cfbcase": [entry | "*", upper | lower | swap]): the compound files of the ooxml shell (EncryptionInfo, EncryptedPackage,
          \x06DataSpaces), ppt (PowerPoint Document, Current User, EncryptedSummary; encrypted and plain) and doc (WordDocument; fEncrypted toggled both
          ways) families with the case of ONE directory entry name, or of ALL, changed in place: the expectation stays what it was
  zip     member kinds t text, b unsupported type, h hidden, s sub directory, z nested archive, m __MACOSX;
          flag bit 0 (forged) / real ZipCrypto / WinZip-AES (method 99) / strong-encryption flag on member k for every k (and pairs) vs unsupported method / bad CRC / other flags
  7z      7zAES coder in folder k for every layout x coder x chaining x header coding, 7zAES on the encoded header, vs plain
          MEMBER NAMES ("names", one letter per member: t text file, b unsupported type, h hidden, z nested archive, e empty file that
          owns no stream, s sub directory, m __MACOSX): every word over the alphabet (except all-t) x layout x AES folder k x chaining x
          header coding = encrypted (the AES folder may hold only members the reader never extracts, the extractable ones may sit in plain
          folders or be empty), and the same archives without AES = plain.  quick: alphabet tbhze, 1..2 members, coder copy; thorough:
          tbhzesm for 1..2 members (3 coders), tbhze for 3 members (copy, lzma2)
          DECLARED SIZE: the AES folder (one stream) declares an unpack size of 10 MiB + 1, over the reader's per-member limit = encrypted;
          the same forged size without AES = plain
  epub    encryption.xml with EncryptedData for content document k / all, rights.xml, both, vs plain and look-alikes
          MIXED encryption.xml ("encmix"): a book with n content documents and one embedded font; encryption.xml declares for every
          content document one of {nothing, aes128-cbc, aes256-cbc, aes256-gcm (xmlenc11), EncryptedData without EncryptionMethod} and for the font one of {nothing, IDPF font
          obfuscation, Adobe font obfuscation, aes256-cbc}, font entry first / last, both namespace spellings, with / without rights.xml:
          any cipher entry (or rights.xml) = encrypted whatever else is listed; obfuscated fonts only = plain (EPUB OCF 3 section 4.3:
          "obfuscation is not encryption" - every content document is readable).  quick: n = 1, 2; thorough: n = 1..3
  fixture the 11 protected fixtures (enc) and every other fixture of the test suite (plain)
Neighbour / protection families (what sits NEXT to an encryption indicator is not an encryption indicator, and does not mask one):
  zip     every general purpose flag bit 1..15 alone on member k (plain; bits 6 and 13 - strong encryption / masked headers - alone
          are not judged) and together with bit 0 (encrypted)
  xls     a record at globals index k whose number differs from FILEPASS (0x002F) in exactly one bit, or is 0x2F00, carrying a FILEPASS
          payload (plain); FILEPASS payload variants XOR obfuscation / RC4 / RC4 CryptoAPI v2, v3, v4 (encrypted); non-zero workbook
          protection records PROTECT, PASSWORD, WINDOWPROTECT, OBJPROTECT, SCENPROTECT, PROT4REV, PROT4REVPASS, FILESHARING, WRITEPROT
          one by one and all together (editing protection, not encryption: plain)
  ooxml   documentProtection / writeProtection (docx), sheetProtection / workbookProtection / fileSharing (xlsx), modifyVerifier (pptx)
          with password hashes, one by one and all together (plain)
  odf     table:protected + table:protection-key (ods), protected text:section with text:protection-key (odt) (plain)
  pdf     empty user password with every single permission bit of /P cleared (print, modify, extract, annotate, fill, accessibility,
          assemble, print-hq) and all of them cleared: still "same as the unencrypted original"; with a user password: encrypted
Seams: direct extractor, read_file, cli.main (a harness-side spy on read_file records what the CLI swallows).
"""
from __future__ import annotations

import base64
import functools
import hashlib
import io
import itertools
import os
import random
import re
import struct
import zipfile

from verif.mc import pool as P
from verif.props import c08_sub as S

LEVEL = "exploration"
ENC = S.ENC
RES = "/repo/sharepoint2text/tests/resources"
SEAMS = ["direct", "read_file", "cli"]
OOXML_STREAMS = ["EncryptionInfo", "EncryptedPackage", "DataSpaces"]
ODF_FORMATS = ["odt", "odp", "ods", "odg", "odf"]
ODF_NEEDLES = ["encryption-data", "manifest:encryption-data", "manifest:encrypted", "manifest:algorithm", "manifest:key-derivation"]
ODF_WHERE = ["text", "title", "picname", "path", "mediatype"]
NS_MANIFEST = "urn:oasis:names:tc:opendocument:xmlns:manifest:1.0"
PDF_RC4 = ["RC4-40", "RC4-128"]
PDF_AES = ["AES-128", "AES-256-R5", "AES-256"]
PWS = [["", ""], ["", "own"], ["pw", ""], ["pw", "own"]]
ZIP_ODD = ["method1", "method6", "method9", "method98", "badcrc", "datadescriptor", "utf8flag"]
FIB_ENC_BIT = 0x0A * 8 + 8          # fEncrypted: bit 8 of the little-endian flags word at FIB offset 0x0A
FIB_FLAG_BITS = list(range(0x0A * 8, 0x0C * 8))
FIB_QUICK_BITS = FIB_FLAG_BITS + list(range(0x13 * 8, 0x14 * 8)) + list(range(0x0E * 8, 0x12 * 8))
FIB_ALL_BITS = list(range(32 * 8))
PDF_PERM_BITS = [3, 4, 5, 6, 9, 10, 11, 12]           # 1-based bit positions of /P that ISO 32000 table 22 defines
PDF_PERMS = [-4 & ~(1 << (b - 1)) for b in PDF_PERM_BITS] + [-3904]
# large streams: plain lengths (bytes) of the long content stream / the DCT image (see pdf_big_streams).  Every stream is one RC4 / AES-CBC
# message, so these lengths walk the decryptor through many blocks, around the 4 KiB .. 128 KiB powers of two and far beyond them.
PDF_BIG_QUICK = ["text140000+img66000", "text65536"]
PDF_BIG_EDGES = ["text%d" % (2 ** k + e) for k in (12, 14, 16, 17) for e in (-1, 0, 1)]
PDF_BIG_ALL = PDF_BIG_QUICK + [x for x in PDF_BIG_EDGES if x not in PDF_BIG_QUICK] + ["img65536", "img140000", "text200000"]
XLS_NEAR_IDS = [0x002F ^ (1 << b) for b in range(16)] + [0x2F00]
XLS_FILEPASS_VARIANTS = ["xor", "rc4", "capi2", "capi3", "capi4"]
XLS_PROTECT = ["PROTECT", "PASSWORD", "WINDOWPROTECT", "OBJPROTECT", "SCENPROTECT", "PROT4REV", "PROT4REVPASS", "FILESHARING", "WRITEPROT", "all"]
OOXML_PROTECT = {"docx": ["documentProtection", "writeProtection", "all"], "xlsx": ["sheetProtection", "workbookProtection", "fileSharing", "all"],
                 "pptx": ["modifyVerifier"]}
ODF_PROTECT = {"ods": ["table"], "odt": ["section"]}
# spellings of the BIFF stream name that differ from Excel's "Workbook" / "Book" in case only (names in a compound file compare case-insensitively)
XLS_SPELLINGS = ["WORKBOOK", "workbook", "WorkBook", "wORKBOOK", "BOOK", "book", "bOOK"]
# 7z member kinds: t supported text, b unsupported type, h hidden, z nested archive, e empty file (owns no stream), s sub directory, m __MACOSX
SEVENZ_KINDS_QUICK = "tbhze"
SEVENZ_KINDS_ALL = "tbhzesm"
ZIP_FLAG_UNSETTLED = (6, 13)        # alone (without bit 0): strong-encryption / masked-local-header bits, meaning not settled
DOC_FIXTURES = ["legacy_ms/Speech_Prime_Minister_of_The_Netherlands_EN.doc", "legacy_ms/headings.doc",
                "legacy_ms/password_protected/doc-password-protected-pw123.doc"]


def _seed():
    return int(os.environ.get("VERIF_SEED", "0") or 0)


def _dummy(n, tag):
    out = b""
    i = 0
    while len(out) < n:
        out += hashlib.sha256(b"c08-%s-%d" % (tag.encode(), i)).digest()
        i += 1
    return out[:n]


def _jpeg(w, h):
    """baseline 1-component JPEG (every block: DC difference 0, end of block)"""
    out = bytearray(b"\xff\xd8")
    out += b"\xff\xe0" + struct.pack(">H", 16) + b"JFIF\x00\x01\x01\x00\x00\x01\x00\x01\x00\x00"
    out += b"\xff\xdb" + struct.pack(">H", 67) + b"\x00" + bytes([3] * 64)
    out += b"\xff\xc0" + struct.pack(">HBHHB", 11, 8, h, w, 1) + bytes([1, 0x11, 0])
    for tc in (0x00, 0x10):
        out += b"\xff\xc4" + struct.pack(">H", 20) + bytes([tc, 1] + [0] * 15 + [0])
    out += b"\xff\xda" + struct.pack(">HB", 8, 1) + bytes([1, 0x00]) + b"\x00\x3f\x00"
    nbits = 2 * ((w + 7) // 8) * ((h + 7) // 8)
    bits = "0" * nbits + "1" * (-nbits % 8)
    out += bytes(int(bits[i:i + 8], 2) for i in range(0, len(bits), 8)).replace(b"\xff", b"\xff\x00")
    return bytes(out + b"\xff\xd9")


def _png():
    import zlib

    def chunk(t, d):
        return struct.pack(">I", len(d)) + t + d + struct.pack(">I", zlib.crc32(t + d) & 0xFFFFFFFF)
    raw = b"".join(b"\x00" + b"\x80" * 4 for _ in range(4))
    return b"\x89PNG\r\n\x1a\n" + chunk(b"IHDR", struct.pack(">IIBBBBB", 4, 4, 8, 0, 0, 0, 0)) + chunk(b"IDAT", zlib.compress(raw, 9)) + chunk(b"IEND", b"")


# ====================================================================================================== documents

def text_doc(tk, d):
    """d = 0: one paragraph; d = 1: title, two units with heading + paragraph"""
    if not d:
        return ["doc", {}, [["unit", [["p", [["t", tk.new("B")]]]], {}]]]
    return ["doc", {"title": tk.new("Z")}, [["unit", [["h", 1, [["t", tk.new("H")]]], ["p", [["t", tk.new("B")]]]], {}],
                                          ["unit", [["h", 1, [["t", tk.new("H")]]], ["p", [["t", tk.new("B")], ["t", tk.new("B")]]]], {}]]]


def sheet_doc(tk, d):
    if d == 2:          # big enough for the workbook stream to leave the mini stream (>= 4096 bytes)
        return ["doc", {}, [["sheet", tk.new("N"), [[["s", tk.new("C")], ["s", tk.new("C")], ["i", r]] for r in range(90)]]]]
    if not d:
        return ["doc", {}, [["sheet", tk.new("N"), [[["s", tk.new("C")], ["i", 5]]]]]]
    return ["doc", {"title": tk.new("Z")}, [["sheet", tk.new("N"), [[["s", tk.new("C")], ["s", tk.new("C")]], [["i", 1], ["f", 2.5]], [["s", tk.new("C")], ["i", 3]]]],
                                          ["sheet", tk.new("N"), [[["s", tk.new("C")]], [["i", 7]]]]]]


def _tk():
    from verif.gen.tokens import Tokens
    return Tokens(_seed())


def _zip_members(data):
    with zipfile.ZipFile(io.BytesIO(data)) as z:
        return [(i.filename, z.read(i), i.compress_type) for i in z.infolist()]


def _zip_write(members):
    bio = io.BytesIO()
    with zipfile.ZipFile(bio, "w") as z:
        for name, data, ctype in members:
            zi = zipfile.ZipInfo(name, date_time=(1980, 1, 1, 0, 0, 0))
            zi.compress_type = ctype
            zi.create_system = 0
            zi.external_attr = 0
            z.writestr(zi, data)
    return bio.getvalue()


# ====================================================================================================== builders
# every builder returns {"data": bytes, "ext": str, "expect": "enc" | "plain" | "same" | "any", ["orig": bytes]} or None when
# the writer cannot express the combination (counted as "inexpressible", never judged)

def build_ooxml(fmt, case):
    from verif.gen import cfb, ooxml
    k = case["k"]
    fmt = case["oext"]
    if k == "shell":
        streams = list(case["streams"])
        data = cfb.ooxml_encrypted_shell(tuple(streams), package_size=case["size"], opts={"version": case["ver"]})
        # EncryptedPackage is the payload: a file that carries it is an encrypted package; the full set is what Office writes.
        # Shells without the payload stream are malformed: not judged.  No encryption stream at all: just an empty compound file.
        expect = "enc" if "EncryptedPackage" in streams else ("plain" if not streams else "any")
        return {"data": data, "ext": fmt, "expect": expect}
    if k == "cfb-other":
        data = cfb.cfb({"WordDocument": _dummy(4096, "wd"), "1Table": _dummy(200, "tb"), "Foo/Bar": b"x" * 10})
        return {"data": data, "ext": fmt, "expect": "plain"}
    tk = _tk()
    if fmt == "xlsx":
        data = ooxml.xlsx(sheet_doc(tk, case["doc"]))
    else:
        data = getattr(ooxml, fmt)(text_doc(tk, case["doc"]))
    if case.get("member"):
        data = _zip_write(_zip_members(data) + [(case["member"], _dummy(64, "zm"), zipfile.ZIP_DEFLATED)])
    if k == "protect":
        data = ooxml_protect(data, fmt, case["v"])
    return {"data": data, "ext": fmt, "expect": "plain"}


def _b64(n, tag):
    return base64.b64encode(_dummy(n, tag)).decode("ascii")


_AGILE_HASH = ('cryptProviderType="rsaAES" cryptAlgorithmClass="hash" cryptAlgorithmType="typeAny" cryptAlgorithmSid="14" '
               'spinCount="100000" saltData="%s" hashData="%s"')


def ooxml_protect(data, fmt, v):
    """Editing / write protection markup with password hashes ([ISO 29500-1] 17.15.1.29 documentProtection, 17.15.1.93
    writeProtection, 18.3.1.85 sheetProtection, 18.2.29 workbookProtection, 18.2.12 fileSharing, 19.2.1.19 modifyVerifier).
    None of it encrypts anything: the package stays a plain ZIP with readable parts."""
    wattrs = ('w:cryptProviderType="rsaAES" w:cryptAlgorithmClass="hash" w:cryptAlgorithmType="typeAny" w:cryptAlgorithmSid="14" '
              'w:cryptSpinCount="100000" w:hash="%s" w:salt="%s"' % (_b64(64, "wh"), _b64(16, "ws")))
    ins = {
        "documentProtection": ("word/settings.xml", "<w:defaultTabStop", '<w:documentProtection w:edit="readOnly" w:enforcement="1" %s/>' % wattrs, "before"),
        "writeProtection": ("word/settings.xml", "<w:zoom", '<w:writeProtection w:recommended="1" %s/>' % wattrs, "before"),
        "sheetProtection": ("xl/worksheets/sheet1.xml", "</sheetData>", '<sheetProtection password="CC1A" algorithmName="SHA-512" hashValue="%s" saltValue="%s" '
                            'spinCount="100000" sheet="1" objects="1" scenarios="1"/>' % (_b64(64, "sh"), _b64(16, "ss")), "after"),
        "workbookProtection": ("xl/workbook.xml", "<bookViews>", '<workbookProtection workbookPassword="CC1A" workbookAlgorithmName="SHA-512" '
                               'workbookHashValue="%s" workbookSaltValue="%s" workbookSpinCount="100000" lockStructure="1" lockWindows="1"/>'
                               % (_b64(64, "bh"), _b64(16, "bs")), "before"),
        "modifyVerifier": ("ppt/presentation.xml", "</p:presentation>", "<p:modifyVerifier %s/>" % (_AGILE_HASH % (_b64(16, "ps"), _b64(64, "ph"))), "before"),
    }
    fs = '<fileSharing readOnlyRecommended="1" userName="verif" reservationPassword="CC1A" algorithmName="SHA-512" hashValue="%s" saltValue="%s" spinCount="100000"/>' \
        % (_b64(64, "fh"), _b64(16, "fs"))
    todo = [x for x in OOXML_PROTECT[fmt] if x != "all"] if v == "all" else [v]
    members = _zip_members(data)
    parts = {n: d for n, d, _ in members}
    for name in todo:
        if name == "fileSharing":         # schema order: fileSharing, workbookPr, workbookProtection, bookViews
            part, anchor, text, side = "xl/workbook.xml", ("<workbookProtection" if b"<workbookProtection" in parts["xl/workbook.xml"] else "<bookViews>"), fs, "before"
        else:
            part, anchor, text, side = ins[name]
        xml = parts[part].decode("utf-8")
        if xml.count(anchor) != 1:
            raise AssertionError("anchor %r not found once in %s" % (anchor, part))
        xml = xml.replace(anchor, text + anchor if side == "before" else anchor + text)
        parts[part] = xml.encode("utf-8")
    import xml.etree.ElementTree as ET
    for n in parts:
        if n.endswith(".xml") and parts[n] != dict((a, b) for a, b, _ in members)[n]:
            ET.fromstring(parts[n])                 # still well-formed
    return _zip_write([(n, parts[n], ct) for n, _, ct in members])


def _odf_plain(fmt, d, images=None, opts=None, doc=None):
    from verif.gen import odf
    tk = _tk()
    if doc is None:
        doc = sheet_doc(tk, d) if fmt == "ods" else text_doc(tk, 0 if fmt == "odf" else d)
        if fmt == "odf" and d:
            doc[1]["title"] = tk.new("Z")
    return getattr(odf, fmt)(doc, images, opts)


_FE = re.compile(r'<manifest:file-entry\b([^>]*?)/>')


def odf_entries(data):
    man = dict((n, d) for n, d, _ in _zip_members(data))["META-INF/manifest.xml"].decode("utf-8")
    out = []
    for m in _FE.finditer(man):
        p = re.search(r'manifest:full-path="([^"]*)"', m.group(1)).group(1)
        if p != "/":
            out.append(p)
    return out


def _enc_data_xml(i):
    b64 = lambda n, t: base64.b64encode(_dummy(n, "%s%d" % (t, i))).decode("ascii")  # noqa
    return ('<manifest:encryption-data manifest:checksum-type="urn:oasis:names:tc:opendocument:xmlns:manifest:1.0#sha256-1k" '
            f'manifest:checksum="{b64(32, "ck")}"><manifest:algorithm manifest:algorithm-name="http://www.w3.org/2001/04/xmlenc#aes256-cbc" '
            f'manifest:initialisation-vector="{b64(16, "iv")}"/><manifest:key-derivation manifest:key-derivation-name="PBKDF2" '
            f'manifest:key-size="32" manifest:iteration-count="100000" manifest:salt="{b64(16, "sa")}"/>'
            '<manifest:start-key-generation manifest:start-key-generation-name="http://www.w3.org/2000/09/xmldsig#sha256" '
            'manifest:key-size="32"/></manifest:encryption-data>')


def odf_encrypt(data, which, spell):
    """Post-process a package the way an ODF 1.2 producer encrypts file entries (part 3, section 3.4 / 4.8): the entry gets
    manifest:size and a manifest:encryption-data child, the member holds cipher text (dummy bytes here) and is STORED."""
    members = _zip_members(data)
    entries = odf_entries(data)
    targets = set(entries) if which == "all" else {entries[which]}
    sizes = {n: len(d) for n, d, _ in members}
    man = dict((n, d) for n, d, _ in members)["META-INF/manifest.xml"].decode("utf-8")
    idx = {p: i for i, p in enumerate(entries)}

    def repl(m):
        p = re.search(r'manifest:full-path="([^"]*)"', m.group(1)).group(1)
        if p not in targets:
            return m.group(0)
        return f'<manifest:file-entry{m.group(1)} manifest:size="{sizes.get(p, 0)}">{_enc_data_xml(idx[p])}</manifest:file-entry>'
    man = _FE.sub(repl, man)
    if spell == "m":
        man = re.sub(r'(</?)manifest:', r'\1m:', man)
        man = re.sub(r'(\s)manifest:', r'\1m:', man)
        man = man.replace("xmlns:manifest=", "xmlns:m=")
    if spell == "utf16":
        man = re.sub(r'^<\?xml[^>]*\?>', '<?xml version="1.0" encoding="UTF-16"?>', man)
        if not man.startswith("<?xml"):
            man = '<?xml version="1.0" encoding="UTF-16"?>' + man
        man_b = man.encode("utf-16")          # with BOM
    else:
        man_b = man.encode("utf-8")
    # self-check with a real XML parser: encryption-data (in the manifest namespace) sits on exactly the target entries
    import xml.etree.ElementTree as ET
    root = ET.fromstring(man_b)
    q = "{%s}" % NS_MANIFEST
    got = {fe.get(q + "full-path") for fe in root.iter(q + "file-entry") if fe.find(q + "encryption-data") is not None}
    if root.tag != q + "manifest" or got != targets:
        raise AssertionError("encrypted manifest is not what it should be: %r vs %r" % (sorted(got), sorted(targets)))
    out = []
    for n, d, ct in members:
        if n == "META-INF/manifest.xml":
            out.append((n, man_b, ct))
        elif n in targets:
            import zlib
            out.append((n, _dummy(max(16, len(zlib.compress(d))), "ct" + n), zipfile.ZIP_STORED))
        else:
            out.append((n, d, ct))
    return _zip_write(out)


def odf_base(fmt, d):
    """the package that gets encrypted: d = 1 carries a picture (odt / odp / odg) so that a binary entry exists too"""
    pic = bool(d) and fmt in ("odt", "odp", "odg")
    return _odf_plain(fmt, d, images={"pic": (_png(), "png")} if pic else None, doc=_odf_imgdoc(fmt) if pic else None)


def build_odf(fmt, case):
    from verif.gen import odf
    k = case["k"]
    fmt = case["ext"]
    if k == "plain":
        return {"data": _odf_plain(fmt, case["doc"]), "ext": fmt, "expect": "plain"}
    if k == "protect":
        data = _odf_plain(fmt, case["doc"])
        members = _zip_members(data)
        xml = dict((n, d) for n, d, _ in members)["content.xml"].decode("utf-8")
        key = 'protection-key="%s"' % _b64(20, "opk")
        alg = 'protection-key-digest-algorithm="http://www.w3.org/2000/09/xmldsig#sha1"'
        if case["v"] == "table":
            if fmt != "ods" or "<table:table table:name=" not in xml:
                return None
            xml = xml.replace("<table:table table:name=", f'<table:table table:protected="true" table:{key} table:{alg} table:name=')
        else:
            if fmt != "odt" or xml.count("<office:text>") != 1 or xml.count("</office:text>") != 1:
                return None
            xml = xml.replace("<office:text>", f'<office:text><text:section text:name="Sct" text:protected="true" text:{key} text:{alg}>')
            xml = xml.replace("</office:text>", "</text:section></office:text>")
        import xml.etree.ElementTree as ET
        ET.fromstring(xml.encode("utf-8"))
        return {"data": _zip_write([(n, xml.encode("utf-8") if n == "content.xml" else d, ct) for n, d, ct in members]), "ext": fmt, "expect": "plain"}
    if k == "enc":
        base = odf_base(fmt, case["doc"])
        ents = odf_entries(base)
        if case["entry"] != "all" and case["entry"] >= len(ents):
            return None
        return {"data": odf_encrypt(base, case["entry"], case["spell"]), "ext": fmt, "expect": "enc"}
    # look-alikes: not encrypted, the needle merely occurs somewhere
    needle, where = case["needle"], case["where"]
    tk = _tk()
    try:
        if where == "text":
            if fmt == "ods":
                doc = ["doc", {}, [["sheet", tk.new("N"), [[["s", needle], ["s", tk.new("C")]]]]]]
            else:
                doc = ["doc", {}, [["unit", [["p", [["t", tk.new("B")], ["t", needle]]]], {}]]]
            data = getattr(odf, fmt)(doc)
        elif where == "title":
            data = _odf_plain(fmt, 0, doc=_with_title(fmt, tk, needle))
        elif where == "picname":
            if fmt == "ods":
                data = odf.ods(sheet_doc(tk, 0), {needle: (_png(), "png")}, {"images_at": [[0, needle]]})
            elif fmt == "odf":
                return None
            else:
                data = getattr(odf, fmt)(["doc", {}, [["unit", [["p", [["t", tk.new("B")]]], ["img", needle]], {}]]], {needle: (_png(), "png")})
        elif where == "path":
            data = _odf_plain(fmt, 0, opts={"extra_files": {"Configurations2/" + needle + "/x.xml": b"<a/>"}})
        elif where == "mediatype":
            data = _odf_plain(fmt, 0, opts={"extra_files": {"extra/x.bin": (b"abc", "application/x-" + needle.replace(":", "."))}})
        else:
            raise ValueError(where)
    except NotImplementedError:
        return None
    return {"data": data, "ext": fmt, "expect": "plain"}


def _with_title(fmt, tk, title):
    doc = sheet_doc(tk, 0) if fmt == "ods" else text_doc(tk, 0)
    doc[1]["title"] = title
    return doc


def _odf_imgdoc(fmt):
    tk = _tk()
    return ["doc", {"title": tk.new("Z")}, [["unit", [["h", 1, [["t", tk.new("H")]]], ["p", [["t", tk.new("B")]]], ["img", "pic"]], {}]]]


def xls_globals_len(d=0):
    from verif.gen import biff8
    doc = sheet_doc(_tk(), d)
    k = 0
    while True:
        try:
            biff8.workbook_stream(doc, {"filepass_at": k + 1}, None)
        except ValueError:
            return k          # valid indices 0..k  (k == number of globals records)
        k += 1


XLS_LOOKS = (["row47c%d" % c for c in range(4)] + ["col47r%d" % r for r in range(4)] + ["int132576", "rk3008", "sst47"] +
             ["dbl%d" % j for j in range(7)] + ["utf16-%d" % j for j in range(4)] + ["utf16-odd", "sheetname", "all"])


def _xls_look_doc(v, tk):
    """plain workbooks whose record PAYLOADS contain the byte pair 2F 00 (the FILEPASS record number)"""
    name = tk.new("N")
    opts = {}
    rows = {}

    def put(r, c, cell):
        rows.setdefault(r, {})[c] = cell

    def dbl(j):
        b = bytearray(b"\x11\x22\x33\x44\x55\x66\x77\x40")
        b[j:j + 2] = b"\x2f\x00"
        return struct.unpack("<d", bytes(b))[0]
    kinds = [v] if v != "all" else [x for x in XLS_LOOKS if x not in ("all", "sheetname")]
    base = 0
    for kind in kinds:
        if kind.startswith("row47c"):
            put(47, int(kind[6:]), ["s", tk.new("C")])
        elif kind.startswith("col47r"):
            put(base + int(kind[6:]), 47, ["s", tk.new("C")])
        elif kind == "int132576":
            put(base, 1, ["i", 132576])             # NUMBER 00 00 00 00 00 2F 00 41
        elif kind == "rk3008":
            put(base, 2, ["i", 3008])               # RK 02 2F 00 00
            opts["rk"] = True
        elif kind == "sst47":
            for i in range(48):
                put(50 + i, 0, ["s", tk.new("C")])
        elif kind.startswith("dbl"):
            put(base + 1, 3 + int(kind[3:]), ["f", dbl(int(kind[3:]))])
        elif kind == "utf16-odd":
            put(base + 3, 0, ["s", "\u2f41\u4e00" + tk.new("C")])       # UTF-16LE 41 2F 00 4E: the pair at an odd offset
        elif kind.startswith("utf16-"):
            j = int(kind[6:])
            put(base + 2, 2 * j, ["s", "x" * j] if j else ["s", tk.new("C")])
            put(base + 2, 2 * j + 1, ["s", "/Ā" + tk.new("C")])
    if v == "sheetname":
        name = "S\u2f41\u4e00"
        put(0, 0, ["s", tk.new("C")])
    nrows = max(rows) + 1
    grid = []
    for r in range(nrows):
        row = rows.get(r, {})
        grid.append([row.get(c) for c in range(max(row) + 1)] if row else [])
    # first row must be a proper header row for nothing in particular: keep as is
    return ["doc", {}, [["sheet", name, grid]]], opts


def build_xls(fmt, case):
    from verif.gen import biff8
    k = case["k"]
    tk = _tk()
    if k == "filepass":
        data = biff8.xls(sheet_doc(tk, case["doc"]), None, {"filepass_at": case["at"], "stream_name": case["stream"]})
        return {"data": data, "ext": "xls", "expect": "enc"}
    if k == "plain":
        return {"data": biff8.xls(sheet_doc(tk, case["doc"]), None, {"stream_name": case["stream"]}), "ext": "xls", "expect": "plain"}
    if k in ("nearid", "filepass-v", "protect"):
        if k == "nearid":
            if case["id"] == 0x002F:
                raise AssertionError("0x002F is FILEPASS itself")
            raw, expect = biff8.rec(case["id"], biff8.FILEPASS_RC4[4:]), "plain"
        elif k == "filepass-v":
            raw, expect = xls_filepass(case["v"]), "enc"
        else:
            raw, expect = xls_protect_records(case["v"]), "plain"
        data = biff8.xls(sheet_doc(tk, case["doc"]), None, {"globals_insert": [case["at"], raw], "stream_name": case["stream"]})
        # self-check: walk the globals substream; the inserted bytes are at record index `at`, FILEPASS is there iff expected
        import olefile
        with olefile.OleFileIO(io.BytesIO(data)) as ole:
            wb = ole.openstream(case["stream"]).read()
        off, idx, ids, seen = 0, 0, [], False
        while off + 4 <= len(wb):
            rid, ln = struct.unpack_from("<HH", wb, off)
            if idx == case["at"] and wb[off:off + len(raw)] == raw:
                seen = True
            ids.append(rid)
            off += 4 + ln
            idx += 1
            if rid == 0x000A:
                break
        if not seen or (0x002F in ids) != (expect == "enc"):
            raise AssertionError("workbook globals are not what they should be")
        return {"data": data, "ext": "xls", "expect": expect}
    doc, opts = _xls_look_doc(case["v"], tk)
    opts["stream_name"] = case["stream"]
    try:
        data = biff8.xls(doc, None, opts)
    except NotImplementedError:
        return None
    if b"\x2f\x00" not in data:
        raise AssertionError("look-alike workbook does not contain 2F 00")
    return {"data": data, "ext": "xls", "expect": "plain"}


def xls_filepass(v):
    """FILEPASS payloads of [MS-XLS] 2.4.117: XOR obfuscation, RC4 ([MS-OFFCRYPTO] 2.3.6.1), RC4 CryptoAPI (2.3.5.1)"""
    from verif.gen import biff8
    if v == "xor":
        return biff8.rec(0x002F, struct.pack("<HHH", 0, 0x6E2A, 0xCC1A))
    if v == "rc4":
        return biff8.FILEPASS_RC4
    major = int(v[4:])
    csp = "Microsoft Enhanced Cryptographic Provider v1.0\0".encode("utf-16-le")
    header = struct.pack("<IIIIIIII", 0x04, 0, 0x6801, 0x8004, 128, 1, 0, 0) + csp          # fCryptoAPI, RC4, SHA-1, 128 bit, PROV_RSA_FULL
    verifier = struct.pack("<I", 16) + _dummy(16, "salt") + _dummy(16, "ev") + struct.pack("<I", 20) + _dummy(20, "evh")
    return biff8.rec(0x002F, struct.pack("<HHHII", 1, major, 2, 0x04, len(header)) + header + verifier)


def xls_protect_records(v):
    from verif.gen import biff8
    recs = {"PROTECT": biff8.rec(0x0012, struct.pack("<H", 1)), "PASSWORD": biff8.rec(0x0013, struct.pack("<H", 0xCC1A)),
            "WINDOWPROTECT": biff8.rec(0x0019, struct.pack("<H", 1)), "OBJPROTECT": biff8.rec(0x0063, struct.pack("<H", 1)),
            "SCENPROTECT": biff8.rec(0x00DD, struct.pack("<H", 1)), "PROT4REV": biff8.rec(0x01AF, struct.pack("<H", 1)),
            "PROT4REVPASS": biff8.rec(0x01BC, struct.pack("<H", 0xCC1A)),
            "FILESHARING": biff8.rec(0x005B, struct.pack("<HHH", 1, 0xCC1A, 0) + biff8.ustr("verif")), "WRITEPROT": biff8.rec(0x0086)}
    return b"".join(recs[n] for n in XLS_PROTECT if n != "all") if v == "all" else recs[v]


PPT_HIST_MAX_QUICK, PPT_HIST_MAX = 2, 3


def ppt_histories(nmax):
    """words over {p, e} of length 1..nmax: the earlier saves of a presentation, oldest first"""
    return ["".join(w) for n in range(1, nmax + 1) for w in itertools.product("pe", repeat=n)]


def build_ppt(fmt, case):
    from verif.gen import pptbin
    opts = {"layout": case["playout"], "current_user": case["cu"]}
    if case["k"] == "enc":
        opts["encrypted"] = case["pmode"]
    hist = case.get("hist")
    if opts["current_user"] == "notoken":
        if case["k"] != "enc" or not hist:
            return None
        opts["current_user"] = True
    try:
        if hist:
            if any(h not in "pe" for h in hist) or ("e" in hist and case["k"] != "enc"):
                return None
            from verif.gen import cfb as _cfb
            streams = ppt_edit_history(pptbin.ppt_streams(text_doc(_tk(), case["doc"]), None, opts), hist, case["cu"] == "notoken")
            data = _cfb.cfb(streams, {"clsid": {"": _cfb.CLSID_PPT}})
        else:
            data = pptbin.ppt(text_doc(_tk(), case["doc"]), None, opts)
    except NotImplementedError:
        return None
    return {"data": data, "ext": "ppt", "expect": "enc" if case["k"] == "enc" else "plain"}


def ppt_edit_history(streams, hist, notoken=False):
    """The presentation `streams` (pptbin.ppt_streams: persist objects, ONE PersistDirectoryAtom, ONE UserEditAtom) as the result of
    len(hist) + 1 saves: every earlier save leaves its own PersistDirectoryAtom (the entry of the Document container) and its own
    UserEditAtom in the "PowerPoint Document" stream - "p": the 28-byte atom of a save without encryption, "e": the 32-byte atom with
    encryptSessionPersistIdRef - chained through offsetLastEdit ([MS-PPT] 2.3.3, 2.1.2: the CURRENT edit is the one the Current User
    stream points at, the last one written; the older ones are history).  The final directory + user edit of `streams` are written
    last and stay what they were, so the final (current) edit alone says whether the file is encrypted.  `notoken`: the Current User
    stream keeps the plain header token (written by a producer that only updates offsetToCurrentEdit)."""
    RT_DIR, RT_EDIT = 0x1772, 0x0FF5
    stream = streams["PowerPoint Document"]
    # the final UserEditAtom is the tail of the stream: 8 + 28 or 8 + 32 bytes
    for n in (32, 28):
        at = len(stream) - 8 - n
        if at >= 0 and struct.unpack_from("<HHI", stream, at) == (0, RT_EDIT, n):
            break
    else:
        raise AssertionError("no UserEditAtom at the end of the PowerPoint Document stream")
    body = stream[at + 8:]
    dir_at = struct.unpack_from("<I", body, 12)[0]
    if struct.unpack_from("<HH", stream, dir_at) != (0, RT_DIR):
        raise AssertionError("UserEditAtom does not point at a PersistDirectoryAtom")
    directory = stream[dir_at:at]
    first = struct.unpack_from("<II", directory, 8)
    crypt_ref = body[28:32] if n == 32 else None
    out = stream[:dir_at]
    last = 0
    for h in hist:
        d_at = len(out)
        out += struct.pack("<HHI", 0, RT_DIR, 8) + struct.pack("<II", (1 << 20) | (first[0] & 0xFFFFF), first[1])
        e_at = len(out)
        b = body[:8] + struct.pack("<II", last, d_at) + body[16:28]
        if h == "e":
            if crypt_ref is None:
                raise NotImplementedError("an encrypted earlier save needs the crypt session of an encrypted file")
            b += crypt_ref
        out += struct.pack("<HHI", 0, RT_EDIT, len(b)) + b
        last = e_at
    d_at = len(out)
    out += directory
    e_at = len(out)
    out += struct.pack("<HHI", 0, RT_EDIT, n) + body[:8] + struct.pack("<II", last, d_at) + body[16:]
    res = dict(streams)
    res["PowerPoint Document"] = out
    if "Current User" in res:
        cu = bytearray(res["Current User"])
        if struct.unpack_from("<I", cu, 16)[0] != at:
            raise AssertionError("Current User does not point at the final UserEditAtom")
        struct.pack_into("<I", cu, 16, e_at)
        if notoken:
            struct.pack_into("<I", cu, 12, 0xE391C05F)
        res["Current User"] = bytes(cu)
    return res


def fib_toggle(data: bytes):
    """flip bit 0x0100 of the FIB flags word (offset 0x0A of the WordDocument stream); returns (new bytes, old flags)"""
    new, old = fib_patch(data, [FIB_ENC_BIT])
    return new, struct.unpack_from("<H", old, 0x0A)[0]


def fib_patch(data: bytes, bits):
    """flip the given bits (index = byte offset * 8 + bit number, little-endian words: bit 8 of the word at 0x0A is bit 0 of the byte
    at 0x0B) of the 32-byte FibBase at the start of the WordDocument stream; returns (new bytes, the old FibBase)"""
    import olefile
    bio = io.BytesIO(data)
    with olefile.OleFileIO(bio) as ole:
        sid = ole._find("WordDocument")
        ent = ole.direntries[sid]
        ss, ms = ole.sectorsize, ole.minisectorsize
        if ent.size >= ole.minisectorcutoff:
            off = (ent.isectStart + 1) * ss
        else:
            pos = ent.isectStart * ms                  # position inside the mini stream (the root entry's chain)
            sect = ole.root.isectStart
            for _ in range(pos // ss):
                sect = ole.fat[sect]
            off = (sect + 1) * ss + pos % ss
        old = ole.openstream("WordDocument").read(32)
    if len(old) != 32 or data[off:off + 32] != old:
        raise AssertionError("FibBase not located")
    want = bytearray(old)
    for b in bits:
        if not 0 <= b < 256:
            raise ValueError("FibBase has 256 bits")
        want[b // 8] ^= 1 << (b % 8)
    new = bytearray(data)
    new[off:off + 32] = want
    with olefile.OleFileIO(io.BytesIO(bytes(new))) as ole:
        if ole.openstream("WordDocument").read(32) != bytes(want):
            raise AssertionError("FIB patch did not land")
    return bytes(new), old


def build_doc(fmt, case):
    with open(os.path.join(RES, case["file"]), "rb") as f:
        data = f.read()
    if case["k"] == "fibbits":
        bits = sorted(set(case["bits"]))
        if len(bits) != len(case["bits"]):
            raise AssertionError("a bit listed twice")
        data, old = fib_patch(data, bits)
        if struct.unpack_from("<H", old, 0)[0] != 0xA5EC:
            raise AssertionError("fixture is not a Word 97 binary file")
        was = bool(struct.unpack_from("<H", old, 0x0A)[0] & 0x0100)
        now = was != (FIB_ENC_BIT in bits)
        if now:
            # fEncrypted = 1 whatever else the header says ([MS-DOC] 2.5.2); with a damaged wIdent it is no Word file at all: not judged
            expect = "any" if any(b < 16 for b in bits) else "enc"
        else:
            # fEncrypted = 0: no other FibBase field says "encrypted" (fObfuscated and lKey "MUST be ignored" then); the really
            # encrypted fixture with its bit cleared still holds cipher text: not judged
            expect = "plain" if not was else "any"
        return {"data": data, "ext": "doc", "expect": expect}
    patched, old = fib_toggle(data)
    was = bool(old & 0x0100)
    if case["toggle"]:
        data = patched
    now = was != bool(case["toggle"])
    # bit set -> the file declares itself encrypted.  Bit cleared on the really encrypted fixture: the body still is cipher
    # text, what the extractor should say is not settled -> not judged.
    expect = "enc" if now else ("plain" if not was else "any")
    return {"data": data, "ext": "doc", "expect": expect}


def _jpeg_mod16(w, h, residue):
    """the same JPEG with a COM segment sized so that len(file) % 16 == residue (block-aligned streams end in a full padding block)"""
    base = _jpeg(w, h)
    for pad in range(0, 16):
        com = b"\xff\xfe" + struct.pack(">H", 2 + 2 + pad) + b"vf" + b"." * pad
        out = base[:2] + com + base[2:]
        if len(out) % 16 == residue:
            return out
    raise AssertionError("unreachable")


def _jpeg_len(w, h, total):
    """the same JPEG with COM segments (filled with position-dependent bytes) so that len(file) == total"""
    base = _jpeg(w, h)
    need = total - len(base)
    if need < 4:
        raise ValueError("JPEG of %d bytes cannot be padded to %d" % (len(base), total))
    segs = []
    while need:
        n = min(need, 65535 + 2)             # marker (2) + length field (2) + payload
        if 0 < need - n < 4:
            n -= 4
        fill = _dummy(n - 4, "com%d" % len(segs)).replace(b"\xff", b"\xfe")
        segs.append(b"\xff\xfe" + struct.pack(">H", n - 2) + fill)
        need -= n
    out = base[:2] + b"".join(segs) + base[2:]
    if len(out) != total:
        raise AssertionError("unreachable")
    return out


def pdf_big_streams(d):
    """'text<L>', 'img<L>' or 'text<L>+img<M>' -> {"text": L, "img": M}: a document with a stream of exactly L bytes (before
    encryption) - the content stream of the second page, a single long text line of numbered words - and / or a DCT image of exactly
    M bytes on the first page (passed through unfiltered)"""
    out = {}
    for part in d.split("+"):
        m = re.fullmatch(r"(text|img)(\d+)", part)
        if not m or m.group(1) in out:
            raise ValueError(d)
        out[m.group(1)] = int(m.group(2))
    return out


def pdf_doc(tk, d):
    if isinstance(d, str):
        from verif.gen import pdfw
        want = pdf_big_streams(d)
        title, first = tk.new("Z"), tk.new("B")
        images = {"big": (_jpeg_len(16, 8, want["img"]), "jpeg")} if "img" in want else None
        page1 = ["unit", [["p", [["t", first]]]] + ([["img", "big"]] if images else []), {}]
        if "text" not in want:
            return ["doc", {"title": title}, [page1]], images

        def mk(text):
            return ["doc", {"title": title}, [["unit", [["p", [["t", first]]]], {}], ["unit", [["p", [["t", text]]]], {}]]]

        def longest(data):
            return max(int(x) for x in re.findall(rb"/Length (\d+)", data))
        total = want["text"]
        n = total - (longest(pdfw.pdf(mk("x" * 100))) - 100)
        head = tk.new("B")
        words, size, i = [head], len(head), 0
        while size < n:
            w = "w%05d" % i
            words.append(w)
            size += 1 + len(w)
            i += 1
        text = " ".join(words)[:n]
        text = text[:-1] + "z" if text.endswith(" ") else text
        doc = mk(text)
        if n < 1 or longest(pdfw.pdf(doc)) != total:
            raise AssertionError("content stream is not %d bytes long" % total)
        doc[2][0] = page1
        return doc, images
    if d == 3:
        # image streams (DCT: passed through unfiltered) whose lengths are 0 and 15 modulo the AES block size
        doc = ["doc", {"title": tk.new("Z")}, [["unit", [["p", [["t", tk.new("B")]]], ["img", "j0"]], {}], ["unit", [["img", "j15"], ["p", [["t", tk.new("B")]]]], {}]]]
        return doc, {"j0": (_jpeg_mod16(16, 8, 0), "jpeg"), "j15": (_jpeg_mod16(8, 8, 15), "jpeg")}
    if d != 2:
        return text_doc(tk, d), None
    doc = ["doc", {"title": tk.new("Z"), "author": tk.new("Z")}, [["unit", [["p", [["t", tk.new("B")]]], ["img", "j"], ["p", [["t", tk.new("B")], ["br"], ["t", tk.new("B")]]]], {}],
                                                                 ["unit", [], {}], ["unit", [["h", 1, [["t", tk.new("H")]]]], {}]]]
    return doc, {"j": (_jpeg(16, 8), "jpeg")}


@functools.lru_cache(maxsize=64)
def _aes_pdf(alg, user, owner, d, seed, perm=-4):
    from verif.gen import pdfw
    from verif.gen.tokens import Tokens
    doc, images = pdf_doc(Tokens(seed), d)
    plain = pdfw.pdf(doc, images)
    job = {"plain": base64.b64encode(plain).decode(), "alg": alg, "user": user, "owner": owner}
    if perm != -4:
        job["perm"] = perm
    r = S.child("gen", job)
    if (r["P"] - perm) % (1 << 32):
        raise AssertionError("/P %d asked, %d written" % (perm, r["P"]))
    return base64.b64decode(r["enc"]), base64.b64decode(r["clone"]), r["kat"]


def build_pdf(fmt, case):
    from verif.gen import pdfw
    tk = _tk()
    k = case["k"]
    if k == "plain":
        doc, images = pdf_doc(tk, case["doc"])
        return {"data": pdfw.pdf(doc, images), "ext": "pdf", "expect": "plain"}
    if k == "look":
        doc = text_doc(tk, 0)
        if case["pwhere"] == "title":
            doc[1]["title"] = "/Encrypt << /Filter /Standard >>"
        else:
            doc[2][0][1].append(["p", [["t", "/Encrypt"], ["t", "trailer"]]])
        return {"data": pdfw.pdf(doc), "ext": "pdf", "expect": "plain"}
    doc, images = pdf_doc(tk, case["doc"])
    expect = "same" if case["user"] == "" else "enc"
    perm = case.get("perm", -4)
    if case["alg"] in PDF_RC4:
        orig = pdfw.pdf(doc, images)
        e = {"user": case["user"], "owner": case["owner"], "algorithm": case["alg"]}
        if perm != -4:
            e["permissions"] = perm
        data = pdfw.pdf(doc, images, {"encrypt": e})
        if perm != -4 and (b"/P %d" % perm) not in data:
            raise AssertionError("/P %d not written" % perm)
        return {"data": data, "ext": "pdf", "expect": expect, "orig": orig}
    enc, clone, kat = _aes_pdf(case["alg"], case["user"], case["owner"], case["doc"], _seed(), perm)
    if isinstance(case["doc"], str):
        # self-check: the pypdf-written files still carry the long stream as ONE message of (at least) the intended length
        want = max(pdf_big_streams(case["doc"]).values())
        for name, blob, least in (("clone", clone, want), ("encrypted copy", enc, want + 16)):
            if max(int(x) for x in re.findall(rb"/Length (\d+)", blob)) < least:
                raise AssertionError("the %s does not hold a stream of %d bytes" % (name, least))

    return {"data": enc, "ext": "pdf", "expect": expect, "orig": clone, "kat": kat}


def _zip_member(kind, i, tk):
    if kind == "t":
        return {"name": f"m{i}.txt", "data": ("text " + tk.new("B") + "\n").encode()}
    if kind == "b":
        return {"name": f"m{i}.bin", "data": _dummy(40, "bin%d" % i)}
    if kind == "h":
        return {"name": f".m{i}.txt", "data": ("hidden " + tk.new("Z") + "\n").encode()}
    if kind == "s":
        return {"name": f"sub/dir/m{i}.txt", "data": ("deep " + tk.new("B") + "\n").encode()}
    if kind == "z":         # a nested archive (by name): never opened by the archive reader
        return {"name": f"m{i}.zip", "data": _dummy(48, "zip%d" % i)}
    if kind == "m":         # resource-fork folder of macOS archives: skipped like a hidden file
        return {"name": f"__MACOSX/m{i}.txt", "data": ("fork " + tk.new("Z") + "\n").encode()}
    raise ValueError(kind)


def build_zip(fmt, case):
    from verif.gen import zipforge
    tk = _tk()
    members = [_zip_member(kind, i, tk) for i, kind in enumerate(case["kinds"])]
    for m in members:
        m["method"] = case.get("method", 0)
    if case["k"] == "enc":
        for idx, how in case["marks"]:
            if how == "flag":
                members[idx]["flag_bits"] = 1
            elif how == "winzip-aes":
                # WinZip AE-2: method 99, bit 0, extra field 0x9901 (version 2, vendor "AE", strength 3 = 256 bit, real method)
                members[idx]["extra"] = struct.pack("<HHH2sBH", 0x9901, 7, 2, b"AE", 3, members[idx]["method"])
                members[idx]["method"] = 99
                members[idx]["flag_bits"] = 1
                members[idx]["data"] = _dummy(len(members[idx]["data"]) + 28, "aes%d" % idx)
            elif how == "strong":
                members[idx]["flag_bits"] = 0x41          # PKWARE strong encryption: bits 0 and 6
            elif how.startswith("flag+"):
                members[idx]["flag_bits"] = 1 | (1 << int(how[5:]))          # forged bit 0 next to another general purpose bit
            else:
                members[idx]["password"] = b"pw123"
        return {"data": zipforge.zipforge(members), "ext": "zip", "expect": "enc"}
    expect = "plain"
    if case.get("odd"):
        idx, how = case["odd"]
        m = members[idx]
        if how.startswith("flagbit"):
            m["flag_bits"] = 1 << int(how[7:])
            if not 1 <= int(how[7:]) <= 15:
                raise ValueError(how)
            if int(how[7:]) in ZIP_FLAG_UNSETTLED:
                expect = "any"
        elif how.startswith("method"):
            m["method"] = int(how[6:])
        elif how == "badcrc":
            import zlib
            m["crc"] = (zlib.crc32(m["data"]) ^ 0x5A5A5A5A) & 0xFFFFFFFF
        elif how == "datadescriptor":
            m["flag_bits"] = 0x08
        elif how == "utf8flag":
            m["flag_bits"] = 0x800
    return {"data": zipforge.zipforge(members), "ext": "zip", "expect": expect}


def sevenz_folders(n, layout):
    return 1 if layout == "solid" or n < 2 else (n if layout == "per_file" else 2)


SEVENZ_OVER_LIMIT = 10 * 1024 * 1024 + 1          # one byte more than the per-member limit of the archive reader (10 MiB)


def sevenz_streams(names):
    """number of members that own a data stream ("e" = empty file: listed, but in no folder)"""
    return sum(1 for k in names if k != "e")


def _7z_member(kind, i, tk):
    if kind == "e":
        return {"name": f"m{i}.txt", "data": b""}
    m = _zip_member(kind, i, tk)
    return {"name": m["name"], "data": m["data"]}


def build_7z(fmt, case):
    from verif.gen import sevenz
    tk = _tk()
    names = case.get("names") or "t" * case["n"]
    if len(names) != case["n"] or not sevenz_streams(names):
        raise ValueError("7z case %r" % (case,))
    members = [_7z_member(kind, i, tk) for i, kind in enumerate(names)]
    opts = {"coder": case["coder"], "layout": case["layout"], "header": case["header"]}
    k = case["k"]
    if k == "enc":
        opts["aes_folder"] = case["folder"]
        opts["aes_mode"] = case["mode"]
    elif k == "enc-header":
        opts["header"] = "encoded"
        opts["header_aes"] = case["mode"]
        opts["header_coder"] = case["hcoder"]
    if case.get("declared") == "over":
        # the folder (exactly one stream) DECLARES an unpack size over the reader's per-member limit: the member is dropped by the
        # pre-filter before anything is decompressed.  (Forged size: the plain variant is an invalid archive, but not an encrypted one.)
        opts["unpack_size_override"] = {case.get("folder", 0): SEVENZ_OVER_LIMIT}
    return {"data": sevenz.sevenz(members, opts), "ext": "7z", "expect": "plain" if k == "plain" else "enc"}


# ------------------------------------------------------------------------------------------------ compound file name spelling
CFB_MODES = {"upper": str.upper, "lower": str.lower, "swap": str.swapcase}


def cfb_entries(data):
    """[(sid, name, file offset of the 128-byte directory entry)] of every storage / stream except the root entry"""
    import olefile
    out = []
    with olefile.OleFileIO(io.BytesIO(data)) as ole:
        ss = ole.sectorsize
        chain, sect = [], ole.first_dir_sector
        while sect not in (0xFFFFFFFE, 0xFFFFFFFF) and len(chain) <= len(ole.fat):
            chain.append(sect)
            sect = ole.fat[sect]
        per = ss // 128
        for sid in range(1, len(chain) * per):
            off = (chain[sid // per] + 1) * ss + (sid % per) * 128
            ln, typ = struct.unpack_from("<HB", data, off + 64)
            if typ in (1, 2) and 2 <= ln <= 64:
                out.append((sid, data[off:off + ln - 2].decode("utf-16-le"), off))
    return out


def cfb_respell(data, target, mode):
    """Change the CASE of the directory entry name `target` ("*": of every entry) - [MS-CFB] 2.6.4: names compare case-insensitively
    (upper-cased code units), so the red-black tree stays ordered and the file denotes the same streams.  None if nothing changes."""
    import olefile
    f = CFB_MODES[mode]
    out = bytearray(data)
    todo = [(sid, nm, off) for sid, nm, off in cfb_entries(data) if target in ("*", nm) and f(nm) != nm]
    if target != "*" and len(todo) > 1:
        raise AssertionError("entry name %r occurs more than once" % (target,))
    for sid, nm, off in todo:
        new = f(nm)
        if len(new) != len(nm) or new.upper() != nm.upper():
            raise AssertionError("case mapping of %r changes more than the case" % (nm,))
        out[off:off + 2 * len(nm)] = new.encode("utf-16-le")
    if not todo:
        return None
    out = bytes(out)
    # self-check: same tree, same stream contents, under the new names
    with olefile.OleFileIO(io.BytesIO(data)) as a, olefile.OleFileIO(io.BytesIO(out)) as b:
        la, lb = a.listdir(streams=True, storages=True), b.listdir(streams=True, storages=True)
        want = [[f(x) if target in ("*", x) else x for x in path] for path in la]
        if sorted(lb) != sorted(want):          # (olefile lists the children of a storage in code-point order)
            raise AssertionError("respelled directory is not what it should be: %r vs %r" % (lb, want))
        for pa, pb in zip(la, want):
            if a.get_type(pa) == olefile.STGTY_STREAM and a.openstream(pa).read() != b.openstream(pb).read():
                raise AssertionError("stream %r changed" % (pa,))
    return out


XMLENC = "http://www.w3.org/2001/04/xmlenc#"
# EncryptionMethod algorithms of META-INF/encryption.xml.  Real encryption (W3C XML Encryption 1.0 / 1.1 block ciphers, as written by
# Readium LCP, Adobe ADEPT, Apple FairPlay ...) versus font obfuscation (EPUB OCF 3 section 4.4 "IDPF font obfuscation" and Adobe's older
# font mangling), which the OCF specification explicitly says is NOT encryption: only (a prefix of) a font file is XOR-mangled with
# a key derived from the publication identifier; every content document stays readable.
EPUB_ALGS = {"aes128-cbc": XMLENC + "aes128-cbc", "aes256-cbc": XMLENC + "aes256-cbc", "aes256-gcm": "http://www.w3.org/2009/xmlenc11#aes256-gcm",
             "idpf": "http://www.idpf.org/2008/embedding", "adobe": "http://ns.adobe.com/pdf/enc#RC"}
EPUB_ALGS["nomethod"] = None        # EncryptedData without an EncryptionMethod child (optional in XML Encryption: "known by the recipient")
EPUB_CIPHERS = ["aes128-cbc", "aes256-cbc", "aes256-gcm", "nomethod"]
EPUB_OBFUSCATIONS = ["idpf", "adobe"]
EPUB_CH_ALGS = [None] + EPUB_CIPHERS                            # what encryption.xml declares for a content document
EPUB_FONT_ALGS = [None] + EPUB_OBFUSCATIONS + ["aes256-cbc"]    # ... and for the embedded font
# a book whose encryption.xml lists nothing but obfuscated fonts is not encrypted (see above): "plain".  ("any" would leave it unjudged.)
EPUB_OBFUSCATION_ONLY = "plain"


def _encryption_xml(targets, spell):
    items = []
    for t in targets:
        if spell == "prefixed":
            items.append(f'<enc:EncryptedData Id="ED{len(items)}"><enc:EncryptionMethod Algorithm="{XMLENC}aes128-cbc"/>'
                         '<ds:KeyInfo xmlns:ds="http://www.w3.org/2000/09/xmldsig#"><ds:KeyName>key</ds:KeyName></ds:KeyInfo>'
                         f'<enc:CipherData><enc:CipherReference URI="{t}"/></enc:CipherData></enc:EncryptedData>')
        else:
            items.append(f'<EncryptedData xmlns="{XMLENC}" Id="ED{len(items)}"><EncryptionMethod Algorithm="{XMLENC}aes128-cbc"/>'
                         '<KeyInfo xmlns="http://www.w3.org/2000/09/xmldsig#"><KeyName>key</KeyName></KeyInfo>'
                         f'<CipherData><CipherReference URI="{t}"/></CipherData></EncryptedData>')
    return ('<?xml version="1.0" encoding="UTF-8"?><encryption xmlns="urn:oasis:names:tc:opendocument:xmlns:container" '
            f'xmlns:enc="{XMLENC}">' + "".join(items) + "</encryption>").encode("utf-8")


def _encryption_xml_mixed(entries, spell):
    """entries: [(URI of the resource, algorithm key of EPUB_ALGS)] in document order.  Cipher entries carry a KeyInfo (the content key
    is retrieved from a licence), obfuscation entries carry none (the key is derived from the package identifier)."""
    p = "enc:" if spell == "prefixed" else ""
    ns = "" if spell == "prefixed" else f' xmlns="{XMLENC}"'
    items = []
    for uri, alg in entries:
        ki = ""
        if alg in EPUB_CIPHERS:
            ki = ('<ds:KeyInfo xmlns:ds="http://www.w3.org/2000/09/xmldsig#"><ds:RetrievalMethod URI="license.lcpl#/encryption/content_key" '
                  'Type="http://readium.org/2014/01/lcp#EncryptedContentKey"/></ds:KeyInfo>')
        em = f'<{p}EncryptionMethod Algorithm="{EPUB_ALGS[alg]}"/>' if EPUB_ALGS[alg] else ""
        items.append(f'<{p}EncryptedData{ns} Id="ED{len(items)}">{em}{ki}'
                     f'<{p}CipherData><{p}CipherReference URI="{uri}"/></{p}CipherData></{p}EncryptedData>')
    data = ('<?xml version="1.0" encoding="UTF-8"?><encryption xmlns="urn:oasis:names:tc:opendocument:xmlns:container" '
            f'xmlns:enc="{XMLENC}">' + "".join(items) + "</encryption>").encode("utf-8")
    # self-check with a real XML parser: the EncryptedData elements (xmlenc namespace) declare exactly these algorithms for these resources
    import xml.etree.ElementTree as ET
    q = "{%s}" % XMLENC
    got = [(ed.find(f"{q}CipherData/{q}CipherReference").get("URI"), ed.find(q + "EncryptionMethod").get("Algorithm") if ed.find(q + "EncryptionMethod") is not None else None)
           for ed in ET.fromstring(data).iter(q + "EncryptedData")]
    if got != [(u, EPUB_ALGS[a]) for u, a in entries]:
        raise AssertionError("encryption.xml is not what it should be: %r" % (got,))
    return data


RIGHTS_XML = (b'<?xml version="1.0" encoding="UTF-8"?><adept:rights xmlns:adept="http://ns.adobe.com/adept"><licenseToken>'
              b'<user>urn:uuid:00000000-0000-0000-0000-000000000000</user><resource>urn:uuid:11111111-1111-1111-1111-111111111111</resource>'
              b'<encryptedKey>AAAA</encryptedKey></licenseToken></adept:rights>')


def build_epub(fmt, case):
    from verif.gen import htmlfam
    tk = _tk()
    n = case["n"]
    chapters = [htmlfam.xhtml_page(f"<h1>{tk.new('H')}</h1><p>{tk.new('B')}</p>", "c%d" % i) for i in range(n)]
    extra = {}
    k = case["k"]
    expect = "plain"
    if k == "enc":
        tg = list(range(n)) if case["target"] == "all" else [case["target"]]
        for i in tg:
            chapters[i] = _dummy(len(chapters[i]) // 16 * 16 + 16, "ch%d" % i)          # cipher text instead of XHTML
        extra["META-INF/encryption.xml"] = _encryption_xml([f"OEBPS/ch{i + 1}.xhtml" for i in tg], case["xspell"])
        if case["rights"]:
            extra["META-INF/rights.xml"] = RIGHTS_XML
        expect = "enc"
    elif k == "rights":
        extra["META-INF/rights.xml"] = RIGHTS_XML
        expect = "enc"
    elif k == "encmix":
        # a book with n content documents and one embedded font; encryption.xml declares an algorithm per resource (or none)
        algs, font = list(case["algs"]), case["font"]
        if len(algs) != n or any(a not in EPUB_CH_ALGS for a in algs) or font not in EPUB_FONT_ALGS or not (font or any(algs)):
            raise ValueError("encmix case %r" % (case,))
        entries = []
        for i, a in enumerate(algs):
            if a:
                chapters[i] = _dummy(len(chapters[i]) // 16 * 16 + 16, "ch%d" % i)          # cipher text instead of XHTML
                entries.append((f"OEBPS/ch{i + 1}.xhtml", a))
        fe = [("OEBPS/fonts/f.otf", font)] if font else []
        entries = fe + entries if case["order"] == "font-first" else entries + fe
        extra["META-INF/encryption.xml"] = _encryption_xml_mixed(entries, case["xspell"])
        if case["rights"]:
            extra["META-INF/rights.xml"] = RIGHTS_XML
        # real OpenType header, then (mangled / cipher / plain) bytes: the extractor has no business in it
        items = [("font1", "fonts/f.otf", "application/vnd.ms-opentype", (b"OTTO" if not font else b"") + _dummy(2048, "font%s" % font))]
        real = [a for _, a in entries if a in EPUB_CIPHERS]
        expect = "enc" if (real or case["rights"]) else EPUB_OBFUSCATION_ONLY
        return {"data": htmlfam.epub(chapters, {"title": "t"}, extra_items=items, extra_files=extra), "ext": "epub", "expect": expect}
    else:
        look = case.get("look")
        if look == "empty-encxml":
            extra["META-INF/encryption.xml"] = _encryption_xml([], "default")
        elif look == "oebps-encxml":
            extra["OEBPS/encryption.xml"] = _encryption_xml(["OEBPS/ch1.xhtml"], "default")
            extra["OEBPS/rights.xml"] = RIGHTS_XML
        elif look == "text":
            chapters[0] = htmlfam.xhtml_page(f"<p>{tk.new('B')} EncryptedData encryption.xml rights.xml</p>", "c0")
    return {"data": htmlfam.epub(chapters, {"title": "t"}, extra_files=extra), "ext": "epub", "expect": expect}


def fixture_files():
    out = []
    for root, _, files in os.walk(RES):
        for f in files:
            p = os.path.join(root, f)
            if os.path.getsize(p) > 0:
                out.append(os.path.relpath(p, RES))
    return sorted(out)


def build_fixture(fmt, case):
    import sharepoint2text
    name = case["file"]
    if not sharepoint2text.is_supported_file(name):
        return None
    with open(os.path.join(RES, name), "rb") as f:
        data = f.read()
    ext = "tar.gz" if name.lower().endswith(".tar.gz") else name.rsplit(".", 1)[1].lower()
    return {"data": data, "ext": ext, "expect": "enc" if "password_protected" in name else "plain"}


def builder(fmt):
    return {"ooxml": build_ooxml, "odf": build_odf, "xls": build_xls, "ppt": build_ppt, "doc": build_doc, "pdf": build_pdf, "zip": build_zip, "7z": build_7z, "epub": build_epub,
            "fixture": build_fixture}[fmt]


# ====================================================================================================== evaluation

def _short(obs):
    s = f"exception={obs['exc']}" + (f" ({obs['msg']})" if obs["exc"] else "") + (f" cause={obs['cause']}" if obs.get("cause") else "")
    s += f", results yielded={obs['n']}"
    if "rc" in obs:
        s += f", cli rc={obs['rc']} stdout={obs['stdout']} chars stderr={obs['stderr']!r}"
    if obs.get("pypdf_before"):
        s += f", pypdf AES before the case: {obs['pypdf_before']}"
    return s


def judge(expect, seam, obs, ref):
    fails = []
    exc = obs["exc"]
    if expect == "enc":
        if exc is None:
            fails.append(("enc-missed", "encrypted input was not rejected at all (extraction completed): " + _short(obs)))
        elif exc != ENC:
            fails.append(("enc-missed", "encrypted input rejected with another error than ExtractionFileEncryptedError: " + _short(obs)))
        elif obs["n"] > 0:
            fails.append(("yield-before-error", "results were yielded before the encrypted error: " + _short(obs)))
        if exc == ENC and seam.startswith("cli") and (obs.get("stdout", 0) > 0 or obs.get("rc") == 0):
            fails.append(("cli-not-rejected", "CLI printed content / exited 0 for an encrypted input: " + _short(obs)))
    elif expect == "plain":
        if exc == ENC:
            fails.append(("false-positive", "input without any encryption rejected as encrypted: " + _short(obs)))
    elif expect == "same":
        if exc is not None:
            fails.append(("emptypw-rejected", "PDF with empty user password not extracted: " + _short(obs)))
        elif ref["exc"] is not None:
            pass       # the unencrypted original itself fails: nothing to compare with (not this property)
        elif obs["json"] != ref["json"]:
            a, b = str(obs["json"]), str(ref["json"])
            at = next((i for i, (x, y) in enumerate(zip(a, b)) if x != y), min(len(a), len(b)))
            lo = max(0, at - 60)
            fails.append(("emptypw-differs", f"PDF with empty user password extracts differently from its unencrypted original: first difference at character {at} of "
                                             f"the JSON ({len(a)} vs {len(b)} characters): ...{a[lo:at + 120]} vs ...{b[lo:at + 120]}"))
    return fails


def evaluate(fmt, case):
    """-> (fails, outcome class, sample info) ; outcome None = inexpressible combination"""
    b = builder(fmt)(fmt, {k: v for k, v in case.items() if k != "seam"})
    if b is not None and case.get("cfbcase"):
        # the same compound file with the case of a directory entry name (or of all) changed: same expectation
        data = cfb_respell(b["data"], case["cfbcase"][0], case["cfbcase"][1])
        b = None if data is None else dict(b, data=data)
    if b is None:
        return [], None, None
    seam = case["seam"]
    want = b["expect"] == "same"
    state = case.get("state")
    if state in ("fresh", "warm"):
        job = {"pdf": base64.b64encode(b["data"]).decode(), "seam": seam, "ext": b["ext"], "warm": None}
        if state == "warm":
            job["warm"] = base64.b64encode(_aes_pdf("AES-256-R5", "", "", 0, _seed())[0]).decode()
        obs = S.child("extract", job)
    else:
        obs = S.run_seam(seam, b["ext"], b["data"], want_json=want)
    ref = S.run_seam(seam, b["ext"], b["orig"], want_json=True) if want else None
    if want and seam == "cli-json":
        for o in (obs, ref):
            try:
                import json as _j
                o["json"] = S.strip_file_meta(_j.loads(o["json"][0])) if o.get("json") and o["json"][0] else o.get("json")
            except ValueError:
                pass
    fails = judge(b["expect"], seam, obs, ref)
    oc = f"{fmt}:{case['k']}:{b['expect']}:{obs['exc'] or 'ok'}:{'n>0' if obs['n'] else 'n=0'}"
    return fails, oc, {"bytes": len(b["data"]), "expect": b["expect"], "observed": _short(obs)[:160], "kat": b.get("kat", 0)}


def reexec(fmt, case):
    return evaluate(fmt, case)[0]


# ====================================================================================================== triage helpers

NEUTRAL = {"seam": "direct", "doc": 0, "size": 4096, "ver": 3, "method": 0, "stream": "Workbook", "playout": "ppt", "cu": True,
           "spell": "manifest", "xspell": "default", "layout": "solid", "coder": "copy", "header": "plain", "rights": False, "owner": "",
           "hcoder": "copy", "oext": "docx", "ext": "odt", "where": "path", "mode": "single", "order": "font-last"}
CFB_KNOWN_NAMES = ["EncryptedPackage", "EncryptionInfo", "\x06DataSpaces", "PowerPoint Document", "Current User", "EncryptedSummary", "WordDocument"]
# NEUTRAL is not applied to the families whose parameter space is tied to the value: "oext"/"ext" of the protection families (the
# variants are per format)


def _perm_cleared(perm):
    return [b for b in PDF_PERM_BITS if not perm & (1 << (b - 1))]


def shrinks(case):
    for key, nv in NEUTRAL.items():
        if key in case and case[key] != nv:
            if key == "header" and case.get("k") == "enc-header":
                continue
            if key in ("oext", "ext") and case.get("k") == "protect":
                continue
            c = dict(case)
            c[key] = nv
            if key == "layout" and "folder" in c:
                if c.get("declared") and c.get("n", 1) > 1:
                    continue                # a declared size needs a folder of one stream
                c["folder"] = 0
            yield c
    if case.get("cfbcase"):
        c = dict(case)
        del c["cfbcase"]
        yield c
        tg, mode = case["cfbcase"]
        if tg == "*":
            for name in CFB_KNOWN_NAMES:            # one entry instead of all (a name the file does not hold: inexpressible, never failing)
                c = dict(case)
                c["cfbcase"] = [name, mode]
                yield c
        if mode != "upper":
            c = dict(case)
            c["cfbcase"] = [tg, "upper"]
            yield c
    if case.get("hist"):                    # fewer earlier saves (none: the single-edit file of the base family)
        h = case["hist"]
        for i in range(len(h)):
            c = dict(case)
            c["hist"] = h[:i] + h[i + 1:]
            if not c["hist"]:
                del c["hist"]
                if c.get("cu") == "notoken":
                    continue
            yield c
        if case.get("cu") == "notoken":
            c = dict(case)
            c["cu"] = False
            yield c
    if "names" in case:
        for i, kind in enumerate(case["names"]):
            if kind != "t":
                c = dict(case)
                c["names"] = case["names"][:i] + "t" + case["names"][i + 1:]
                if sevenz_folders(sevenz_streams(c["names"]), c["layout"]) == sevenz_folders(sevenz_streams(case["names"]), case["layout"]):
                    yield c
    if len(case.get("bits", [])) > 1:
        for b in case["bits"]:
            c = dict(case)
            c["bits"] = [x for x in case["bits"] if x != b]
            yield c
    if case.get("perm", -4) != -4:
        c = dict(case)
        c["perm"] = -4
        yield c
        cleared = _perm_cleared(case["perm"])
        if len(cleared) > 1:
            for b in cleared:
                c = dict(case)
                c["perm"] = -4 & ~(1 << (b - 1))
                yield c
    if "needle" in case:
        for nd in ODF_NEEDLES:
            if nd != case["needle"] and nd in case["needle"]:
                c = dict(case)
                c["needle"] = nd
                yield c
    if case.get("state") == "warm":
        c = dict(case)
        c["state"] = "fresh"
        yield c
    if "streams" in case:
        for s in case["streams"]:
            c = dict(case)
            c["streams"] = [x for x in case["streams"] if x != s]
            yield c
    if "kinds" in case and len(case["kinds"]) > 1:
        marked = [i for i, _ in case.get("marks", [])] + ([case["odd"][0]] if case.get("odd") else [])
        for i in range(len(case["kinds"])):
            if i in marked:
                continue
            c = dict(case)
            c["kinds"] = case["kinds"][:i] + case["kinds"][i + 1:]
            if "marks" in c:
                c["marks"] = [[j - (j > i), how] for j, how in case["marks"]]
            if c.get("odd"):
                c["odd"] = [case["odd"][0] - (case["odd"][0] > i), case["odd"][1]]
            yield c
        if len(case.get("marks", [])) > 1:
            for j in range(len(case["marks"])):
                c = dict(case)
                c["marks"] = case["marks"][:j] + case["marks"][j + 1:]
                yield c
    if "n" in case and case["n"] > 1:
        c = dict(case)
        c["n"] = case["n"] - 1
        ok = True
        if "names" in c:
            c["names"] = case["names"][:-1]
            ok = sevenz_streams(c["names"]) > 0
        if "folder" in c and c["folder"] >= sevenz_folders(sevenz_streams(c["names"]) if "names" in c else c["n"], c["layout"]):
            ok = False
        if isinstance(c.get("target"), int) and c["target"] >= c["n"]:
            ok = False
        if "algs" in c:
            c["algs"] = list(case["algs"][:-1])
            ok = bool(c["font"] or any(c["algs"]))
        if ok:
            yield c
    if "algs" in case:                      # EPUB encryption.xml: drop one entry
        for i, a in enumerate(case["algs"]):
            if a and (case["font"] or any(x for j, x in enumerate(case["algs"]) if j != i)):
                c = dict(case)
                c["algs"] = [None if j == i else x for j, x in enumerate(case["algs"])]
                yield c
        if case["font"] and any(case["algs"]):
            c = dict(case)
            c["font"] = None
            yield c
        for i, a in enumerate(case["algs"]):                    # ... or turn it into the first cipher / obfuscation of the alphabet
            if a and a != EPUB_CIPHERS[0]:
                c = dict(case)
                c["algs"] = [EPUB_CIPHERS[0] if j == i else x for j, x in enumerate(case["algs"])]
                yield c
        if case["font"] in EPUB_OBFUSCATIONS[1:]:
            c = dict(case)
            c["font"] = EPUB_OBFUSCATIONS[0]
            yield c
    if isinstance(case.get("entry"), int) and case["entry"] > 0:
        c = dict(case)
        c["entry"] = 0
        yield c
    if case.get("entry") == "all":
        c = dict(case)
        c["entry"] = 0
        yield c


def embeds(small, big):
    if small.get("k") != big.get("k"):
        return False
    for key, v in small.items():
        if key in ("kinds", "marks", "odd"):
            continue
        if key in NEUTRAL and v == NEUTRAL[key]:
            continue                       # the minimal shape has the simplest value here: any value in `big` is explained
        if key == "n":
            if big.get("n", 0) < v:
                return False
            continue
        if key in ("entry", "folder", "target") and v == 0:
            continue
        if key == "bits":
            if not set(v) <= set(big.get("bits", [])):
                return False
            continue
        if key == "stream":                 # one non-Excel spelling of the stream name stands for the others of the same name
            bs = big.get("stream")
            if bs != v and not (isinstance(bs, str) and bs.upper() == v.upper() and v not in ("Workbook", "Book") and bs not in ("Workbook", "Book")):
                return False
            continue
        if key == "names":                  # the small archive's special members (not plain text files) occur in the big one
            have = list(big.get("names", ""))
            for kind in v:
                if kind != "t":
                    if kind not in have:
                        return False
                    have.remove(kind)
            continue
        if key == "cfbcase":                # the same entry respelled (or all of them), in the same way ("upper" stands for any)
            bc = big.get("cfbcase")
            if not bc or (bc[0] not in ("*", v[0])) or (v[1] != "upper" and bc[1] != v[1]):
                return False
            continue
        if key == "algs":                   # the small book's cipher entries occur in the big one
            have = [a for a in big.get("algs", []) if a]
            for a in sorted((a for a in v if a), key=lambda a: a == EPUB_CIPHERS[0]):
                hit = a if a in have else (have[0] if have and a == EPUB_CIPHERS[0] else None)     # the first cipher stands for any cipher
                if hit is None:
                    return False
                have.remove(hit)
            continue
        if key == "font":
            bf = big.get("font")
            if v is not None and bf != v and not (v == EPUB_OBFUSCATIONS[0] and bf in EPUB_OBFUSCATIONS):
                return False
            continue
        if key == "hist":                   # the small file's earlier saves occur, in order, among the big one's
            it = iter(big.get("hist", ""))
            if not all(h in it for h in v):
                return False
            continue
        if key == "perm":
            if not set(_perm_cleared(v)) <= set(_perm_cleared(big.get("perm", -4))):
                return False            # the small case clears a permission bit that the big one does not
            continue
        if key == "needle":
            if v not in big.get("needle", ""):
                return False
            continue
        if big.get(key) != v:
            return False
    if "kinds" in small:
        if sorted(how for _, how in small.get("marks", [])) != sorted(how for _, how in big.get("marks", []))[:len(small.get("marks", []))]:
            return False
        if [small["kinds"][i] for i, _ in small.get("marks", [])] != [big["kinds"][i] for i, _ in big.get("marks", [])][:len(small.get("marks", []))]:
            return False
        if bool(small.get("odd")) != bool(big.get("odd")) or (small.get("odd") and small["odd"][1] != big["odd"][1]):
            return False
    return True


# ====================================================================================================== enumeration

def _subsets(xs):
    for r in range(len(xs) + 1):
        for c in itertools.combinations(xs, r):
            yield list(c)


def base_cases(tier):
    """Yield (fmt, case without seam, seams).  quick's set is a subset of thorough's."""
    q = tier == "quick"
    all_seams = SEAMS if q else SEAMS + ["cli-json"]
    # ---- OOXML in OLE
    for fmt in ("docx", "xlsx", "pptx"):
        for streams in _subsets(OOXML_STREAMS):
            for size in ((100, 4096) if q else (100, 4096, 70000)):
                for ver in ((3,) if q else (3, 4)):
                    yield "ooxml", {"k": "shell", "oext": fmt, "streams": streams, "size": size, "ver": ver}, all_seams if size == 4096 and ver == 3 else ["direct"]
        yield "ooxml", {"k": "cfb-other", "oext": fmt}, all_seams
        for d in (0, 1):
            for member in (None, "EncryptionInfo", "EncryptedPackage", "\x06DataSpaces/Version"):
                yield "ooxml", {"k": "plain", "oext": fmt, "doc": d, "member": member}, all_seams if (d == 0 or not q) else ["direct"]
            for v in OOXML_PROTECT[fmt]:
                yield "ooxml", {"k": "protect", "oext": fmt, "doc": d, "v": v, "member": None}, all_seams if (d == 0 or not q) else ["direct"]
    # ---- ODF
    for fmt in ODF_FORMATS:
        for d in (0, 1):
            yield "odf", {"k": "plain", "ext": fmt, "doc": d}, all_seams
            for v in ODF_PROTECT.get(fmt, []):
                if d == 0 or fmt == "ods":
                    yield "odf", {"k": "protect", "ext": fmt, "doc": d, "v": v}, all_seams
            nent = len(odf_entries(odf_base(fmt, d)))
            for entry in list(range(nent)) + ["all"]:
                for spell in ("manifest", "m", "utf16"):
                    yield "odf", {"k": "enc", "ext": fmt, "doc": d, "entry": entry, "spell": spell}, all_seams if (entry in (0, "all") and (d == 0 or not q)) else ["direct"]
        for needle in ODF_NEEDLES:
            for where in ODF_WHERE:
                yield "odf", {"k": "look", "ext": fmt, "needle": needle, "where": where}, all_seams if not q or needle == ODF_NEEDLES[0] else ["direct"]
    # ---- XLS
    for stream in ("Workbook", "Book"):
        for d in (0, 1, 2):
            n = xls_globals_len(d)
            for at in range(1, n):
                if q and d and at not in (1, n - 1):
                    continue
                yield "xls", {"k": "filepass", "at": at, "stream": stream, "doc": d}, all_seams if (at <= 2 and d == 0) or not q and d == 0 else ["direct"]
            yield "xls", {"k": "plain", "doc": d, "stream": stream}, all_seams
            # neighbours of FILEPASS, FILEPASS payload variants, editing-protection records
            ats = [1, n - 1] if q or d else list(range(1, n))
            for at in ats:
                for rid in XLS_NEAR_IDS:
                    if not q or (d == 0 and stream == "Workbook") or at == 1:
                        yield "xls", {"k": "nearid", "id": rid, "at": at, "stream": stream, "doc": d}, all_seams if (at == 1 and d == 0 and stream == "Workbook") else ["direct"]
                for v in XLS_FILEPASS_VARIANTS:
                    if v != "rc4":                     # "rc4" at 1..n-1 is the k = "filepass" family above
                        yield "xls", {"k": "filepass-v", "v": v, "at": at, "stream": stream, "doc": d}, all_seams if (at == 1 and d == 0) else ["direct"]
            for v in XLS_PROTECT:
                for at in (5, 14):
                    yield "xls", {"k": "protect", "v": v, "at": at, "stream": stream, "doc": d}, all_seams if (d == 0 and (not q or v == "all")) else ["direct"]
        for v in XLS_LOOKS:
            yield "xls", {"k": "look", "v": v, "stream": stream}, all_seams if (not q or v == "all") else ["direct"]
    # stream name spelled in another case: still the workbook stream, FILEPASS still means encrypted
    for stream in XLS_SPELLINGS:
        for d in (0, 2):
            n = xls_globals_len(d)
            for at in (range(1, n) if not q and d == 0 else (1, n - 1)):
                yield "xls", {"k": "filepass", "at": at, "stream": stream, "doc": d}, all_seams if (at == 1 and d == 0) else ["direct"]
            for v in XLS_FILEPASS_VARIANTS:
                if v != "rc4":
                    yield "xls", {"k": "filepass-v", "v": v, "at": 1, "stream": stream, "doc": d}, ["direct"]
            yield "xls", {"k": "plain", "doc": d, "stream": stream}, all_seams if d == 0 else ["direct"]
        yield "xls", {"k": "look", "v": "all", "stream": stream}, ["direct"]
        if not q:
            for rid in XLS_NEAR_IDS:
                yield "xls", {"k": "nearid", "id": rid, "at": 1, "stream": stream, "doc": 0}, ["direct"]
    # ---- compound file entry names in another case (every entry alone, all at once): OOXML shell, PPT, DOC
    for mode in CFB_MODES:
        for fmt in ("docx", "xlsx", "pptx"):
            for streams in ([OOXML_STREAMS, ["EncryptedPackage"]] if q else [x for x in _subsets(OOXML_STREAMS) if x]):
                for ver in ((3,) if q else (3, 4)):
                    for tg in [("\x06" + x if x == "DataSpaces" else x) for x in streams] + (["*"] if len(streams) > 1 else []):
                        yield "ooxml", {"k": "shell", "oext": fmt, "streams": streams, "size": 4096, "ver": ver, "cfbcase": [tg, mode]}, \
                            all_seams if (fmt == "docx" and tg in ("EncryptedPackage", "*") and ver == 3 and len(streams) != 2) else ["direct"]
        for pmode in (True, "keep_docprops", None):
            for playout in (("ppt",) if q else ("ppt", "lo")):
                for tg in ("PowerPoint Document", "Current User", "EncryptedSummary", "*"):
                    if pmode is None and tg != "*" and q:
                        continue
                    c = {"k": "enc" if pmode else "plain", "playout": playout, "cu": True, "doc": 0, "cfbcase": [tg, mode]}
                    if pmode:
                        c["pmode"] = pmode
                    yield "ppt", c, all_seams if tg == "*" else ["direct"]
        for f in DOC_FIXTURES:
            for tgl in (False, True):
                for tg in (("WordDocument",) if q else ("WordDocument", "*")):
                    yield "doc", {"k": "fib", "file": f, "toggle": tgl, "cfbcase": [tg, mode]}, all_seams if (tgl and mode == "upper" or not q) else ["direct"]
    # ---- PPT
    for playout in ("ppt", "lo"):
        for cu in (True, False):
            for d in (0, 1):
                for mode in (True, "keep_docprops"):
                    yield "ppt", {"k": "enc", "pmode": mode, "playout": playout, "cu": cu, "doc": d}, all_seams if (d == 0 or not q) else ["direct"]
                yield "ppt", {"k": "plain", "playout": playout, "cu": cu, "doc": d}, all_seams if (d == 0 or not q) else ["direct"]
    # ---- PPT saved more than once: earlier user edits (28-byte plain / 32-byte encrypted) before the current one, which alone decides
    for playout in ("ppt", "lo"):
        for d in ((0,) if q else (0, 1)):
            for hist in ppt_histories(PPT_HIST_MAX_QUICK if q else PPT_HIST_MAX):
                for cu in (True, False, "notoken"):
                    full = all_seams if (not q or (playout == "ppt" and cu is False and hist in ("p", "e"))) else ["direct"]
                    for mode in (True, "keep_docprops"):
                        yield "ppt", {"k": "enc", "pmode": mode, "playout": playout, "cu": cu, "doc": d, "hist": hist}, full
                    if "e" not in hist and cu != "notoken":
                        yield "ppt", {"k": "plain", "playout": playout, "cu": cu, "doc": d, "hist": hist}, full
    # ---- DOC fixtures
    for f in DOC_FIXTURES:
        for tg in (False, True):
            yield "doc", {"k": "fib", "file": f, "toggle": tg}, all_seams
        nb = FIB_QUICK_BITS if q else FIB_ALL_BITS
        for b in nb:
            if b == FIB_ENC_BIT:
                continue            # flipped alone: the k = "fib" toggle above
            yield "doc", {"k": "fibbits", "file": f, "bits": [b]}, all_seams if b in FIB_FLAG_BITS else ["direct"]
            yield "doc", {"k": "fibbits", "file": f, "bits": sorted([b, FIB_ENC_BIT])}, all_seams if (b in FIB_FLAG_BITS and not q) else ["direct"]
        rest = [b for b in FIB_FLAG_BITS if b != FIB_ENC_BIT]
        yield "doc", {"k": "fibbits", "file": f, "bits": rest}, all_seams
        yield "doc", {"k": "fibbits", "file": f, "bits": FIB_FLAG_BITS}, all_seams
    # ---- PDF
    for d in (0, 1, 2):
        yield "pdf", {"k": "plain", "doc": d}, all_seams
    for pwhere in ("title", "text"):
        yield "pdf", {"k": "look", "pwhere": pwhere}, all_seams
    for alg in PDF_RC4:
        for user, owner in PWS:
            for d in (0, 1, 2):
                yield "pdf", {"k": "enc", "alg": alg, "user": user, "owner": owner, "doc": d, "state": "inproc"}, all_seams
        yield "pdf", {"k": "enc", "alg": alg, "user": "", "owner": "", "doc": 3, "state": "inproc"}, ["direct"]
    for alg in PDF_AES:
        r6 = alg == "AES-256"
        for user, owner in PWS:
            for d in (0, 2):
                if q and r6 and (d != 0 or [user, owner] != ["", ""]):
                    continue
                for state in (("fresh",) if r6 else ("fresh", "warm")):
                    if q:
                        seams = ["direct"] if (r6 or d != 0 or state == "warm") else SEAMS
                    else:
                        seams = all_seams if state == "fresh" else ["direct"]
                    yield "pdf", {"k": "enc", "alg": alg, "user": user, "owner": owner, "doc": d, "state": state}, seams
    for alg in PDF_AES:
        if not (q and alg == "AES-256"):
            yield "pdf", {"k": "enc", "alg": alg, "user": "", "owner": "", "doc": 3, "state": "fresh"}, ["direct"]
    # large streams (many cipher blocks per message); the other password pairs on the largest document only
    for alg in PDF_RC4 + PDF_AES:
        rc4, r6 = alg in PDF_RC4, alg == "AES-256"
        if q:
            docs = [] if r6 else (PDF_BIG_QUICK + [x for x in PDF_BIG_EDGES[6:9] if x not in PDF_BIG_QUICK] if rc4 else PDF_BIG_QUICK if alg == "AES-128" else PDF_BIG_QUICK[:1])
        else:
            docs = PDF_BIG_ALL
        for d in docs:
            big = d == PDF_BIG_QUICK[0]
            for user, owner in (PWS[:3] if big and not q and not r6 else PWS[:1]):
                state = "inproc" if rc4 else "fresh"
                yield "pdf", {"k": "enc", "alg": alg, "user": user, "owner": owner, "doc": d, "state": state}, SEAMS if big and not q and not user and not r6 else ["direct"]
                if big and not q and not user and not owner and alg in PDF_AES[:2]:
                    yield "pdf", {"k": "enc", "alg": alg, "user": user, "owner": owner, "doc": d, "state": "warm"}, ["direct"]
    # permission bits of /P: an empty user password opens the file whatever /P says
    for alg in PDF_RC4:
        for perm in PDF_PERMS:
            for user, owner in PWS:
                yield "pdf", {"k": "enc", "alg": alg, "user": user, "owner": owner, "doc": 0, "state": "inproc", "perm": perm}, \
                    all_seams if (perm in (PDF_PERMS[2], PDF_PERMS[-1]) and owner == "") or not q else ["direct"]
    for alg in PDF_AES:
        for perm in PDF_PERMS:
            if (q and alg == "AES-256") or ((q or alg == "AES-256") and perm not in (PDF_PERMS[2], PDF_PERMS[-1])):
                continue            # AES-256 (R6) costs seconds per file in pure Python: two /P values in thorough, none in quick
            for user, owner in (PWS[:1] if q else PWS):
                yield "pdf", {"k": "enc", "alg": alg, "user": user, "owner": owner, "doc": 0, "state": "fresh", "perm": perm}, ["direct"] if q else SEAMS
    # ---- ZIP
    maxn = 3
    for nmem in range(1, maxn + 1):
        for i in range(nmem):
            for kind in ("t", "b", "h", "s", "z", "m"):
                kinds = ["t"] * nmem
                kinds[i] = kind
                for how in ("flag", "crypto", "winzip-aes", "strong"):
                    for method in (0, 8):
                        yield "zip", {"k": "enc", "kinds": kinds, "marks": [[i, how]], "method": method}, all_seams if (kind == "t" and method == 0) or not q else ["direct"]
            for j in range(i + 1, nmem):
                for how in ("flag", "crypto"):
                    yield "zip", {"k": "enc", "kinds": ["t"] * nmem, "marks": [[i, how], [j, "crypto"]], "method": 8}, ["direct"]
            for how in ZIP_ODD:
                for method in (0, 8):
                    yield "zip", {"k": "plain", "kinds": ["t"] * nmem, "odd": [i, how], "method": method}, all_seams if (method == 8 or not q) else ["direct"]
            for b in range(1, 16):
                for method in (0, 8):
                    if b not in (3, 11):          # bits 3 and 11 alone: "datadescriptor" / "utf8flag" above
                        yield "zip", {"k": "plain", "kinds": ["t"] * nmem, "odd": [i, "flagbit%d" % b], "method": method}, \
                            all_seams if (nmem == 1 and method == 8) or not q else ["direct"]
                    if b != 6:                    # bits 0 + 6: "strong" above
                        yield "zip", {"k": "enc", "kinds": ["t"] * nmem, "marks": [[i, "flag+%d" % b]], "method": method}, \
                            all_seams if (nmem == 1 and method == 0) or not q else ["direct"]
        for method in (0, 8):
            yield "zip", {"k": "plain", "kinds": ["t"] * nmem, "odd": None, "method": method}, all_seams
    # ---- 7z
    for nmem in range(1, 4):
        for layout in ("solid", "per_file", "two_folders"):
            if nmem == 1 and layout != "solid":
                continue
            for coder in ("copy", "lzma", "lzma2"):
                for header in ("plain", "encoded"):
                    yield "7z", {"k": "plain", "n": nmem, "layout": layout, "coder": coder, "header": header}, all_seams if (coder == "copy" or not q) else ["direct"]
                    for folder in range(sevenz_folders(nmem, layout)):
                        for mode in ("single", "chain"):
                            yield "7z", {"k": "enc", "n": nmem, "layout": layout, "coder": coder, "header": header, "folder": folder, "mode": mode}, \
                                all_seams if (coder == "copy" and header == "plain") or not q else ["direct"]
        for coder in ("copy", "lzma"):
            for hcoder in ("copy", "lzma", "lzma2"):
                for mode in ("single", "chain"):
                    yield "7z", {"k": "enc-header", "n": nmem, "layout": "solid", "coder": coder, "header": "encoded", "hcoder": hcoder, "mode": mode}, \
                        all_seams if (coder == "copy" and hcoder == "copy") or not q else ["direct"]
    # member NAMES: the AES folder holds members the reader never extracts (unsupported type, hidden, nested archive), or the only
    # extractable members are empty files / live in plain folders; and plain archives of such members
    for nmem in range(1, 3 if q else 4):
        kinds = SEVENZ_KINDS_QUICK if q or nmem == 3 else SEVENZ_KINDS_ALL
        for names in ("".join(x) for x in itertools.product(kinds, repeat=nmem)):
            ns = sevenz_streams(names)
            if not ns or set(names) == {"t"}:
                continue                # no data stream at all: nothing can be encrypted; all "t": the family above
            for layout in ("solid", "per_file", "two_folders"):
                if layout != "solid" and (ns < 2 or (layout == "two_folders" and ns == 2)):
                    continue            # the same archive as "solid" / "per_file"
                for coder in (("copy",) if q else ("copy", "lzma2") if nmem == 3 else ("copy", "lzma", "lzma2")):
                    for header in ("plain", "encoded"):
                        if layout == "solid":
                            yield "7z", {"k": "plain", "n": nmem, "names": names, "layout": layout, "coder": coder, "header": header}, ["direct"]
                        for folder in range(sevenz_folders(ns, layout)):
                            for mode in ("single", "chain"):
                                yield "7z", {"k": "enc", "n": nmem, "names": names, "layout": layout, "coder": coder, "header": header, "folder": folder, "mode": mode}, \
                                    all_seams if (coder == "copy" and header == "plain" and mode == "chain") else ["direct"]
    # an AES folder (one stream) whose DECLARED size is over the reader's per-member limit: dropped by the pre-filter too
    for nmem in range(1, 3 if q else 4):
        for layout in (("solid",) if nmem == 1 else ("per_file", "two_folders") if nmem == 3 else ("per_file",)):
            for folder in range(sevenz_folders(nmem, layout)):
                if layout == "two_folders" and folder == 0:
                    continue            # two streams in that folder
                for coder in (("copy",) if q else ("copy", "lzma2")):
                    for header in ("plain", "encoded"):
                        yield "7z", {"k": "plain", "n": nmem, "layout": layout, "coder": coder, "header": header, "folder": folder, "declared": "over"}, ["direct"]
                        for mode in ("single", "chain"):
                            yield "7z", {"k": "enc", "n": nmem, "layout": layout, "coder": coder, "header": header, "folder": folder, "mode": mode, "declared": "over"}, \
                                all_seams if header == "plain" else ["direct"]
    # ---- EPUB
    for nch in range(1, 4):
        for target in list(range(nch)) + ["all"]:
            for xspell in ("default", "prefixed"):
                for rights in (False, True):
                    yield "epub", {"k": "enc", "n": nch, "target": target, "xspell": xspell, "rights": rights}, all_seams if (nch == 1 or not q) else ["direct"]
        yield "epub", {"k": "rights", "n": nch}, all_seams
        # mixed encryption.xml: an algorithm (or none) per content document and for the embedded font, font entry first / last
        if nch <= (2 if q else 3):
            for algs in itertools.product(EPUB_CH_ALGS, repeat=nch):
                for font in EPUB_FONT_ALGS:
                    if not (font or any(algs)):
                        continue            # no entry at all: the "empty-encxml" look-alike below
                    for order in (("font-last", "font-first") if font and any(algs) else ("font-last",)):
                        for xspell in (("default", "prefixed") if nch == 1 or not q else ("default",)):
                            for rights in ((False, True) if nch == 1 else (False,)):
                                yield "epub", {"k": "encmix", "n": nch, "algs": list(algs), "font": font, "order": order, "xspell": xspell, "rights": rights}, \
                                    all_seams if (nch == 1 and not rights) or not q else ["direct"]
        for look in (None, "empty-encxml", "oebps-encxml", "text"):
            yield "epub", {"k": "plain", "n": nch, "look": look}, all_seams
    # ---- fixtures
    for f in fixture_files():
        prot = "password_protected" in f
        yield "fixture", {"k": "fixture", "file": f}, all_seams if (prot or not q) else ["direct"]


def cases(tier):
    for fmt, c, seams in base_cases(tier):
        for s in seams:
            cc = dict(c)
            cc["seam"] = s
            yield fmt, cc


def _is_heavy(fmt, case):
    return fmt == "pdf" and case.get("state") in ("fresh", "warm")


def _part(arg):
    items = arg["items"]
    ev = 0
    skipped = 0
    fails = []
    outs = {}
    samples = []
    kat = 0
    for fmt, case in items:
        P.note([fmt, case])
        try:
            f, oc, info = evaluate(fmt, case)
        except Exception as e:  # noqa  (a harness-side problem: builder / child process)
            import traceback
            return {"error": f"{fmt} {case}: {type(e).__name__}: {e}\n{traceback.format_exc()[-1200:]}"}
        if oc is None:
            skipped += 1
            continue
        ev += 1
        outs[oc] = outs.get(oc, 0) + 1
        for clause, msg in f:
            fails.append((clause, fmt, case, msg))
        kat = max(kat, info.pop("kat", 0) or 0)
        if arg.get("sample") and len(samples) < 1 and ev == 1:
            samples.append({"fmt": fmt, "case": case, **info})
    return {"ev": ev, "skipped": skipped, "fails": fails, "outs": outs, "samples": samples, "kat": kat}


def run(ctx):
    allc = list(cases(ctx.tier))
    light = [(f, c) for f, c in allc if not _is_heavy(f, c)]
    heavy = [(f, c) for f, c in allc if _is_heavy(f, c)]
    groups = {}
    for f, c in heavy:
        key = (c["alg"], c["user"], c["owner"], c["doc"], c.get("perm", -4)) + ((c["seam"], c["state"]) if c["alg"] == "AES-256" and not ctx.quick else ())
        groups.setdefault(key, []).append((f, c))
    nparts = ctx.ncpu * 6
    rnd = random.Random(ctx.seed)
    rnd.shuffle(light)
    parts = [{"items": light[i::nparts], "sample": i < 5} for i in range(nparts)]
    hparts = [{"items": v, "sample": k[0] == "AES-256"} for k, v in sorted(groups.items(), key=lambda kv: (kv[0][0] != "AES-256", tuple(str(x) for x in kv[0])))]
    args = hparts + [p for p in parts if p["items"]]
    res = P.run_all("verif.props.C08", "_part", args, n=ctx.ncpu, hard_timeout=1500)
    ev = skipped = 0
    fails = []
    outs = {}
    samples = []
    herr = []
    per_fmt = {}
    kat = 0
    for (st, r, nt), a in zip(res, args):
        if st != "done" or "error" in (r or {}):
            herr.append(f"partition failed: {st}: {str(r)[-900:]} (last case {nt})")
            continue
        ev += r["ev"]
        skipped += r["skipped"]
        fails += [tuple(x) for x in r["fails"]]
        for k_, v in r["outs"].items():
            outs[k_] = outs.get(k_, 0) + v
            per_fmt[k_.split(":")[0]] = per_fmt.get(k_.split(":")[0], 0) + v
        samples += r["samples"]
        kat = max(kat, r.get("kat", 0))
    samples = sorted(samples, key=lambda s: (s["fmt"], str(s["case"])))[:6]
    expect_counts = {}
    for k_, v in outs.items():
        e = k_.split(":")[2]
        expect_counts[e] = expect_counts.get(e, 0) + v
    cov = {"evaluations": ev, "distinct_nontrivial": len(outs), "inexpressible_combinations_skipped": skipped,
           "aes_generator_blocks_cross_checked_against_reference_per_generated_pdf": kat,
           "rule": "every (container kind, encryption mechanism position / variant) and every plain look-alike listed in the module docstring, "
                   "each built by the reference writers with its ground truth (enc / plain / same-as-original / not judged) and pushed through "
                   "the direct extractor, read_file and cli.main; AES PDFs are written in a separate generator process and extracted in a fresh "
                   "interpreter; distinct_nontrivial = distinct (format, case kind, expectation, observed exception, results>0) classes",
           "per_format": per_fmt, "per_expectation": expect_counts, "outcomes": dict(sorted(outs.items())), "samples": samples, "exhaustive": True,
           "bounds": {"tier": ctx.tier, "zip_members": "1..3", "7z_members": "1..3", "epub_chapters": "1..3", "xls_filepass_positions": "every globals record index",
                      "pdf": "5 algorithms x 4 password pairs x documents; AES-256 (R6) reduced to the empty password pair, one document, direct seam in quick",
                      "pdf_large_streams": ("plain stream lengths " + ", ".join(PDF_BIG_QUICK + PDF_BIG_EDGES[6:9][::2]) + " (RC4-40/128), " + ", ".join(PDF_BIG_QUICK)
                                            + " (AES-128), " + PDF_BIG_QUICK[0] + " (AES-256-R5); empty passwords, direct seam") if ctx.quick else
                                           ("plain stream lengths " + ", ".join(PDF_BIG_ALL) + " x 5 algorithms, empty passwords; the first also with owner / user "
                                            "passwords, through 3 seams and 'warm'"),
                      "epub_mixed_encryption_xml": "content documents 1..%d x {none, aes128-cbc, aes256-cbc, aes256-gcm, no EncryptionMethod} each x font {none, idpf, adobe, aes256-cbc} x "
                                                   "entry order x namespace spelling x rights.xml (n = 1)" % (2 if ctx.quick else 3),
                      "ooxml_shell": "8 stream subsets x sizes x CFB versions x 3 readers",
                      "ppt_edit_history": "words over {p (28-byte UserEditAtom), e (32-byte)} of length 1..%d as earlier saves before an encrypted current save "
                                          "(True / keep_docprops), words over {p} before a plain one; x 2 layouts x Current User {present, absent, plain token} x "
                                          "documents %s" % ((PPT_HIST_MAX_QUICK, "0") if ctx.quick else (PPT_HIST_MAX, "0, 1")),
                      "xls_stream_spellings": ", ".join(XLS_SPELLINGS) + " x {FILEPASS at index " + ("1, last" if ctx.quick else "every index (small workbook) / 1, last (large)")
                                              + ", 4 other FILEPASS payloads at 1, plain} x {small, large workbook}; look-alike 'all'"
                                              + ("" if ctx.quick else "; 17 neighbour record numbers at 1"),
                      "cfb_entry_name_case": "{upper, lower, swapcase} x {each encryption-relevant entry alone, all entries} x " +
                                             ("ooxml shells {all three streams, EncryptedPackage only} x 3 readers; ppt {encrypted, keep_docprops, plain (all entries)}; "
                                              "3 doc fixtures x fEncrypted toggled / not x WordDocument" if ctx.quick else
                                              "ooxml shells (7 non-empty stream subsets x CFB versions 3, 4) x 3 readers; ppt {encrypted, keep_docprops, plain} x 2 layouts; "
                                              "3 doc fixtures x fEncrypted toggled / not x {WordDocument, all}"),
                      "7z_member_names": ("words over {%s} of length 1..2, coder copy" % ",".join(SEVENZ_KINDS_QUICK) if ctx.quick else
                                          "words over {%s} of length 1..2 (3 coders) and over {%s} of length 3 (copy, lzma2)" % (",".join(SEVENZ_KINDS_ALL), ",".join(SEVENZ_KINDS_QUICK)))
                                         + " except all-t / no stream, x layouts x AES folder k x {single, chain} x {plain, encoded header}; the same without AES (solid)",
                      "7z_declared_size": "AES folder of one stream declaring %d bytes (members 1..%d, per_file / two_folders, every such folder) and the same without AES"
                                          % (SEVENZ_OVER_LIMIT, 2 if ctx.quick else 3),
                      "zip_member_kinds": "t, b, h, s, z (nested archive), m (__MACOSX) at position k of 1..3 x 4 mechanisms x methods 0, 8",
                      "doc_fib_bits": ("every bit of the 32-byte FibBase (256)" if not ctx.quick else "flags word 0x0A (16) + flag byte 0x13 (8) + lKey 0x0E (32)")
                                      + " flipped alone and together with fEncrypted, on each of the 3 .doc fixtures; all other flag-word bits at once",
                      "zip_flag_bits": "general purpose bits 1..15 alone and with bit 0, on member k of 1..3, methods 0 and 8",
                      "xls_neighbours": "17 record numbers (one bit from 0x002F, 0x2F00) and 5 FILEPASS payload variants at globals index "
                                        + ("1 and last" if ctx.quick else "every index (1 and last for the larger workbooks)") + "; 9 protection records + all, at index 5 and 14",
                      "ooxml_protection": "3 + 4 + 1 protection markups (docx, xlsx, pptx) x 2 documents", "odf_protection": "ods table / odt section protection keys",
                      "pdf_permissions": "/P with each of the 8 defined permission bits cleared and all cleared (9 values) x RC4-40/128 x 4 password pairs; "
                                         + ("AES-128 / AES-256-R5 x {extract cleared, all cleared} x empty passwords" if ctx.quick else "x AES-128/256-R5 x 4 password pairs x 3 seams; AES-256 (R6) with {extract cleared, all cleared} only")}}
    return {"coverage": cov, "failures": fails, "harness_errors": herr,
            "assumptions": [
                "OOXML shell: a compound file carrying the EncryptedPackage stream is 'encrypted'; shells with encryption streams but without "
                "the payload stream are malformed and not judged; a compound file without any of the three streams is 'plain'",
                "ODF: an encryption-data child on ANY single file entry makes the package encrypted (ODF 1.2 part 3 encrypts per entry); the "
                "manifest may use any namespace prefix and any XML encoding (UTF-16 with BOM is generated)",
                "XLS: FILEPASS anywhere in the globals substream (record index 1 .. last before EOF) counts as encrypted, as the quantifier says; "
                "index 0 (before BOF) is not generated",
                "PPT: of several UserEditAtoms in the PowerPoint Document stream the CURRENT one (written last, the one the Current User stream "
                "points at; [MS-PPT] 2.3.3 / 2.1.2) says whether the file is encrypted (32 bytes with encryptSessionPersistIdRef); earlier edits "
                "are history.  A plain current edit after an ENCRYPTED earlier one is not generated (PowerPoint rewrites the file when the "
                "password is removed)",
                "DOC: clearing the FIB bit of the really encrypted fixture leaves cipher text behind: that direction is not judged",
                "DOC: fEncrypted (bit 8 of the FibBase flags word) is the only field of the FibBase that says 'encrypted' ([MS-DOC] 2.5.2: "
                "fObfuscated and lKey MUST be ignored when fEncrypted is 0): a plain fixture with any other FibBase bit flipped may fail to "
                "parse but is never 'encrypted'; with fEncrypted set and any other bit flipped it is 'encrypted' (unless wIdent is damaged: not judged)",
                "ZIP: general purpose bits 1..15 without bit 0 are not encryption (compression options, data descriptor, patch data, UTF-8, "
                "reserved); bits 6 and 13 alone are not judged; bit 0 together with any other bit is encryption",
                "XLS: only record number 0x002F is FILEPASS; whatever its payload says (XOR obfuscation, RC4, CryptoAPI) the workbook is "
                "encrypted; non-zero PROTECT / PASSWORD / WINDOWPROTECT / OBJPROTECT / SCENPROTECT / PROT4REV / PROT4REVPASS / FILESHARING / "
                "WRITEPROT records are editing protection of a readable workbook: plain",
                "OOXML / ODF: editing and write-protection markup with password hashes (documentProtection, writeProtection, sheetProtection, "
                "workbookProtection, fileSharing, modifyVerifier, table:protection-key, text:protection-key) does not encrypt the package: plain",
                "PDF: the permission bits of /P do not change what 'empty user password' means: the file opens without a password and must "
                "extract like its unencrypted original",
                "PDF: owner password '' means 'same as user password' (ISO 32000 Algorithm 3); a PDF is 'needing a password' iff its user "
                "password is non-empty; with an empty user password the extraction (to_json minus filename/file_extension/file_path/"
                "folder_path) must equal that of the same document written without encryption by the same writer",
                "PDF/AES: files are written by pypdf + the library's AES in another process (library AES cross-checked against verif.ref.aes "
                "on FIPS-197 vectors and CBC blocks in that process); 'fresh' = first extraction of the interpreter, 'warm' = after an "
                "AES-256-R5 file",
                "ZIP: flag bit 0 on a non-directory member (supported, unsupported, hidden or nested name) makes the archive encrypted; "
                "unsupported method / bad CRC / data-descriptor / UTF-8 flag members are plain",
                "7z: a 7zAES coder in any folder or in the encoded header's folder (7z -mhe) makes the archive encrypted (libarchive agrees)",
                "7z: that holds whatever the members of the AES folder are called and however large they are declared (unsupported type, hidden, "
                "nested archive, __MACOSX, over the per-member limit) and whatever else the archive holds (plain folders with extractable members, "
                "empty files): the input is 'encrypted of container kind 7z' (7z l -slt reports Encrypted = + for such members)",
                "compound files: directory entry names compare case-insensitively ([MS-CFB] 2.6.4), so a file whose entry names differ from the "
                "usual spelling in case only (Workbook / WORKBOOK, EncryptedPackage / ENCRYPTEDPACKAGE, WordDocument / worddocument ...) is the same "
                "document: encrypted stays encrypted, plain stays plain (the library's readers - olefile, xlrd - look names up case-insensitively)",
                "EPUB: EncryptedData for a content document, or META-INF/rights.xml, or both = DRM-protected; an encryption.xml without "
                "EncryptedData, files of those names outside META-INF and the words in text are plain",
                "EPUB: an EncryptedData entry whose EncryptionMethod is a cipher (xmlenc aes128-cbc / aes256-cbc, xmlenc11 aes256-gcm) or absent on any "
                "resource makes the book encrypted, whatever other entries (font obfuscation) stand before or after it; a book whose "
                "encryption.xml lists ONLY obfuscated fonts (http://www.idpf.org/2008/embedding, http://ns.adobe.com/pdf/enc#RC) is "
                "not encrypted: EPUB OCF 3 says 'obfuscation is not encryption', all content documents are readable (constant "
                "EPUB_OBFUSCATION_ONLY = %r; 'any' = not judged)" % EPUB_OBFUSCATION_ONLY,
                "PDF large streams: the long content stream / image survives the pypdf rewrite as ONE stream of the intended length (self-"
                "checked on the written files); 'same' includes the image bytes",
                "CLI: 'rejected' = non-zero exit status and nothing on stdout; the exception type is observed by a spy around read_file",
                "nested encrypted documents inside plain archives / mails are not generated (the statement is about the input's own container)"]}
