"""C06 helper: configuration process. Started by C06 with `python -B -m verif.props.c06_worker` and PYTHONHASHSEED set in the
environment of the NEW interpreter (the hash seed is fixed at interpreter start; changing os.environ later has no effect).
Reads one JSON request per line on stdin, answers one JSON line per request on the original stdout.

    {"op": "hello"}                               -> {"hashseed": env value, "randomized": flag, "probe": hash("verif-c06"),
                                                      "library": directory the sharepoint2text package would be imported from}
    {"op": "sweep", "items": [[id, file, name]..]} -> {"results": [{"id", "in", "d1", "d2", "d3", "mut", "pos", "n"}...]}
          d1 = digest of the FIRST extraction of the document in this process, d2 = digest of a second extraction in the same
          process (fresh BytesIO over the same bytes), mut = the caller's buffer content changed / buffer closed,
          pos = stream position the library left the caller's buffer at (recorded, not judged)
          d3 = digest of a third extraction that is handed the buffer object of the first one again, as the library left it
          with "once": 1 every document is extracted exactly once (d2 = d3 = d1): the history of the process is then exactly the
          list of items (used for the fresh-process and the warm-process configurations)
    {"op": "paths", "file": f, "name": n} -> {"bad": [[label, a, b]...]} (path histories, see _paths) | {"exc": type name}
    {"op": "json", "file": f, "name": n[, "reuse": 1]} -> {"json": [to_json() of every result]} | {"exc": type name}
          reuse: extract once, then answer with the extraction that is handed the same buffer object again
"""
from __future__ import annotations

import io
import json
import os
import signal
import sys


class _Timeout(BaseException):
    pass


def _alarm(signum, frame):
    raise _Timeout()


def _one(data, name, buf=None):
    from verif.props import c06_obs as O
    buf = io.BytesIO(data) if buf is None else buf
    n = -1
    try:
        res = O.extract(data, name, buf)
        n = len(res)
        d = O.digest_of(res)
    except _Timeout:
        raise
    except Exception as e:  # noqa
        d = "exc:" + O.exc_name(e)
    try:
        mut = buf.getvalue() != data
        pos = buf.tell()
    except ValueError:
        mut, pos = "closed", None
    return d, mut, pos, n, buf


def _alt_path(name):
    """a path in another folder, with another file name and the same extension (the router still picks the same extractor)"""
    d, b = os.path.split(name)
    return os.path.join((d or "c06") + "-elsewhere", "moved-" + b)


def _paths(data, name):
    """path histories in ONE process: extract with the path, with path=None, with another path (other folder, other file name,
    same extension) and with path=None again.  -> list of [label, a, b] of JSON TEXTS that had to be equal and are not:
    every earlier result still dumps what it dumped right after its own extraction (a later extraction, with whatever path,
    changes no earlier result), and the two path=None extractions agree (the result is a function of (bytes, path), not of
    the paths seen before)."""
    from sharepoint2text.parsing.router import get_extractor
    from verif.props import c06_obs as O
    fn = get_extractor(name)
    held, first = [], []
    for label, path in (("path", name), ("none-1", None), ("other-path", _alt_path(name)), ("none-2", None)):
        try:
            res = list(fn(io.BytesIO(data), path))
            txt = O.jtext(O.results_json(res))
        except _Timeout:
            raise
        except Exception as e:  # noqa
            res, txt = None, "exc:" + O.exc_name(e)
        held.append((label, res))
        first.append(txt)
    bad = []
    for (label, res), txt in zip(held, first):
        if res is None:
            continue
        try:
            now = O.jtext(O.results_json(res))
        except Exception as e:  # noqa
            now = "exc:" + O.exc_name(e)
        if now != txt:
            bad.append(["earlier-result-changed:" + label, txt, now])
    if first[1] != first[3]:
        bad.append(["none-after-other-path", first[1], first[3]])
    return bad


def main():
    out = os.fdopen(os.dup(1), "w")
    os.dup2(2, 1)
    sys.stdout = sys.stderr
    import logging
    import warnings
    warnings.simplefilter("ignore")
    logging.disable(logging.CRITICAL)
    signal.signal(signal.SIGPROF, _alarm)
    from verif.props import c06_obs as O
    for line in sys.stdin:
        line = line.strip()
        if not line:
            continue
        req = json.loads(line)
        op = req.get("op")
        if op == "hello":
            ans = {"hashseed": os.environ.get("PYTHONHASHSEED"), "randomized": int(sys.flags.hash_randomization),
                   "probe": hash("verif-c06"), "pid": os.getpid(), "library": O.library_location()}
        elif op == "sweep":
            results = []
            once = bool(req.get("once"))
            for ident, path, name in req["items"]:
                with open(path, "rb") as f:
                    data = f.read()
                rec = {"id": ident, "in": O._sha(data)}
                try:
                    signal.setitimer(signal.ITIMER_PROF, 120)      # CPU seconds
                    d1, mut1, pos1, n, buf1 = _one(data, name)
                    d2, mut2, d3 = d1, False, d1
                    if not once:
                        d2, mut2, pos2, _, _ = _one(data, name)
                    if not mut1 and not once:
                        d3, mut3, _, _, _ = _one(data, name, buf1)      # the caller hands the SAME buffer in again, as it was left
                        mut2 = mut2 or mut3
                    dp = None
                    if req.get("paths") and not once and d1.startswith("ok:"):
                        dp = [b[0] for b in _paths(data, name)] or None
                    signal.setitimer(signal.ITIMER_PROF, 0)
                    rec.update({"d1": d1, "d2": d2, "d3": d3, "mut": mut1 or mut2, "pos": pos1, "n": n, "dp": dp})
                except _Timeout:
                    rec.update({"d1": "timeout", "d2": "timeout", "d3": "timeout", "mut": False, "pos": None, "n": -1})
                results.append(rec)
            ans = {"results": results}
        elif op == "json":
            with open(req["file"], "rb") as f:
                data = f.read()
            try:
                buf = io.BytesIO(data)
                if req.get("reuse"):
                    try:
                        O.extract(data, req["name"], buf)
                    except Exception:  # noqa
                        pass
                ans = {"json": json.loads(O.jtext(O.results_json(O.extract(data, req["name"], buf))))}
            except Exception as e:  # noqa
                ans = {"exc": O.exc_name(e)}
        elif op == "paths":
            with open(req["file"], "rb") as f:
                data = f.read()
            try:
                bad = _paths(data, req["name"])
                ans = {"bad": [[lab, (json.loads(a) if not a.startswith("exc:") else {"exc": a}),
                                (json.loads(b) if not b.startswith("exc:") else {"exc": b})] for lab, a, b in bad]}
            except Exception as e:  # noqa
                ans = {"exc": O.exc_name(e)}
        elif op == "quit":
            break
        else:
            ans = {"error": "unknown op"}
        out.write(json.dumps(ans) + "\n")
        out.flush()


if __name__ == "__main__":
    main()
