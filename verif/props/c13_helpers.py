"""Helpers of C13: ADM blocks -> HTML / XHTML table markup, typed spreadsheet value comparison, cell text comparison.

Nothing here shares code with the library's extractors.
"""
from __future__ import annotations

import datetime as _dt
import re

from verif.gen.tokens import TOKEN_FIND

HTML_VARIANTS = ("p", "bare", "sections", "implied")     # "implied" only for text/html (optional end tags omitted)


# ------------------------------------------------------------------------------------------------ HTML renderer

def html_blocks(blocks, variant: str = "p") -> str:
    """ADM blocks (only "p" with ["t", tok] inlines and "tbl") -> markup that is valid both as HTML5 and XHTML,
    except variant "implied" (HTML5 only: the optional end tags </td>, </th>, </tr>, </tbody> are omitted).

       "p"         every cell paragraph is a <p> element
       "bare"      a cell holding exactly one paragraph holds its text directly (the usual hand-written form)
       "sections"  like "bare"; tables with >= 2 rows put row 0 in <thead> with <th> cells, the rest in <tbody>
       "implied"   like "bare" with the optional end tags of td / tr left out (HTML5 13.1.2.4)
    """
    out = []
    for b in blocks:
        if b[0] == "p":
            out.append("<p>%s</p>" % _inl(b[1]))
        elif b[0] == "tbl":
            out.append(_table(b[1], variant))
        else:
            raise NotImplementedError("C13 html renderer: block %r" % (b[0],))
    return "".join(out)


def _inl(xs) -> str:
    s = []
    for x in xs:
        if x[0] != "t":
            raise NotImplementedError("C13 html renderer: inline %r" % (x[0],))
        s.append(x[1])
    return "".join(s)


def _cell(cell, variant) -> str:
    if variant != "p" and len(cell) == 1 and cell[0][0] == "p":
        return _inl(cell[0][1])
    return html_blocks(cell, variant)


def _table(rows, variant) -> str:
    if not rows or any(not r for r in rows):
        raise NotImplementedError("a table needs rows and every row needs a cell")
    x = ["<table>"]
    if variant == "implied":
        for row in rows:
            x.append("<tr>")
            for cell in row:
                x.append("<td>" + _cell(cell, variant))
        x.append("</table>")
        return "".join(x)
    head = variant == "sections" and len(rows) >= 2
    for i, row in enumerate(rows):
        if head and i == 0:
            x.append("<thead>")
        if head and i == 1:
            x.append("<tbody>")
        tag = "th" if head and i == 0 else "td"
        x.append("<tr>" + "".join("<%s>%s</%s>" % (tag, _cell(c, variant), tag) for c in row) + "</tr>")
        if head and i == 0:
            x.append("</thead>")
    if head:
        x.append("</tbody>")
    x.append("</table>")
    return "".join(x)


# ------------------------------------------------------------------------------------------------ cell text

def cell_tokens(value):
    """-> (tokens in order, separated?, residue) of a returned cell. separated: every two consecutive tokens have at
    least one white-space character between them; residue: the non-white-space text that is not a token."""
    if value is None:
        return [], True, ""
    s = value if isinstance(value, str) else str(value)
    toks, sep, res, pos = [], True, [], 0
    for m in TOKEN_FIND.finditer(s):
        between = s[pos:m.start()]
        if toks and not any(ch.isspace() for ch in between):
            sep = False
        res.append(between)
        toks.append(m.group(0))
        pos = m.end()
    res.append(s[pos:])
    return toks, sep, "".join("".join(res).split())


def is_empty_value(v) -> bool:
    return v is None or (isinstance(v, str) and v.strip() == "")


# ------------------------------------------------------------------------------------------------ typed values

_ISO_DUR = re.compile(r"^P(?:(\d+)D)?(?:T(?:(\d+)H)?(?:(\d+)M)?(?:(\d+(?:\.\d+)?)S)?)?$")
_HMS = re.compile(r"^(\d+):(\d{1,2}):(\d{1,2}(?:\.\d+)?)$")
_TD_STR = re.compile(r"^(?:(-?\d+) days?, )?(\d+):(\d{2}):(\d{2}(?:\.\d+)?)$")


def _seconds_of(v):
    """Every reading of `v` as an amount of time in seconds (set of floats): timedelta, time of day, ISO 8601 duration,
    [h]:mm:ss text, str(timedelta), a number of seconds, a fraction of a day."""
    out = set()
    if isinstance(v, bool):
        return out
    if isinstance(v, _dt.timedelta):
        out.add(v.total_seconds())
    elif isinstance(v, _dt.time):
        out.add(v.hour * 3600 + v.minute * 60 + v.second + v.microsecond / 1e6)
    elif isinstance(v, (int, float)):
        out.add(float(v))
        out.add(float(v) * 86400.0)
    elif isinstance(v, str):
        s = v.strip()
        m = _ISO_DUR.match(s)
        if m and s not in ("P", "PT"):
            d, h, mi, sec = m.groups()
            out.add(int(d or 0) * 86400 + int(h or 0) * 3600 + int(mi or 0) * 60 + float(sec or 0))
        m = _HMS.match(s)
        if m:
            out.add(int(m.group(1)) * 3600 + int(m.group(2)) * 60 + float(m.group(3)))
        m = _TD_STR.match(s)
        if m:
            out.add(int(m.group(1) or 0) * 86400 + int(m.group(2)) * 3600 + int(m.group(3)) * 60 + float(m.group(4)))
        try:
            t = _dt.time.fromisoformat(s)
            out.add(t.hour * 3600 + t.minute * 60 + t.second + t.microsecond / 1e6)
        except ValueError:
            pass
    return out


def _as_datetime(v):
    if isinstance(v, _dt.datetime):
        return v
    if isinstance(v, _dt.date):
        return _dt.datetime(v.year, v.month, v.day)
    if isinstance(v, str):
        try:
            return _dt.datetime.fromisoformat(v.strip())
        except ValueError:
            return None
    return None


def _num_eq(got, want) -> bool:
    if isinstance(got, bool) or not isinstance(got, (int, float)):
        return False
    if got == want:
        return True
    return abs(float(got) - float(want)) <= 1e-12 * max(abs(float(want)), 1e-300)


def value_matches(spec, got) -> bool:
    """Does the returned cell value `got` keep the value of the source cell `spec` (ADM cell with tokens filled in)?
    The acceptance sets are deliberately wide (see the module docstring of C13: assumptions)."""
    if spec is None:
        return is_empty_value(got)
    k = spec[0]
    if k == "fml":
        return value_matches(spec[2], got)
    if k == "s":
        if spec[1] == "":
            return is_empty_value(got)
        if not isinstance(got, str):
            return False
        if "\n" in spec[1]:
            want = spec[1].split("\n")
            toks, sep, res = cell_tokens(got)
            return toks == want and sep and not res
        return got.strip() == spec[1]
    if k in ("i", "f"):
        return _num_eq(got, spec[1])
    if k == "b":
        return isinstance(got, bool) and got == spec[1]
    if k == "d":
        d = _dt.date.fromisoformat(spec[1])
        g = _as_datetime(got)
        return g is not None and g.tzinfo is None and g == _dt.datetime(d.year, d.month, d.day)
    if k == "dt":
        g = _as_datetime(got)
        return g is not None and g.tzinfo is None and g == _dt.datetime.fromisoformat(spec[1])
    if k == "tm":
        t = _dt.time.fromisoformat(spec[1])
        want = t.hour * 3600 + t.minute * 60 + t.second
        return any(abs(x - want) < 1e-4 for x in _seconds_of(got))
    if k == "dur":
        return any(abs(x - spec[1]) < 1e-4 for x in _seconds_of(got))
    if k == "err":
        return isinstance(got, str) and got.strip().startswith("#")
    raise ValueError("cell spec %r" % (spec,))
