"""Helpers of C13: ADM blocks -> HTML / XHTML table markup, typed spreadsheet value comparison, cell text comparison.

Nothing here shares code with the library's extractors.
"""
from __future__ import annotations

import datetime as _dt
import re

from verif.gen.tokens import TOKEN_FIND

HTML_VARIANTS = ("p", "bare", "sections", "implied")     # "implied" only for text/html (optional end tags omitted)
HTML_SECTIONS = ("none", "body", "head", "foot", "headfoot", "bodies")
HTML_OMIT = "crsp"          # end tags that may be left out: c = </td> </th>, r = </tr>, s = </thead> </tbody> </tfoot>, p = </p>
HTML_FLAGS = ("ws", "attr", "upper", "cg", "sc", "cm")
HTML_XML_ONLY = ("sc",)     # spellings only an XML document can have (EPUB content documents)
INLINE_WRAPS = ("b", "i", "em", "span", "code")   # the inline element put around every second run of a paragraph ("wrap")


# ------------------------------------------------------------------------------------------------ HTML renderer

def html_spelling(variant) -> dict:
    """normal form of the "html" option of a case: one of the four named variants (kept for the fingerprints recorded with
    them) or a dict
        {"v": "p" | "bare",       cell paragraphs as <p> elements / a single paragraph as bare text
         "sec": one of HTML_SECTIONS   none: rows directly in <table>; body: all rows in one <tbody>; head: row 0 in <thead>, the
                                  rest in <tbody>; foot: last row in <tfoot>, the rest in <tbody>; headfoot: both (a middle <tbody>
                                  only if there are middle rows); bodies: every row in a <tbody> of its own
         "omit": subset of "crsp"  optional end tags left out (HTML5 13.1.2.4); text/html only
         "ws": 1     line breaks and indentation between the table tags (and after the text of a cell whose end tag is omitted)
         "attr": 1   attributes on the cell tags: th scope=row|col (unquoted), td class="x" colspan="1" rowspan="1"
         "upper": 1  upper-case tag names (text/html only)
         "cg": 1     a <colgroup> with one void <col> per column before the rows
         "sc": 1|2   XML only: every element without content is written as an empty-element tag, the way every XML serializer
                     does (<td/>, <th/>, <p/>; 2: with a blank before the slash, <td />). In text/html the slash of a non-void
                     start tag is ignored, so the spelling does not exist there
         "cm": 1     a comment holding a word between the rows, between the cells and inside every cell
         "wrap": name  the inline element of INLINE_WRAPS written around every second run of a paragraph (default "b")}
    Which cells are <th> is part of the table itself (["tbl", rows, {"th": mask}]), not of the spelling."""
    if isinstance(variant, dict):
        sp = {"v": "bare", "sec": "none", "omit": ""}
        sp.update(variant)
        if sp["v"] not in ("p", "bare") or sp["sec"] not in HTML_SECTIONS or any(ch not in HTML_OMIT for ch in sp["omit"]):
            raise ValueError("html spelling %r" % (variant,))
        for k in sp:
            if k not in ("v", "sec", "omit", "wrap") + HTML_FLAGS:
                raise ValueError("html spelling key %r" % (k,))
        if sp.get("wrap", "b") not in INLINE_WRAPS or sp.get("sc") not in (None, 0, 1, 2):
            raise ValueError("html spelling %r" % (variant,))
        return sp
    if variant == "p":
        return {"v": "p", "sec": "none", "omit": ""}
    if variant == "bare":
        return {"v": "bare", "sec": "none", "omit": ""}
    if variant == "sections":
        return {"v": "bare", "sec": "head", "omit": "", "head_th": 1}
    if variant == "implied":
        return {"v": "bare", "sec": "none", "omit": "crs", "legacy_implied": 1}
    raise ValueError("html variant %r" % (variant,))


def html_is_xml_ok(variant) -> bool:
    """can the spelling be written as XHTML (EPUB)? (no omitted end tags, no upper-case names, no unquoted attributes)"""
    sp = html_spelling(variant)
    return not sp["omit"] and not sp.get("upper") and not sp.get("attr")


def html_is_html_ok(variant) -> bool:
    """can the spelling be written as text/html? (no empty-element tags for non-void elements)"""
    sp = html_spelling(variant)
    return not any(sp.get(f) for f in HTML_XML_ONLY)


def html_blocks(blocks, variant="p", xml=False) -> str:
    """ADM blocks (only "p" with ["t", tok] inlines and "tbl") -> markup that is valid both as HTML5 and XHTML as long as
    html_is_xml_ok(variant). See html_spelling for the spellings; the four named variants are

       "p"         every cell paragraph is a <p> element
       "bare"      a cell holding exactly one paragraph holds its text directly (the usual hand-written form)
       "sections"  like "bare"; tables with >= 2 rows put row 0 in <thead> with <th> cells, the rest in <tbody>
       "implied"   like "bare" with the optional end tags of td / tr left out (HTML5 13.1.2.4)
    """
    sp = dict(html_spelling(variant))
    sp["_xml"] = bool(xml)
    return _blocks(blocks, sp)


def _blocks(blocks, sp, in_cell=False) -> str:
    out = []
    for b in blocks:
        if b[0] == "p":
            if in_cell and "p" in sp["omit"]:        # only inside cells: there the cell end / next cell start ends the paragraph
                out.append(_tag(sp, "p") + _inl(b[1], sp))
            else:
                out.append(_elem(sp, "p", "", _inl(b[1], sp)))
        elif b[0] == "h":
            out.append(_elem(sp, "h%d" % b[1], "", _inl(b[2], sp)))
        elif b[0] == "ul":
            out.append(_tag(sp, "ul") + "".join(_elem(sp, "li", "", _cell(it, sp)) for it in b[1]) + _tag(sp, "/ul"))
        elif b[0] == "tbl":
            out.append(_table(b[1], sp, (b[2] if len(b) > 2 else None) or {}, in_cell))
        else:
            raise NotImplementedError("C13 html renderer: block %r" % (b[0],))
    return "".join(out)


def _tag(sp, name, attrs="") -> str:
    if sp.get("upper"):
        name = name.upper()
    return "<%s%s>" % (name, attrs)


def _elem(sp, name, attrs, content) -> str:
    """one element; without content and under the XML spelling "sc" an empty-element tag"""
    if content == "" and sp.get("sc"):
        return "<%s%s%s/>" % (name, attrs, " " if sp["sc"] == 2 else "")
    return _tag(sp, name, attrs) + content + _tag(sp, "/" + name)


def _inl(xs, sp=None) -> str:
    """inlines of one paragraph: ["t", text] runs (every second run of a paragraph is written inside the inline element
    sp["wrap"], so that two adjacent runs are always kept apart by markup only), ["br"] line break, ["a", url, inlines]"""
    sp = sp or {}
    s, nrun = [], 0
    for x in xs:
        if x[0] == "t":
            if nrun % 2:
                w = sp.get("wrap", "b")
                s.append(_tag(sp, w, ' class="x"' if w == "span" else "") + x[1] + _tag(sp, "/" + w))
            else:
                s.append(x[1])
            nrun += 1
        elif x[0] == "br":
            s.append("<br/>" if sp.get("_xml") else _tag(sp, "br"))
        elif x[0] == "tab":
            s.append("\t")                          # a TAB character is inter-word white space in HTML
        elif x[0] == "a":
            s.append(_tag(sp, "a", ' href="%s"' % x[1]) + _inl(x[2], sp) + _tag(sp, "/a"))
            nrun = 0
        else:
            raise NotImplementedError("C13 html renderer: inline %r" % (x[0],))
    return "".join(s)


def _cell(cell, sp) -> str:
    if sp["v"] != "p" and len(cell) == 1 and cell[0][0] == "p":
        return _inl(cell[0][1], sp)
    return _blocks(cell, sp, True)


def _table(rows, sp, extra, nested=False) -> str:
    if not rows or any(not r for r in rows):
        raise NotImplementedError("a table needs rows and every row needs a cell")
    if sp.get("legacy_implied"):
        if extra.get("th"):
            raise NotImplementedError("the named variant 'implied' writes <td> cells only")
        x = ["<table>"]
        for row in rows:
            x.append("<tr>")
            for cell in row:
                x.append("<td>" + _cell(cell, sp))
        x.append("</table>")
        return "".join(x)
    mask = extra.get("th")
    n = len(rows)
    sec = sp["sec"]
    if sp.get("head_th") and n < 2:
        sec = "none"
    if nested and n < 2 and sec in ("head", "foot", "headfoot"):
        sec = "body"                      # a one-row table inside a cell cannot have two sections
    # section of every row
    if sec == "none":
        secs = [None] * n
    elif sec == "body":
        secs = [("tbody", 0)] * n
    elif sec == "bodies":
        secs = [("tbody", i) for i in range(n)]
    else:
        if n < 2:
            raise NotImplementedError("sections %r need two rows" % (sec,))
        secs = [("tbody", 0)] * n
        if sec in ("head", "headfoot"):
            secs[0] = ("thead", 0)
        if sec in ("foot", "headfoot"):
            secs[-1] = ("tfoot", 0)
    omit = sp["omit"]
    nl, ind1, ind2 = ("\n", "  ", "    ") if sp.get("ws") else ("", "", "")
    x = [_tag(sp, "table"), nl]
    if sp.get("cg"):
        x += [_tag(sp, "colgroup"), "".join(_tag(sp, "col") if not html_is_xml_ok_sp(sp) else "<col/>" for _ in range(max(len(r) for r in rows))),
              _tag(sp, "/colgroup"), nl]
    cur = None
    for i, row in enumerate(rows):
        if secs[i] != cur:
            if cur is not None and "s" not in omit:
                x += [_tag(sp, "/" + cur[0]), nl]
            cur = secs[i]
            if cur is not None:
                x += [_tag(sp, cur[0]), nl]
        x += [ind1, _tag(sp, "tr"), nl]
        for j, c in enumerate(row):
            th = bool(mask and mask[i][j]) or bool(sp.get("head_th") and secs[i] and secs[i][0] == "thead")
            name = "th" if th else "td"
            attrs = ""
            if sp.get("attr"):
                attrs = (" scope=%s" % ("col" if i == 0 else "row")) if th else ' class="x" colspan="1" rowspan="1"'
            content = _cell(c, sp) + (_comment(sp) if sp.get("cm") and content_ok(c) else "")
            if "c" not in omit:
                x += [ind2, _elem(sp, name, attrs, content)]
            else:
                x += [ind2, _tag(sp, name, attrs), content]
            x.append(nl)
            if sp.get("cm"):
                x.append(_comment(sp))
        if "r" not in omit:
            x += [ind1, _tag(sp, "/tr"), nl]
        if sp.get("cm"):
            x.append(_comment(sp))
    if cur is not None and "s" not in omit:
        x += [_tag(sp, "/" + cur[0]), nl]
    x.append(_tag(sp, "/table"))
    return "".join(x)


def content_ok(cell) -> bool:
    """a comment is put inside the cells that have content (an empty cell stays empty)"""
    return bool(cell)


def _comment(sp) -> str:
    return "<!-- Xcmmnt x -->"


def html_is_xml_ok_sp(sp) -> bool:
    return not sp["omit"] and not sp.get("upper") and not sp.get("attr")


# ------------------------------------------------------------------------------------------------ cell text

def cell_tokens(value):
    """-> (tokens in order, separated?, residue) of a returned cell. separated: every two consecutive tokens have at
    least one white-space character between them; residue: the non-white-space text that is not a token."""
    if value is None:
        return [], True, ""
    s = value if isinstance(value, str) else str(value)
    toks, sep, res, pos = [], True, [], 0
    for m in TOKEN_FIND.finditer(s):
        between = s[pos:m.start()]
        if toks and not any(ch.isspace() for ch in between):
            sep = False
        res.append(between)
        toks.append(m.group(0))
        pos = m.end()
    res.append(s[pos:])
    return toks, sep, "".join("".join(res).split())


def is_empty_value(v) -> bool:
    return v is None or (isinstance(v, str) and v.strip() == "")


# ------------------------------------------------------------------------------------------------ typed values

_ISO_DUR = re.compile(r"^P(?:(\d+)D)?(?:T(?:(\d+)H)?(?:(\d+)M)?(?:(\d+(?:\.\d+)?)S)?)?$")
_HMS = re.compile(r"^(\d+):(\d{1,2}):(\d{1,2}(?:\.\d+)?)$")
_TD_STR = re.compile(r"^(?:(-?\d+) days?, )?(\d+):(\d{2}):(\d{2}(?:\.\d+)?)$")


def _seconds_of(v):
    """Every reading of `v` as an amount of time in seconds (set of floats): timedelta, time of day, ISO 8601 duration,
    [h]:mm:ss text, str(timedelta), a number of seconds, a fraction of a day."""
    out = set()
    if isinstance(v, bool):
        return out
    if isinstance(v, _dt.timedelta):
        out.add(v.total_seconds())
    elif isinstance(v, _dt.time):
        out.add(v.hour * 3600 + v.minute * 60 + v.second + v.microsecond / 1e6)
    elif isinstance(v, (int, float)):
        out.add(float(v))
        out.add(float(v) * 86400.0)
    elif isinstance(v, str):
        s = v.strip()
        m = _ISO_DUR.match(s)
        if m and s not in ("P", "PT"):
            d, h, mi, sec = m.groups()
            out.add(int(d or 0) * 86400 + int(h or 0) * 3600 + int(mi or 0) * 60 + float(sec or 0))
        m = _HMS.match(s)
        if m:
            out.add(int(m.group(1)) * 3600 + int(m.group(2)) * 60 + float(m.group(3)))
        m = _TD_STR.match(s)
        if m:
            out.add(int(m.group(1) or 0) * 86400 + int(m.group(2)) * 3600 + int(m.group(3)) * 60 + float(m.group(4)))
        try:
            t = _dt.time.fromisoformat(s)
            out.add(t.hour * 3600 + t.minute * 60 + t.second + t.microsecond / 1e6)
        except ValueError:
            pass
    return out


def _as_datetime(v):
    if isinstance(v, _dt.datetime):
        return v
    if isinstance(v, _dt.date):
        return _dt.datetime(v.year, v.month, v.day)
    if isinstance(v, str):
        try:
            return _dt.datetime.fromisoformat(v.strip())
        except ValueError:
            return None
    return None


def _num_eq(got, want) -> bool:
    if isinstance(got, bool) or not isinstance(got, (int, float)):
        return False
    if got == want:
        return True
    return abs(float(got) - float(want)) <= 1e-12 * max(abs(float(want)), 1e-300)


def value_matches(spec, got) -> bool:
    """Does the returned cell value `got` keep the value of the source cell `spec` (ADM cell with tokens filled in)?
    The acceptance sets are deliberately wide (see the module docstring of C13: assumptions)."""
    if spec is None:
        return is_empty_value(got)
    k = spec[0]
    if k == "fml":
        return value_matches(spec[2], got)
    if k == "s":
        if spec[1] == "":
            return is_empty_value(got)
        if not isinstance(got, str):
            return False
        if "\n" in spec[1]:
            want = spec[1].split("\n")
            toks, sep, res = cell_tokens(got)
            return toks == want and sep and not res
        return got.strip() == spec[1]
    if k in ("i", "f"):
        return _num_eq(got, spec[1])
    if k == "b":
        return isinstance(got, bool) and got == spec[1]
    if k == "d":
        d = _dt.date.fromisoformat(spec[1])
        g = _as_datetime(got)
        return g is not None and g.tzinfo is None and g == _dt.datetime(d.year, d.month, d.day)
    if k == "dt":
        g = _as_datetime(got)
        return g is not None and g.tzinfo is None and g == _dt.datetime.fromisoformat(spec[1])
    if k == "tm":
        t = _dt.time.fromisoformat(spec[1])
        want = t.hour * 3600 + t.minute * 60 + t.second
        return any(abs(x - want) < 1e-4 for x in _seconds_of(got))
    if k == "dur":
        return any(abs(x - spec[1]) < 1e-4 for x in _seconds_of(got))
    if k == "err":
        return isinstance(got, str) and got.strip().startswith("#")
    raise ValueError("cell spec %r" % (spec,))
