"""C05 helper: type-directed instances of every registered dataclass.

The registry is discovered reflectively (serialization._get_type_registry). For a class C the *baseline* instance has
every field at the baseline value of its type hint (never the dataclass default, so that a field dropped on the way
back is visible); a *deviation* replaces the value of ONE field by another member of the field's domain. A case is

    {"cls": class name, "dev": [[field name, label], ...]}          (<= 2 deviations, fields distinct)

and build(case) constructs the instance. Domains (label -> value), by type hint, first entry = baseline:
    str            tok | empty "" | _type | _bytes | _bytesio | clsname (a registered class name) | nonbmp | b64 "QUJD"
                   | nfd (decomposed accent) | both:<x> for every x of the decoration alphabet (x tok x)
                   and, for a str-typed FIELD of the root class (str / Optional[str]), the *decorated* strings
                       pos:<x1,..,xn>   pos in {pre, suf, mid, both}, x_i in DECOR (8 symbols: sp nl cr tab bom nbsp zwsp nul)
                       pre: x.. tok | suf: tok x.. | mid: tok x.. tok' | both: x.. tok ..x (mirrored)
                   for every sequence up to the length DECOR_BOUNDS gives the position (level 1, quick: pre/suf <= 2, mid/both 1
                   = 160 strings per field; level 2, thorough: all positions <= 2 = 288; level 3, thorough for the classes that
                   run constructor code of their own (has_ctor_code, discovered reflectively): pre/suf/mid <= 3 = 1824).
                   These are the strings that normalising constructors (__post_init__: strip & co.) act on; from_json
                   constructs a second time, so a normalisation that is not idempotent shows as json-equal / content-equal.
                   Decorated strings deviate alone (never in the pairs of the thorough tier, except both:<x>).
    int            7 | 0 | -1 | big (2**63)          bool  True | False         float  1.5 | 0.0 | -2.25 | 1e300
    bytes          3 bytes | empty | 4 bytes         BytesIO  the same + "pos" (4 bytes, stream position 2) + "end" (position at end)
    Optional[T]/T|None   dom(T) + none
    List[T]        [b] | [] | [b,b'] | [d] for every deviation d of T
    Dict[str,T]    {tok: b} | {} | {k: v} for k in marker keys x v in dom(T) | {tok: d} for deviations d of T | {tok: b, _type: b}
    Any            tok | none, int, float, bool, marker strings, both:<x> (reachable from spreadsheet cells)  and, flagged UNREACHABLE:
                   marker dicts, plain dict, nested list, bytes, datetime, date, time, timedelta, Decimal
                   (marker KEYS of a Dict[str, T] field are flagged unreachable too unless T is Any: only XlsSheet rows are
                   keyed by document content, every other dict field has keys that are literals of the extractor code)
    dataclass D    baseline(D) | min (only the required fields) | sub (baseline of a registered strict subclass)
    Protocol P (not a dataclass, e.g. ImageInterface)   baseline of each registered class deriving from P
Unknown hints raise TypeError (a new kind of field must be given a domain, it silently joins the obligation otherwise).
Every value is produced by a factory, so BytesIO / lists are fresh per instance. Tokens come from Tokens(seed):
VERIF_SEED changes the spelling of tokens only, never labels or cases.
"""
from __future__ import annotations

import dataclasses
import datetime
import decimal
import io
import types
import typing

from verif.gen.tokens import Tokens
from verif.props.c05_corpus import CLASS_NAME, DECOR

MARKER_KEYS = ["_type", "_bytes", "_bytesio", CLASS_NAME, ""]
MAX_DEPTH = 4

# decoration alphabet: characters that text normalisers treat specially. sp nl cr tab nbsp are white space for str.strip(),
# bom zwsp nul are not (but are what "clean up" code tends to remove as well)
DECOR_CHAR = dict(DECOR)
DECOR_POS = ["pre", "suf", "mid", "both"]
AFFLEN_MAX = 3


def decor_text(names):
    return "".join(DECOR_CHAR[n] for n in names)


def decorate(pos, names, tok, tok2=None):
    """the decorated string of a position and a sequence of DECOR names"""
    s = decor_text(names)
    if pos == "pre":
        return s + tok
    if pos == "suf":
        return tok + s
    if pos == "mid":
        return tok + s + (tok2 if tok2 is not None else tok)
    if pos == "both":
        return s + tok + s[::-1]
    raise KeyError(pos)


# longest sequence per position for the three decoration levels: 1 = quick; 2 = thorough; 3 = thorough, classes that run
# code of their own when constructed (has_ctor_code: the only place where from_json can treat one class's strings differently)
DECOR_BOUNDS = {1: {"pre": 2, "suf": 2, "mid": 1, "both": 1}, 2: {"pre": 2, "suf": 2, "mid": 2, "both": 2},
                3: {"pre": 3, "suf": 3, "mid": 3, "both": 2}}
LEVEL_MAX = 3


def has_ctor_code(cls) -> bool:
    """does constructing an instance run code other than the generated field assignments?"""
    return hasattr(cls, "__post_init__") or cls.__setattr__ is not object.__setattr__ or \
        any(not f.init for f in dataclasses.fields(cls))


def decor_sequences(level):
    """[(pos, names)] in the canonical order: shorter sequences first, then position, then sequence (alphabet order);
    the list of a level is a subsequence of the list of the next level."""
    import itertools
    out = []
    names = [n for n, _ in DECOR]
    bounds = DECOR_BOUNDS[max(1, min(level, LEVEL_MAX))]
    for ln in range(1, AFFLEN_MAX + 1):
        for pos in DECOR_POS:
            if ln > bounds[pos]:
                continue
            for seq in itertools.product(names, repeat=ln):
                out.append((pos, list(seq)))
    return out


def decor_label(pos, names):
    return "%s:%s" % (pos, ",".join(names))


def parse_decor_label(label):
    """-> (pos, names) or None"""
    if not isinstance(label, str) or ":" not in label:
        return None
    pos, _, rest = label.partition(":")
    names = rest.split(",")
    if pos not in DECOR_POS or not names or any(n not in DECOR_CHAR for n in names) or len(names) > AFFLEN_MAX:
        return None
    return pos, names


class Entry:
    __slots__ = ("label", "make", "unreach")

    def __init__(self, label, make, unreach=False):
        self.label = label
        self.make = make
        self.unreach = unreach


PAIR_DECOR = ("sp", "bom")    # the decorations that take part in two-field deviations: one white-space, one other
_LITE_ALONE = {decor_label("both", [n]) for n, _ in DECOR if n not in PAIR_DECOR}


def _lite(tok):
    """both:<x> for every x of the decoration alphabet (the decorated strings that every str position gets)"""
    return [Entry(decor_label("both", [n]), (lambda n=n: decorate("both", [n], tok))) for n, _ in DECOR]


def registry():
    from sharepoint2text.parsing.extractors import serialization as S
    return dict(S._get_type_registry())


def instantiable(cls) -> bool:
    return not getattr(cls, "_is_protocol", False)


class Domains:
    def __init__(self, seed: int):
        self.seed = seed
        self.reg = registry()
        tk = Tokens(seed)
        self.tok = [tk.new("B") for _ in range(8)]
        self.key = tk.new("K")
        self._hints = {}
        self._fdom = {}
        self._devc = {}

    def hints(self, cls):
        h = self._hints.get(cls)
        if h is None:
            h = typing.get_type_hints(cls)
            self._hints[cls] = h
        return h

    # ---- per-type domains ---------------------------------------------------------------------------------
    def dom(self, tp, depth=0, slot=0):
        """list of Entry; [0] is the baseline. slot picks the token used for str baselines (distinct per field)."""
        tok = self.tok[slot % len(self.tok)]
        origin = typing.get_origin(tp)
        if tp is typing.Any:
            return self._any(tok)
        if tp is str:
            return [Entry("tok", lambda: tok), Entry("empty", lambda: ""), Entry("_type", lambda: "_type"),
                    Entry("_bytes", lambda: "_bytes"), Entry("_bytesio", lambda: "_bytesio"), Entry("clsname", lambda: CLASS_NAME),
                    Entry("nonbmp", lambda: "\U0001F600éא"), Entry("b64", lambda: "QUJD"),
                    Entry("nfd", lambda: tok + "e\u0301")] + _lite(tok)
        if tp is bool:
            return [Entry("True", lambda: True), Entry("False", lambda: False)]
        if tp is int:
            return [Entry("7", lambda: 7), Entry("0", lambda: 0), Entry("-1", lambda: -1), Entry("big", lambda: 2 ** 63)]
        if tp is float:
            return [Entry("1.5", lambda: 1.5), Entry("0.0", lambda: 0.0), Entry("-2.25", lambda: -2.25), Entry("1e300", lambda: 1e300)]
        if tp is bytes:
            return [Entry("b3", lambda: b"\x00\xff\x7f"), Entry("b0", lambda: b""), Entry("b4", lambda: b"\x89PNG")]
        if tp is io.BytesIO:
            def pos(n):
                def mk():
                    b = io.BytesIO(b"\x89PNG")
                    b.seek(n)
                    return b
                return mk
            return [Entry("io3", lambda: io.BytesIO(b"\x00\xff\x7f")), Entry("io0", lambda: io.BytesIO(b"")),
                    Entry("io4", lambda: io.BytesIO(b"\x89PNG")), Entry("pos", pos(2)), Entry("end", pos(4))]
        if tp is type(None):
            return [Entry("none", lambda: None)]
        if origin is typing.Union or origin is types.UnionType:
            args = typing.get_args(tp)
            out = []
            for a in args:
                if a is type(None):
                    continue
                out += self.dom(a, depth, slot)
            if type(None) in args:
                out.append(Entry("none", lambda: None))
            return out
        if origin in (list, typing.List):
            args = typing.get_args(tp)
            inner = self.dom(args[0] if args else typing.Any, depth + 1, slot)
            b = inner[0]
            b2 = inner[1] if len(inner) > 1 else inner[0]
            if depth >= MAX_DEPTH:
                return [Entry("[]", lambda: [])]
            out = [Entry("[b]", lambda: [b.make()], b.unreach), Entry("[]", lambda: []),
                   Entry("[b,%s]" % b2.label, lambda: [b.make(), b2.make()], b.unreach or b2.unreach)]
            for d in inner[1:]:
                out.append(Entry("[%s]" % d.label, (lambda d=d: [d.make()]), d.unreach))
            return out
        if origin in (dict, typing.Dict):
            args = typing.get_args(tp)
            if args and args[0] is not str:
                raise TypeError("no domain for dict key type %r" % (args[0],))
            vt = args[1] if len(args) > 1 else typing.Any
            inner = self.dom(vt, depth + 1, slot)
            b = inner[0]
            key = self.key
            # Dict[str, Any] rows are keyed by document content (XLS header cells); the keys of every other dict field
            # are literals of the extractor code, so marker keys there are outside what a document can produce
            free_keys = vt is typing.Any
            out = [Entry("{K:b}", lambda: {key: b.make()}, b.unreach), Entry("{}", lambda: {})]
            for k in MARKER_KEYS:
                for v in inner:
                    out.append(Entry("{%s:%s}" % (k, v.label), (lambda k=k, v=v: {k: v.make()}), v.unreach or not free_keys))
            for d in inner[1:]:
                out.append(Entry("{K:%s}" % d.label, (lambda d=d: {key: d.make()}), d.unreach))
            out.append(Entry("{K:b,_type:b}", lambda: {key: b.make(), "_type": b.make()}, b.unreach or not free_keys))
            return out
        if isinstance(tp, type) and dataclasses.is_dataclass(tp):
            if tp.__name__ not in self.reg or self.reg[tp.__name__] is not tp:
                raise TypeError("dataclass %r is not in the registry" % (tp,))
            return self._dc(tp, depth)
        if isinstance(tp, type) and getattr(tp, "_is_protocol", False):
            impl = sorted((c for c in self.reg.values() if tp in c.__mro__ and instantiable(c)), key=lambda c: c.__name__)
            if not impl:
                raise TypeError("no registered implementation of %r" % (tp,))
            return [Entry("base:" + c.__name__, (lambda c=c: self.baseline(c, depth + 1))) for c in impl]
        raise TypeError("no domain for type hint %r" % (tp,))

    def _any(self, tok):
        E = Entry
        return [E("tok", lambda: tok), E("b64", lambda: "QUJD"), E("clsname", lambda: CLASS_NAME), E("none", lambda: None),
                E("int", lambda: 42), E("float", lambda: 2.5), E("bool", lambda: True),
                E("empty", lambda: ""), E("_type", lambda: "_type"), E("_bytes", lambda: "_bytes"), E("nonbmp", lambda: "\U0001F600é"),
                ] + _lite(tok) + [
                E("{_type:cls}", lambda: {"_type": CLASS_NAME}, True), E("{_type:tok}", lambda: {"_type": tok}, True),
                E("{_bytes:b64}", lambda: {"_bytes": "QUJD"}, True), E("{_bytesio:b64}", lambda: {"_bytesio": "QUJD"}, True),
                E("{_bytes:tok}", lambda: {"_bytes": tok}, True), E("{K:1}", lambda: {tok: 1}, True),
                E("nested", lambda: [1, [2, tok]], True), E("bytes", lambda: b"abc", True),
                E("datetime", lambda: datetime.datetime(2024, 3, 5, 14, 7, 9), True), E("date", lambda: datetime.date(2024, 3, 5), True),
                E("time", lambda: datetime.time(14, 7, 9), True), E("timedelta", lambda: datetime.timedelta(hours=26, seconds=4), True),
                E("decimal", lambda: decimal.Decimal("1.10"), True)]

    def _dc(self, cls, depth):
        out = []
        if instantiable(cls):
            out.append(Entry("base", lambda: self.baseline(cls, depth + 1)))
            out.append(Entry("min", lambda: self.minimal(cls, depth + 1)))
        subs = sorted((c for c in self.reg.values() if c is not cls and issubclass(c, cls) and instantiable(c)), key=lambda c: c.__name__)
        for c in subs[:1] if out else subs[:2]:
            out.append(Entry("sub:" + c.__name__, (lambda c=c: self.baseline(c, depth + 1))))
        if not out:
            raise TypeError("no instantiable class for %r" % (cls,))
        return out

    # ---- instances ----------------------------------------------------------------------------------------
    def init_fields(self, cls):
        return [f for f in dataclasses.fields(cls) if f.init]

    def field_domain(self, cls, f, depth=0):
        # entries are factories (fresh value per make()), so the domain of a field can be shared between instances
        key = (cls, f.name, depth)
        d = self._fdom.get(key)
        if d is None:
            idx = [x.name for x in dataclasses.fields(cls)].index(f.name)
            d = self.dom(self.hints(cls)[f.name], depth, idx)
            self._fdom[key] = d
        return d

    def baseline(self, cls, depth=0):
        kw = {}
        for f in self.init_fields(cls):
            if depth >= MAX_DEPTH and (f.default is not dataclasses.MISSING or f.default_factory is not dataclasses.MISSING):
                continue
            kw[f.name] = self.field_domain(cls, f, depth)[0].make()
        return cls(**kw)

    def minimal(self, cls, depth=0):
        kw = {}
        for f in self.init_fields(cls):
            if f.default is dataclasses.MISSING and f.default_factory is dataclasses.MISSING:
                kw[f.name] = self.field_domain(cls, f, depth)[0].make()
        return cls(**kw)

    def admits_str(self, cls, f) -> bool:
        """is the field a str-typed position of the root class (str, Optional[str], a union holding str)?"""
        tp = self.hints(cls)[f.name]
        if tp is str:
            return True
        if typing.get_origin(tp) in (typing.Union, types.UnionType):
            return str in typing.get_args(tp)
        return False

    def build(self, case):
        """-> (instance, unreachable?)"""
        cls = self.reg[case["cls"]]
        dev = {n: l for n, l in case["dev"]}
        kw = {}
        unreach = False
        for f in self.init_fields(cls):
            d = self.field_domain(cls, f)
            if f.name in dev:
                e = next((x for x in d[1:] if x.label == dev[f.name]), None)
                if e is None:
                    pn = parse_decor_label(dev[f.name]) if self.admits_str(cls, f) else None
                    if pn is None:
                        raise KeyError("no deviation %r for %s.%s" % (dev[f.name], cls.__name__, f.name))
                    idx = [x.name for x in dataclasses.fields(cls)].index(f.name)
                    tok = self.tok[idx % len(self.tok)]
                    e = Entry(dev[f.name], (lambda pn=pn, tok=tok: decorate(pn[0], pn[1], tok, self.tok[(idx + 1) % len(self.tok)])))
            else:
                e = d[0]
            unreach = unreach or e.unreach
            kw[f.name] = e.make()
        missing = set(dev) - set(kw)
        if missing:
            raise KeyError("unknown fields %r of %s" % (missing, cls.__name__))
        return cls(**kw), unreach

    def _devs(self, cls, level=LEVEL_MAX):
        """[(field name, label, unreach, wide)] of all single-field deviations, in field order; per field the core domain
        first, then the decorated strings (wide: they deviate alone) in the order of decor_sequences."""
        ck = (cls, max(1, min(level, LEVEL_MAX)))
        if ck in self._devc:
            return self._devc[ck]
        out = []
        seqs = None
        for f in self.init_fields(cls):
            core = self.field_domain(cls, f)[1:]
            have = set()
            for e in core:
                out.append((f.name, e.label, e.unreach, e.label in _LITE_ALONE))
                have.add(e.label)
            if self.admits_str(cls, f):
                if seqs is None:
                    seqs = decor_sequences(level)
                for pos, names in seqs:
                    lb = decor_label(pos, names)
                    if lb not in have:
                        out.append((f.name, lb, False, True))
        self._devc = {k: v for k, v in self._devc.items() if k[0] is cls}     # one class at a time (the lists are long)
        self._devc[ck] = out
        return out

    def deviations(self, cls):
        """[(field name, label, unreach)] of all single-field deviations (largest decoration length), in field order."""
        return [(fn, lb, un) for fn, lb, un, _ in self._devs(cls)]

    def cases(self, cls, max_dev, level=1):
        name = cls.__name__
        yield {"cls": name, "dev": []}
        devs = self._devs(cls, level)
        if max_dev >= 1:
            for fn, lb, _, _ in devs:
                yield {"cls": name, "dev": [[fn, lb]]}
        if max_dev >= 2:
            devs = [d for d in devs if not d[3]]
            for i in range(len(devs)):
                for j in range(i + 1, len(devs)):
                    if devs[i][0] != devs[j][0]:
                        yield {"cls": name, "dev": [[devs[i][0], devs[i][1]], [devs[j][0], devs[j][1]]]}

    def count(self, cls, max_dev, level=1):
        devs = self._devs(cls, level)
        n = 1
        if max_dev >= 1:
            n += len(devs)
        if max_dev >= 2:
            per = {}
            tot = 0
            for fn, _, _, wide in devs:
                if not wide:
                    per[fn] = per.get(fn, 0) + 1
                    tot += 1
            n += (tot * tot - sum(v * v for v in per.values())) // 2
        return n
