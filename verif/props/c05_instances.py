"""C05 helper: type-directed instances of every registered dataclass.

The registry is discovered reflectively (serialization._get_type_registry). For a class C the *baseline* instance has
every field at the baseline value of its type hint (never the dataclass default, so that a field dropped on the way
back is visible); a *deviation* replaces the value of ONE field by another member of the field's domain. A case is

    {"cls": class name, "dev": [[field name, label], ...]}          (<= 2 deviations, fields distinct)

and build(case) constructs the instance. Domains (label -> value), by type hint, first entry = baseline:
    str            tok | empty "" | _type | _bytes | _bytesio | clsname (a registered class name) | nonbmp | b64 "QUJD"
    int            7 | 0 | -1 | big (2**63)          bool  True | False         float  1.5 | 0.0 | -2.25 | 1e300
    bytes          3 bytes | empty | 4 bytes         BytesIO  the same + "pos" (4 bytes, stream position 2) + "end" (position at end)
    Optional[T]/T|None   dom(T) + none
    List[T]        [b] | [] | [b,b'] | [d] for every deviation d of T
    Dict[str,T]    {tok: b} | {} | {k: v} for k in marker keys x v in dom(T) | {tok: d} for deviations d of T | {tok: b, _type: b}
    Any            tok | none, int, float, bool, marker strings (reachable from spreadsheet cells)  and, flagged UNREACHABLE:
                   marker dicts, plain dict, nested list, bytes, datetime, date, time, timedelta, Decimal
                   (marker KEYS of a Dict[str, T] field are flagged unreachable too unless T is Any: only XlsSheet rows are
                   keyed by document content, every other dict field has keys that are literals of the extractor code)
    dataclass D    baseline(D) | min (only the required fields) | sub (baseline of a registered strict subclass)
    Protocol P (not a dataclass, e.g. ImageInterface)   baseline of each registered class deriving from P
Unknown hints raise TypeError (a new kind of field must be given a domain, it silently joins the obligation otherwise).
Every value is produced by a factory, so BytesIO / lists are fresh per instance. Tokens come from Tokens(seed):
VERIF_SEED changes the spelling of tokens only, never labels or cases.
"""
from __future__ import annotations

import dataclasses
import datetime
import decimal
import io
import types
import typing

from verif.gen.tokens import Tokens
from verif.props.c05_corpus import CLASS_NAME

MARKER_KEYS = ["_type", "_bytes", "_bytesio", CLASS_NAME, ""]
MAX_DEPTH = 4


class Entry:
    __slots__ = ("label", "make", "unreach")

    def __init__(self, label, make, unreach=False):
        self.label = label
        self.make = make
        self.unreach = unreach


def registry():
    from sharepoint2text.parsing.extractors import serialization as S
    return dict(S._get_type_registry())


def instantiable(cls) -> bool:
    return not getattr(cls, "_is_protocol", False)


class Domains:
    def __init__(self, seed: int):
        self.seed = seed
        self.reg = registry()
        tk = Tokens(seed)
        self.tok = [tk.new("B") for _ in range(8)]
        self.key = tk.new("K")
        self._hints = {}

    def hints(self, cls):
        h = self._hints.get(cls)
        if h is None:
            h = typing.get_type_hints(cls)
            self._hints[cls] = h
        return h

    # ---- per-type domains ---------------------------------------------------------------------------------
    def dom(self, tp, depth=0, slot=0):
        """list of Entry; [0] is the baseline. slot picks the token used for str baselines (distinct per field)."""
        tok = self.tok[slot % len(self.tok)]
        origin = typing.get_origin(tp)
        if tp is typing.Any:
            return self._any(tok)
        if tp is str:
            return [Entry("tok", lambda: tok), Entry("empty", lambda: ""), Entry("_type", lambda: "_type"),
                    Entry("_bytes", lambda: "_bytes"), Entry("_bytesio", lambda: "_bytesio"), Entry("clsname", lambda: CLASS_NAME),
                    Entry("nonbmp", lambda: "\U0001F600éא"), Entry("b64", lambda: "QUJD")]
        if tp is bool:
            return [Entry("True", lambda: True), Entry("False", lambda: False)]
        if tp is int:
            return [Entry("7", lambda: 7), Entry("0", lambda: 0), Entry("-1", lambda: -1), Entry("big", lambda: 2 ** 63)]
        if tp is float:
            return [Entry("1.5", lambda: 1.5), Entry("0.0", lambda: 0.0), Entry("-2.25", lambda: -2.25), Entry("1e300", lambda: 1e300)]
        if tp is bytes:
            return [Entry("b3", lambda: b"\x00\xff\x7f"), Entry("b0", lambda: b""), Entry("b4", lambda: b"\x89PNG")]
        if tp is io.BytesIO:
            def pos(n):
                def mk():
                    b = io.BytesIO(b"\x89PNG")
                    b.seek(n)
                    return b
                return mk
            return [Entry("io3", lambda: io.BytesIO(b"\x00\xff\x7f")), Entry("io0", lambda: io.BytesIO(b"")),
                    Entry("io4", lambda: io.BytesIO(b"\x89PNG")), Entry("pos", pos(2)), Entry("end", pos(4))]
        if tp is type(None):
            return [Entry("none", lambda: None)]
        if origin is typing.Union or origin is types.UnionType:
            args = typing.get_args(tp)
            out = []
            for a in args:
                if a is type(None):
                    continue
                out += self.dom(a, depth, slot)
            if type(None) in args:
                out.append(Entry("none", lambda: None))
            return out
        if origin in (list, typing.List):
            args = typing.get_args(tp)
            inner = self.dom(args[0] if args else typing.Any, depth + 1, slot)
            b = inner[0]
            b2 = inner[1] if len(inner) > 1 else inner[0]
            if depth >= MAX_DEPTH:
                return [Entry("[]", lambda: [])]
            out = [Entry("[b]", lambda: [b.make()], b.unreach), Entry("[]", lambda: []),
                   Entry("[b,%s]" % b2.label, lambda: [b.make(), b2.make()], b.unreach or b2.unreach)]
            for d in inner[1:]:
                out.append(Entry("[%s]" % d.label, (lambda d=d: [d.make()]), d.unreach))
            return out
        if origin in (dict, typing.Dict):
            args = typing.get_args(tp)
            if args and args[0] is not str:
                raise TypeError("no domain for dict key type %r" % (args[0],))
            vt = args[1] if len(args) > 1 else typing.Any
            inner = self.dom(vt, depth + 1, slot)
            b = inner[0]
            key = self.key
            # Dict[str, Any] rows are keyed by document content (XLS header cells); the keys of every other dict field
            # are literals of the extractor code, so marker keys there are outside what a document can produce
            free_keys = vt is typing.Any
            out = [Entry("{K:b}", lambda: {key: b.make()}, b.unreach), Entry("{}", lambda: {})]
            for k in MARKER_KEYS:
                for v in inner:
                    out.append(Entry("{%s:%s}" % (k, v.label), (lambda k=k, v=v: {k: v.make()}), v.unreach or not free_keys))
            for d in inner[1:]:
                out.append(Entry("{K:%s}" % d.label, (lambda d=d: {key: d.make()}), d.unreach))
            out.append(Entry("{K:b,_type:b}", lambda: {key: b.make(), "_type": b.make()}, b.unreach or not free_keys))
            return out
        if isinstance(tp, type) and dataclasses.is_dataclass(tp):
            if tp.__name__ not in self.reg or self.reg[tp.__name__] is not tp:
                raise TypeError("dataclass %r is not in the registry" % (tp,))
            return self._dc(tp, depth)
        if isinstance(tp, type) and getattr(tp, "_is_protocol", False):
            impl = sorted((c for c in self.reg.values() if tp in c.__mro__ and instantiable(c)), key=lambda c: c.__name__)
            if not impl:
                raise TypeError("no registered implementation of %r" % (tp,))
            return [Entry("base:" + c.__name__, (lambda c=c: self.baseline(c, depth + 1))) for c in impl]
        raise TypeError("no domain for type hint %r" % (tp,))

    def _any(self, tok):
        E = Entry
        return [E("tok", lambda: tok), E("b64", lambda: "QUJD"), E("clsname", lambda: CLASS_NAME), E("none", lambda: None),
                E("int", lambda: 42), E("float", lambda: 2.5), E("bool", lambda: True),
                E("empty", lambda: ""), E("_type", lambda: "_type"), E("_bytes", lambda: "_bytes"), E("nonbmp", lambda: "\U0001F600é"),
                E("{_type:cls}", lambda: {"_type": CLASS_NAME}, True), E("{_type:tok}", lambda: {"_type": tok}, True),
                E("{_bytes:b64}", lambda: {"_bytes": "QUJD"}, True), E("{_bytesio:b64}", lambda: {"_bytesio": "QUJD"}, True),
                E("{_bytes:tok}", lambda: {"_bytes": tok}, True), E("{K:1}", lambda: {tok: 1}, True),
                E("nested", lambda: [1, [2, tok]], True), E("bytes", lambda: b"abc", True),
                E("datetime", lambda: datetime.datetime(2024, 3, 5, 14, 7, 9), True), E("date", lambda: datetime.date(2024, 3, 5), True),
                E("time", lambda: datetime.time(14, 7, 9), True), E("timedelta", lambda: datetime.timedelta(hours=26, seconds=4), True),
                E("decimal", lambda: decimal.Decimal("1.10"), True)]

    def _dc(self, cls, depth):
        out = []
        if instantiable(cls):
            out.append(Entry("base", lambda: self.baseline(cls, depth + 1)))
            out.append(Entry("min", lambda: self.minimal(cls, depth + 1)))
        subs = sorted((c for c in self.reg.values() if c is not cls and issubclass(c, cls) and instantiable(c)), key=lambda c: c.__name__)
        for c in subs[:1] if out else subs[:2]:
            out.append(Entry("sub:" + c.__name__, (lambda c=c: self.baseline(c, depth + 1))))
        if not out:
            raise TypeError("no instantiable class for %r" % (cls,))
        return out

    # ---- instances ----------------------------------------------------------------------------------------
    def init_fields(self, cls):
        return [f for f in dataclasses.fields(cls) if f.init]

    def field_domain(self, cls, f, depth=0):
        idx = [x.name for x in dataclasses.fields(cls)].index(f.name)
        return self.dom(self.hints(cls)[f.name], depth, idx)

    def baseline(self, cls, depth=0):
        kw = {}
        for f in self.init_fields(cls):
            if depth >= MAX_DEPTH and (f.default is not dataclasses.MISSING or f.default_factory is not dataclasses.MISSING):
                continue
            kw[f.name] = self.field_domain(cls, f, depth)[0].make()
        return cls(**kw)

    def minimal(self, cls, depth=0):
        kw = {}
        for f in self.init_fields(cls):
            if f.default is dataclasses.MISSING and f.default_factory is dataclasses.MISSING:
                kw[f.name] = self.field_domain(cls, f, depth)[0].make()
        return cls(**kw)

    def build(self, case):
        """-> (instance, unreachable?)"""
        cls = self.reg[case["cls"]]
        dev = {n: l for n, l in case["dev"]}
        kw = {}
        unreach = False
        for f in self.init_fields(cls):
            d = self.field_domain(cls, f)
            if f.name in dev:
                e = next((x for x in d[1:] if x.label == dev[f.name]), None)
                if e is None:
                    raise KeyError("no deviation %r for %s.%s" % (dev[f.name], cls.__name__, f.name))
            else:
                e = d[0]
            unreach = unreach or e.unreach
            kw[f.name] = e.make()
        missing = set(dev) - set(kw)
        if missing:
            raise KeyError("unknown fields %r of %s" % (missing, cls.__name__))
        return cls(**kw), unreach

    def deviations(self, cls):
        """[(field name, label, unreach)] of all single-field deviations, in field order."""
        out = []
        for f in self.init_fields(cls):
            for e in self.field_domain(cls, f)[1:]:
                out.append((f.name, e.label, e.unreach))
        return out

    def cases(self, cls, max_dev):
        name = cls.__name__
        yield {"cls": name, "dev": []}
        devs = self.deviations(cls)
        if max_dev >= 1:
            for fn, lb, _ in devs:
                yield {"cls": name, "dev": [[fn, lb]]}
        if max_dev >= 2:
            for i in range(len(devs)):
                for j in range(i + 1, len(devs)):
                    if devs[i][0] != devs[j][0]:
                        yield {"cls": name, "dev": [[devs[i][0], devs[i][1]], [devs[j][0], devs[j][1]]]}

    def count(self, cls, max_dev):
        devs = self.deviations(cls)
        n = 1
        if max_dev >= 1:
            n += len(devs)
        if max_dev >= 2:
            per = {}
            for fn, _, _ in devs:
                per[fn] = per.get(fn, 0) + 1
            tot = len(devs)
            n += (tot * tot - sum(v * v for v in per.values())) // 2
        return n
