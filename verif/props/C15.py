"""C15 - isolation from history and from concurrent work.

S (schedules): stateless exploration of 2-3 real threads through the library's shared-state sections under the baton
scheduler of verif.mc.sched (line-level scheduling points on the declared code objects, preemption bounding).
   Targets: (1) the pypdf patch / extract / restore section (+ the variant whose last thread fails), (2) the AES round-key LRU
   cache, (3) the lazily built type registry, (4) COMPUTE KERNELS (_T_kernel): k threads call pure functions of one library
   module on different arguments while EVERY function of that module (helpers, comprehensions, closures) is a traced section;
   each thread must get what the call returns alone, and the calls repeated afterwards must still return it. This is where
   module-level scratch space shows (a buffer, table or "current" value that a hot function keeps outside its frame).
   Kernel instances: the pure-Python AES of the PDF reader - aesdec (cbc_decrypt AES-128 | cbc_decrypt AES-256 | ecb_decrypt
   AES-192), aesenc (the same with encrypt), aesmix (decrypt | encrypt under the same key | ecb_encrypt); 2 blocks of data,
   round-key cache empty at the start. ~135 scheduling points per thread, so the bounds are: quick = 2 threads, <= 1
   preemption (aesdec, aesenc); thorough = 2 and 3 threads, <= 1 preemption (aesdec, aesenc, aesmix)  [KERNEL_BOUNDS].
   (5) PAIRS OF REAL EXTRACTIONS (_T_extract2, "x2:<docA>|<docB>"): two threads extract (and serialise) two small documents
   through the public entry point, nothing stubbed. Scheduling points are DISCOVERED, not declared: every document of the
   alphabet is first extracted alone under a tracer that reads, after every line ANY module of the library executes (first
   2 visits of a line, as the scheduler's loop collapsing), the process-wide settings (c15_state.probe = the settings of
   c15_state.settings: recursion limit, switch interval, int digit limit, decimal contexts, locale, socket timeout, umask,
   cwd, environ, sys.path, hooks, signal handlers, gc, tempdir, csv limit, logging / warnings switches, codecs handlers, ...)
   and the module- / class-level bindings and container sizes of all library modules (c15_state.LibState). A line after
   which that state differs is a WRITE LINE; a thread hands the baton back before each write line and right after it
   (_PointSched). Documents with at least one write line are "active"; explored: every active document x every document
   of the alphabet (itself included), all interleavings with <= 2 preemptions (thorough: <= 3, and 3 threads <= 2).
   Oracle: each thread's result == the result of its document alone (same tracer, one thread); at quiescence the settings
   and the identities of the library's module-level bindings are unchanged and both documents, extracted once more one
   after the other, still give their results. Alphabet (x2_documents): formula documents with bare MathML (250 and 2000
   <mrow> levels; c15_docs shape odf-mrow), odt, ods, odp, docx, pptx, xlsx, epub, html, 2000-level html, rtf, txt, a zip
   with a damaged member; thorough: + a formula fixture, the 2000-level documents of 7 more shapes, pptx with comments,
   pdf, eml, doc, xls, ppt, 7z fixtures. On a library without unserialised writes there is no active document and the
   family costs the discovery only.
H (histories): every ordered pair (and triples over a sub-alphabet) of OPERATIONS in one process; after every step the
result digest equals the isolated baseline (fresh process) and the process-global state snapshot is unchanged.

Operations: "<doc>" = extract the document and serialise every result (to_json); "restore:<doc>" = restore
(ExtractionInterface.from_json) the payload that a FRESH process stored for <doc>, digest = class names + re-serialisation.
Restore operations exist for one document per result class (the smallest payload of each class).

Documents: fixtures of every format family, truncated fixtures (rejected at the front door), generated packages (incl. ones
lacking optional parts, under different path arguments) and the deep-nesting family of c15_docs (well-formed documents on
which a recursive extractor gives up - if at all - in the middle of its walk: shape x depth ladder L0/4, 2 L0, 16 L0, 128 L0)
and the mid-way archive failures of c15_docs ("midfail:<kind>": the container opens and lists, the packed data cannot be
decoded - 7z x {lzma, lzma2, copy} x {solid, per-file, two folders} with a damaged pack stream or a forged unpack size, zip
with one damaged member, damaged tar.gz / tar.xz / tar.bz2; quick: 4 kinds, thorough: all 12),
the drawing objects in running text of c15_docs ("drawobj:<container>:<object>": one paragraph of an odt / odp / ods / odg holds
one drawing object - frame with text box, rect, ellipse, custom shape, group; with and without svg:title / svg:desc - between two
words; the walk over one object kind must not reconfigure the walk over the next; quick: {odt, odp, ods} x {frame-box, rect} +
odt custom shape = 7, thorough: 4 containers x 7 objects = 28) and the encrypted PDFs of c15_docs ("encpdf:<form>": the same
document under every form of the standard security handler that verif.gen.pdfw writes - RC4-40, RC4-128, crypt filter V2,
AESV2 = AES-128, AESV3 = AES-256, and non-empty user passwords - the forms differ in which third-party machinery the reader
needs and when; quick: rc4-128, aesv2, aesv3, aesv2-pw, thorough: all 8).

Two kinds of histories:
  warm  (fmt "hist")  the worker first performs every operation once (lazy imports, one-way initialisations), then runs
        all ordered pairs over the whole operation alphabet and all triples over a sub-alphabet.
  cold  (fmt "cold")  every history runs in its own process that has done nothing but `import sharepoint2text`
        (c15_fresh: fork of an import-only zygote): all ordered pairs (thorough: + triples over 3 documents) over
        {extract, restore} x the restore documents + extract x {mid-way failing archives (quick 2), every encpdf form of the
        tier, drawobj documents (quick: 2, thorough: the 7 odt ones)}. This is where the ORDER OF FIRST USES is explored: lazily built
        module-level tables must come out the same whichever operation touches them first.

State compared (c15_state): after EVERY step - of the warm-up too, and of cold histories - the interpreter/process-wide
settings (recursion limit, switch interval, decimal context, locale, socket timeout, umask, cwd, environ, sys.path, hooks,
signal handlers, gc, csv field limit, logging/warnings switches, ... see c15_state.settings); after every warm history
additionally the pypdf patch depth, archive configuration, temp dir listing, open descriptors, warnings filters, logger
configuration, mimetypes tables, thread count, and the identity of every module-level / class-level binding of the
library's own and of all loaded third-party modules (c15_state.ModState: generic "patched third-party function" detector;
a binding to a plain function is identified by the function's code object, globals, defaults and the objects its closure
captured, so an idempotent patch that is applied once more - the AES provider on every encrypted PDF - is no change, whereas a
wrapper around the previous value, or an original that is not put back, is).
Temporary files: every worker / cold child has a private, initially empty temp dir; it must be empty again after the FIRST
execution of every operation (warm-up) and at the end of every cold history, and unchanged after every warm history.
"""
from __future__ import annotations

import gc
import hashlib
import io
import itertools
import json
import os
import random
import sys
import threading

from verif.mc import pool as P
from verif.mc import sched as S
from verif.props import c15_docs, c15_fresh, c15_state

LEVEL = "model_checking"
LOCK_TYPES = (type(threading.Lock()), type(threading.RLock()))


def _swap_locks(modules, sched):
    """replace real locks found in library modules by scheduler-aware ones (else a descheduled holder would hang us)"""
    for m in modules:
        for k, v in list(vars(m).items()):
            if isinstance(v, LOCK_TYPES) or isinstance(v, S.SchedLock):
                setattr(m, k, S.SchedLock(sched))


# ------------------------------------------------------------------ target 1: PDF char-map patch

class _T_pdfpatch:
    name = "pdfpatch"

    def __init__(self):
        from sharepoint2text.parsing.extractors.pdf import pdf_extractor as px
        self.px = px
        targets, _ = px._get_pypdf_char_map_patcher()
        self.targets = targets
        if not hasattr(_T_pdfpatch, "ORIG"):
            _T_pdfpatch.ORIG = [(m, n, getattr(m, n)) for m, n in targets]
            for m, n, f in _T_pdfpatch.ORIG:
                assert getattr(f, "__name__", "") != "patched", "pypdf already wrapped at harness start"
        self.codes = {px._patched_build_char_map.__wrapped__.__code__, px._extract_text_with_spacing.__code__}

    def depth(self):
        """max wrapper nesting depth over the patch targets (0 = pristine)"""
        out = 0
        for m, n, orig in self.ORIG:
            f = getattr(m, n)
            d = 0
            while f is not orig and d < 100:
                cl = getattr(f, "__closure__", None)
                nxt = None
                if cl:
                    for name, cell in zip(f.__code__.co_freevars, cl):
                        if name == "original":
                            nxt = cell.cell_contents
                if nxt is None:
                    d = 99
                    break
                f = nxt
                d += 1
            out = max(out, d)
        return out

    def setup(self):
        for m, n, orig in self.ORIG:
            setattr(m, n, orig)
        return {"inside": {}, "res": {}}

    def bodies(self, n, ctx, sched):
        _swap_locks([self.px], sched)
        t = self

        class Page:
            def __init__(self, i):
                self.i = i

            def extract_text(self, visitor_text=None):
                ctx["inside"].setdefault(self.i, []).append(t.depth())
                sched.point()
                ctx["inside"][self.i].append(t.depth())
                if visitor_text is not None:
                    visitor_text(f"Bx{self.i}", None, [1, 0, 0, 1, 10.0, 700.0], None, 12)
                return f"Bx{self.i}"

        def mk(i):
            def body():
                ctx["res"][i] = t.px._extract_text_with_spacing(Page(i))
            return body
        return [mk(i) for i in range(n)]

    def observe(self, n, ctx, s):
        msgs = []
        for i in range(n):
            if s.exc[i] is not None:
                msgs.append(("exception", f"thread {i} raised {type(s.exc[i]).__name__}: {s.exc[i]}"))
            elif not s.deadlock:
                ins = ctx["inside"].get(i, [])
                if any(d == 0 for d in ins):
                    msgs.append(("unpatched", f"thread {i} ran its page extraction with the pypdf patch removed by another thread (depths {ins})"))
                r = ctx["res"].get(i)
                if r is not None and r[0] != f"Bx{i}":
                    msgs.append(("result", f"thread {i} got {r!r}"))
        if s.deadlock:
            msgs.append(("deadlock", "no enabled thread"))
        d = self.depth()
        if d != 0:
            msgs.append(("residue", f"after all threads finished pypdf's char-map function is still wrapped {d} level(s) deep"))
        key = (tuple(tuple(ctx["inside"].get(i, [])) for i in range(n)), d, s.deadlock)
        return key, msgs


# ------------------------------------------------------------------ target 2: AES round-key cache

class _T_roundkeys:
    name = "roundkeys"

    def __init__(self):
        from sharepoint2text.parsing.extractors.pdf import _pypdf_aes_fallback as aes
        self.aes = aes
        self.keys = [bytes([i + 1]) * 16 for i in range(6)]
        self.codes = {aes._get_round_keys.__code__}
        self.exp = [aes._expand_key(k) for k in self.keys]

    def setup(self):
        self.aes._ROUND_KEY_CACHE.clear()
        for k in self.keys[:4]:
            self.aes._get_round_keys(k)       # cache full, keys[0] is the LRU entry
        return {"res": {}}

    def bodies(self, n, ctx, sched):
        _swap_locks([self.aes], sched)
        use = [0, 4, 1][:n]                      # hit on LRU key / miss that evicts / hit on next LRU

        def mk(i):
            def body():
                ctx["res"][i] = self.aes._get_round_keys(self.keys[use[i]])
            return body
        ctx["use"] = use
        return [mk(i) for i in range(n)]

    def observe(self, n, ctx, s):
        msgs = []
        for i in range(n):
            if s.exc[i] is not None:
                msgs.append(("exception", f"thread {i} (_get_round_keys) raised {type(s.exc[i]).__name__}: {s.exc[i]}"))
            elif not s.deadlock and ctx["res"].get(i) != self.exp[ctx["use"][i]]:
                msgs.append(("result", f"thread {i} got wrong round keys"))
        if s.deadlock:
            msgs.append(("deadlock", "no enabled thread"))
        if len(self.aes._ROUND_KEY_CACHE) > 4:
            msgs.append(("residue", f"cache holds {len(self.aes._ROUND_KEY_CACHE)} entries"))
        key = (tuple(type(e).__name__ if e else "ok" for e in s.exc), tuple(self.keys.index(k) for k in self.aes._ROUND_KEY_CACHE))
        return key, msgs


# ------------------------------------------------------------------ target 3: type registry

class _T_registry:
    name = "registry"

    def __init__(self):
        from sharepoint2text.parsing.extractors import serialization as ser
        from sharepoint2text.parsing.extractors.data_types import ExtractionInterface, PlainTextContent
        self.ser = ser
        self.EI = ExtractionInterface
        self.j = PlainTextContent(content="x").to_json()
        self.codes = {ser._get_type_registry.__code__}
        ser._TYPE_REGISTRY.clear()
        self.full = len(ser._get_type_registry())

    def setup(self):
        self.ser._TYPE_REGISTRY.clear()
        return {"res": {}}

    def bodies(self, n, ctx, sched):
        _swap_locks([self.ser], sched)

        def mk(i):
            def body():
                ctx["res"][i] = type(self.EI.from_json(json.loads(json.dumps(self.j)))).__name__
            return body
        return [mk(i) for i in range(n)]

    def observe(self, n, ctx, s):
        msgs = []
        for i in range(n):
            if s.exc[i] is not None:
                msgs.append(("exception", f"thread {i} (from_json) raised {type(s.exc[i]).__name__}: {s.exc[i]}"))
            elif not s.deadlock and ctx["res"].get(i) != "PlainTextContent":
                msgs.append(("result", f"thread {i}: from_json returned a {ctx['res'].get(i)} instead of PlainTextContent (half-populated registry)"))
        if s.deadlock:
            msgs.append(("deadlock", "no enabled thread"))
        if len(self.ser._TYPE_REGISTRY) != self.full:
            msgs.append(("residue", f"registry has {len(self.ser._TYPE_REGISTRY)} of {self.full} classes afterwards"))
        key = (tuple(ctx["res"].get(i) for i in range(n)), len(self.ser._TYPE_REGISTRY) == self.full)
        return key, msgs


class _T_pdfpatchfail(_T_pdfpatch):
    """same section, but the last thread's page extraction fails (visitor call and plain fallback both raise)"""
    name = "pdfpatchfail"

    def bodies(self, n, ctx, sched):
        bodies = super().bodies(n, ctx, sched)
        t = self

        class BadPage:
            def extract_text(self, visitor_text=None):
                ctx["inside"].setdefault(n - 1, []).append(t.depth())
                sched.point()
                raise RuntimeError("stub page cannot be extracted")

        def bad():
            try:
                t.px._extract_text_with_spacing(BadPage())
            except RuntimeError as e:
                if "stub page" not in str(e):
                    raise
                ctx["res"][n - 1] = (f"Bx{n - 1}", [])
        bodies[n - 1] = bad
        return bodies


# ------------------------------------------------------------------ target 4: compute kernels (shared scratch space)

def _module_codes(mod):
    """code objects of EVERY function defined in `mod` (nested functions, comprehensions and generator expressions included)"""
    import types
    out = set()

    def walk(c):
        out.add(c)
        for k in c.co_consts:
            if isinstance(k, types.CodeType):
                walk(k)
    for v in vars(mod).values():
        if isinstance(v, types.FunctionType) and v.__module__ == mod.__name__:
            walk(v.__code__)
        elif isinstance(v, type) and v.__module__ == mod.__name__:
            for w in vars(v).values():
                f = getattr(w, "__func__", w)
                if isinstance(f, types.FunctionType):
                    walk(f.__code__)
    return out


class _T_kernel:
    """k threads run PURE functions of one library module on DIFFERENT arguments; every function of the module is a traced
    section (so a thread can be descheduled between any two lines of the kernel and of its helpers). Whatever such a function
    keeps at module level while it computes - a preallocated scratch buffer, a "current key", a half-built table - is shared
    by the threads: each thread's result must equal what the same call returns when it runs alone, and the same calls
    repeated afterwards, one after the other, must still return it."""
    name = "kernel"
    MODULE = None

    def calls(self):            # -> [(label, callable)] one per thread (3 entries; 2-thread runs use the first two)
        raise NotImplementedError

    def reset(self):            # put the module's caches into their initial state
        pass

    def residue(self):          # -> message | None
        return None

    def __init__(self):
        import importlib
        self.mod = importlib.import_module(self.MODULE)
        self.codes = _module_codes(self.mod)
        self.cs = self.calls()
        self.reset()
        self.exp = [repr(f()) for _, f in self.cs]          # sequential reference, computed before any tracing
        self.reset()
        if [repr(f()) for _, f in self.cs] != self.exp:
            raise RuntimeError(f"{self.name}: the kernel calls are not deterministic when run alone")

    def setup(self):
        self.reset()
        return {"res": {}}

    def bodies(self, n, ctx, sched):
        _swap_locks([self.mod], sched)

        def mk(i):
            def body():
                ctx["res"][i] = repr(self.cs[i][1]())
            return body
        return [mk(i) for i in range(n)]

    def observe(self, n, ctx, s):
        msgs = []
        ok = []
        for i in range(n):
            lab = self.cs[i][0]
            if s.exc[i] is not None:
                msgs.append(("exception", f"thread {i} ({lab}) raised {type(s.exc[i]).__name__}: {s.exc[i]} while the other thread(s) ran {[self.cs[j][0] for j in range(n) if j != i]}"))
                ok.append("exc")
            elif s.deadlock:
                ok.append("dl")
            else:
                good = ctx["res"].get(i) == self.exp[i]
                ok.append(good)
                if not good:
                    msgs.append(("result", f"thread {i} ({lab}) returned {str(ctx['res'].get(i))[:80]} under this interleaving with {[self.cs[j][0] for j in range(n) if j != i]}; "
                                           f"alone it returns {self.exp[i][:80]}"))
        if s.deadlock:
            msgs.append(("deadlock", "no enabled thread"))
        else:
            _swap_locks([self.mod], None)
            after = []
            for i in range(n):
                try:
                    after.append(repr(self.cs[i][1]()) == self.exp[i])
                except Exception as e:  # noqa
                    after.append(type(e).__name__)
            if after != [True] * n:
                msgs.append(("residue", f"after all threads finished the calls {[c[0] for c in self.cs[:n]]}, repeated one after the other, give {after} (True = as in isolation)"))
            r = self.residue()
            if r:
                msgs.append(("residue", r))
        return (tuple(ok), s.deadlock), msgs


def _aes_vectors():
    """3 (key, iv, data) triples: AES-128 / AES-256 / AES-192 keys, 2 blocks of data each, all bytes pairwise different"""
    out = []
    for i, klen in enumerate((16, 32, 24)):
        key = bytes((37 * i + 11 * j + 5) % 256 for j in range(klen))
        iv = bytes((53 * i + 7 * j + 1) % 256 for j in range(16))
        data = bytes((91 * i + 13 * j + 3) % 256 for j in range(32))
        out.append((key, iv, data))
    return out


class _T_aes(_T_kernel):
    MODULE = "sharepoint2text.parsing.extractors.pdf._pypdf_aes_fallback"

    def reset(self):
        self.mod._ROUND_KEY_CACHE.clear()

    def residue(self):
        if len(self.mod._ROUND_KEY_CACHE) > self.mod._ROUND_KEY_CACHE_MAX:
            return f"round-key cache holds {len(self.mod._ROUND_KEY_CACHE)} entries"
        return None


class _T_aesdec(_T_aes):
    """what two or three threads do that extract AES-encrypted PDFs (different files, different keys) at the same time:
    CBC decryption of strings / streams, ECB decryption of the /Perms block (revision 5/6)"""
    name = "aesdec"

    def calls(self):
        a = self.mod
        v = _aes_vectors()
        return [("aes_cbc_decrypt/128", lambda: a.aes_cbc_decrypt(*v[0])), ("aes_cbc_decrypt/256", lambda: a.aes_cbc_decrypt(*v[1])),
                ("aes_ecb_decrypt/192", lambda: a.aes_ecb_decrypt(v[2][0], v[2][2]))]


class _T_aesenc(_T_aes):
    """the encrypting direction (password verification of revision 5/6 documents encrypts; CryptAES.encrypt)"""
    name = "aesenc"

    def calls(self):
        a = self.mod
        v = _aes_vectors()
        return [("aes_cbc_encrypt/128", lambda: a.aes_cbc_encrypt(*v[0])), ("aes_cbc_encrypt/256", lambda: a.aes_cbc_encrypt(*v[1])),
                ("aes_ecb_encrypt/192", lambda: a.aes_ecb_encrypt(v[2][0], v[2][2]))]


class _T_aesmix(_T_aes):
    """both directions at once, the same key in two threads (thorough tier)"""
    name = "aesmix"

    def calls(self):
        a = self.mod
        v = _aes_vectors()
        return [("aes_cbc_decrypt/128", lambda: a.aes_cbc_decrypt(*v[0])), ("aes_cbc_encrypt/128 same key", lambda: a.aes_cbc_encrypt(v[0][0], v[1][1], v[1][2])),
                ("aes_ecb_encrypt/256", lambda: a.aes_ecb_encrypt(v[1][0], v[2][2]))]


# ------------------------------------------------------------------ target 5: two real extractions (discovered write points)

def _lib_dir():
    import sharepoint2text
    return os.path.dirname(os.path.abspath(sharepoint2text.__file__)) + os.sep


def _lib_modules():
    return [m for n, m in sorted(sys.modules.items()) if m is not None and (n == "sharepoint2text" or n.startswith("sharepoint2text."))]


def _code_key(co, lib):
    return (co.co_filename[len(lib):], co.co_firstlineno, co.co_name)


def x2_discover(doc):
    """WRITE LINES of one extraction: the document is extracted once (warm-up: lazy imports, one-way initialisations),
    then once more under a tracer that reads, after EVERY line the library executes (all modules of the package, not only
    the extractor), the process-wide settings (c15_state.probe) and the module- / class-level bindings and container sizes
    of the library's modules (c15_state.LibState). A line after which that state differs is a write line.
    -> {"writes": [[file, first line of the function, function, line, [what changed ...]] ...], "lines": lines probed, "outcome"}"""
    lib = _lib_dir()
    first = _digest(doc)
    st = c15_state.LibState(lock_types=LOCK_TYPES + (S.SchedLock,))
    ref = c15_state.settings()
    writes = {}
    visits = {}
    box = {"last": None, "probe": True, "skipped": set(), "prev": None, "pk": None, "lines": 0, "probes": 0}

    def read():
        pr = c15_state.probe()
        return (tuple(pr.values()), st.read()), pr

    def check():
        cur, pr = read()
        box["probes"] += 1
        if cur != box["prev"]:
            a, pa = box["prev"], box["pk"]
            what = [k for k in pa if k in pr and pa[k] != pr[k]] + st.changed_spaces(a[1], cur[1])
            for ln in box["skipped"] | ({box["last"]} if box["last"] is not None else set()):
                writes.setdefault(ln, set()).update(what)
            box["prev"], box["pk"] = cur, pr
        box["skipped"] = set()

    def step(frame, event):
        # the state is read after a line only on the first X2_COLLAPSE visits of that line (later visits are no scheduling
        # points either); a change that a later visit makes is noticed at the next reading and attributed to every line run since
        if box["probe"]:
            check()
        elif box["last"] is not None:
            box["skipped"].add(box["last"])
        if event == "line":
            box["lines"] += 1
            ln = _code_key(frame.f_code, lib) + (frame.f_lineno,)
        elif event == "return":
            b = frame.f_back
            ln = _code_key(b.f_code, lib) + (b.f_lineno,) if b is not None and b.f_code.co_filename.startswith(lib) else None
        else:
            return
        box["last"] = ln
        if event == "line":
            visits[ln] = visits.get(ln, 0) + 1
        box["probe"] = ln is None or visits.get(ln, 0) <= X2_COLLAPSE

    def local(frame, event, arg):
        if event in ("line", "return", "exception"):
            step(frame, event)
        return local

    def glob(frame, event, arg):
        if frame.f_code.co_filename.startswith(lib) and "/tests/" not in frame.f_code.co_filename:
            return local
        return None
    box["prev"], box["pk"] = read()
    old = sys.gettrace()
    sys.settrace(glob)
    try:
        second = _digest(doc)
    finally:
        sys.settrace(old)
    check()
    if c15_state.diff(ref, c15_state.settings()):
        c15_state.restore(ref)       # a residue of ONE extraction is the histories' finding, not ours
    return {"writes": [list(k) + [sorted(v)] for k, v in sorted(writes.items())], "lines": box["lines"], "probes": box["probes"],
            "outcome": second, "first": first}


X2_COLLAPSE = 2


class _PointSched(S.Sched):
    """S.Sched with WRITE LINES as scheduling points: `targets` = {(file, first line, function): {line, ...}}. A thread hands
    the baton back (a) before it executes such a line (its k-th visit of the line only for k <= collapse) and (b) at the
    next event of the same frame (line, return, exception), i.e. when the write has happened; plus thread start / end."""

    def __init__(self, n, choices, targets, collapse=X2_COLLAPSE, horizon=20000):
        super().__init__(n, choices, list(targets), collapse=collapse, horizon=horizon)
        self.pmap = {tuple(k): frozenset(v) for k, v in dict(targets).items()}
        self.lib = _lib_dir()

    def _tracer(self, tid):
        seen = {}
        pmap, lib, collapse = self.pmap, self.lib, self.collapse

        def glob(frame, event, arg):
            co = frame.f_code
            if not co.co_filename.startswith(lib):
                return None
            key = (co.co_filename[len(lib):], co.co_firstlineno, co.co_name)
            lines = pmap.get(key)
            if lines is None:
                return None
            pend = [False]

            def local(frame, event, arg):
                if event not in ("line", "return", "exception"):
                    return local
                y = pend[0]
                pend[0] = False
                if event == "line" and frame.f_lineno in lines:
                    k = (key, frame.f_lineno)
                    seen[k] = seen.get(k, 0) + 1
                    if seen[k] <= collapse:
                        y = pend[0] = True
                if y:
                    self._yield(tid)
                return local
            return local
        return glob


_X2_POINTS = {}        # doc id -> "writes" list of x2_discover (filled from the task arguments; else discovered on demand)


def _x2_points(doc):
    if doc not in _X2_POINTS:
        _X2_POINTS[doc] = x2_discover(doc)["writes"]
    return _X2_POINTS[doc]


class _T_extract2:
    """"x2:<docA>|<docB>": thread 0 extracts and serialises document A, thread 1 document B (a third thread: A again) through
    the library's public entry point, real bytes, nothing stubbed. Scheduling points: the write lines (x2_discover) of the
    documents. Every thread must get what its document gives ALONE (same tracer, one thread); when all have finished the
    process-wide settings (c15_state.settings) and the identity of the library's module-level bindings must be what they
    were, and the documents extracted once more, one after the other, must still give what they give alone."""
    sched_cls = _PointSched

    def __init__(self, name):
        self.name = name
        docs = name[3:].split("|")
        self.docs = docs + docs[:1]
        for d in sorted(set(docs)):
            _digest(d)
        pts = {}
        for d in sorted(set(docs)):
            for f, l0, fn, line, _ in _x2_points(d):
                pts.setdefault((f, l0, fn), set()).add(line)
        self.codes = pts
        self.ref = c15_state.settings()
        self.lib = c15_state.LibState(lock_types=LOCK_TYPES + (S.SchedLock,))
        self.libref = self.lib.detail()
        self.exp = [self.alone(d) for d in self.docs]
        if [self.alone(d) for d in self.docs] != self.exp:
            raise RuntimeError(f"{name}: the documents do not give the same result twice when extracted alone")
        self.setup()

    def alone(self, doc):
        s = _PointSched(1, [], self.codes)
        out = {}
        _swap_locks(_lib_modules(), s)
        try:
            s.run([lambda: out.__setitem__(0, _digest(doc))])
        finally:
            _swap_locks(_lib_modules(), None)
        return out.get(0) if s.exc[0] is None else f"raised:{type(s.exc[0]).__name__}"

    def setup(self):
        cur = c15_state.settings()
        if c15_state.diff(self.ref, cur):
            c15_state.restore(self.ref)
            cur = c15_state.settings()
        self.ref = cur
        return {"res": {}}

    def bodies(self, n, ctx, sched):
        _swap_locks(_lib_modules(), sched)

        def mk(i):
            def body():
                ctx["res"][i] = _digest(self.docs[i])
            return body
        return [mk(i) for i in range(n)]

    def observe(self, n, ctx, s):
        _swap_locks(_lib_modules(), None)
        msgs = []
        ok = []
        for i in range(n):
            others = [self.docs[j] for j in range(n) if j != i]
            if s.exc[i] is not None:
                msgs.append(("exception", f"thread {i} ({self.docs[i]}) raised {type(s.exc[i]).__name__}: {s.exc[i]} while {others} were extracted in other threads"))
                ok.append("exc")
            elif s.deadlock or s.horizon_hit:
                ok.append("dl")
            else:
                good = ctx["res"].get(i) == self.exp[i]
                ok.append(good)
                if not good:
                    msgs.append(("result", f"thread {i}: {self.docs[i]} gives {ctx['res'].get(i)} under this interleaving with the extraction of {others} "
                                           f"in other thread(s); extracted alone it gives {self.exp[i]}"))
        res = False
        if s.deadlock:
            msgs.append(("deadlock", "no enabled thread"))
        elif not s.horizon_hit:
            d = c15_state.diff(self.ref, c15_state.settings())
            if d:
                res = True
                msgs.append(("residue", f"process-wide settings after all threads have finished extracting {self.docs[:n]}: {d} (before, after)"))
            det = self.lib.detail()
            ch = {k: v for k, v in c15_state.LibState.changed(self.libref, det).items() if v[1] == "<deleted>" or v[0][0] != v[1][0]}
            if ch:
                res = True
                self.libref = det
                msgs.append(("residue", f"module-level bindings of the library rebound after all threads have finished extracting {self.docs[:n]}: {sorted(ch)[:6]}"))
            after = [self.alone(self.docs[i]) == self.exp[i] for i in range(n)]
            if after != [True] * n:
                res = True
                msgs.append(("residue", f"after all threads have finished, {self.docs[:n]} extracted once more, one after the other, give {after} (True = as alone before)"))
        return (tuple(ok), res, s.deadlock), msgs


def _x2_discover_task(doc):
    return x2_discover(doc)


def x2_documents(tier):
    """small generated documents, one or two per format, + the formula / HTML documents of the deep-nesting family"""
    docs = ["deep:odf-mrow:q", "deep:odf-mrow:2", "gen:odt@D", "gen:ods-nometa@B", "gen:odp-nometa@C", "gen:docx@E", "gen:pptx@F", "gen:xlsx@G",
            "gen:epub@H", "gen:html@I", "deep:html-div:2", "gen:rtf@J", "gen:txt@none", "midfail:zip-deflate"]
    if tier != "quick":
        docs += ["open_office/formular.odf", "deep:odt-span:2", "deep:docx-sdt:2", "deep:pptx-group:2", "deep:rtf-group:2", "deep:epub-div:2",
                 "deep:zip-html:2", "deep:eml-multipart:2", "gen:pptx-comments@M", "pdf/sample.pdf", "mails/basic_email.eml",
                 "legacy_ms/headings.doc", "legacy_ms/mwe.xls", "legacy_ms/slide_with_notes.ppt", "archives/test_archive.7z"]
    return docs


TARGETS = {"pdfpatch": _T_pdfpatch, "pdfpatchfail": _T_pdfpatchfail, "roundkeys": _T_roundkeys, "registry": _T_registry,
           "aesdec": _T_aesdec, "aesenc": _T_aesenc, "aesmix": _T_aesmix}
# kernel targets have ~150 scheduling points per thread: (2-thread bound, 3-thread bound) per tier; None = not run in that tier
# pairs of real extractions: (2-thread preemption bound, 3-thread bound | None) per tier - the points are few (write lines only)
X2_BOUNDS = {"quick": (2, None), "thorough": (3, 2)}
KERNEL_BOUNDS = {"aesdec": {"quick": (1, None), "thorough": (1, 1)}, "aesenc": {"quick": (1, None), "thorough": (1, 1)},
                 "aesmix": {"quick": (None, None), "thorough": (1, 1)}}
_INST = {}


def _target(name):
    c15_fresh.DIRTY.append("target " + name)
    if name not in _INST:
        _INST[name] = _T_extract2(name) if name.startswith("x2:") else TARGETS[name]()
    return _INST[name]


def _sched_cls(t):
    return getattr(t, "sched_cls", S.Sched)


def run_schedule(name, n, trace):
    t = _target(name)
    ctx = t.setup()
    s = _sched_cls(t)(n, trace, t.codes)
    s.run(t.bodies(n, ctx, s))
    key, msgs = t.observe(n, ctx, s)
    return key, msgs, s


def _explore(cls, n, bound, targets, setup, make_bodies, observe, root=None):
    """S.explore with the scheduler class as a parameter (DFS over all schedules with <= bound preemptions below `root`)"""
    import collections
    stack = [list(root or [])]
    execs = steps = 0
    outcomes = collections.Counter()
    first = {}
    violations = []
    while stack:
        prefix = stack.pop()
        ctx = setup()
        s = cls(n, prefix, targets)
        s.run(make_bodies(ctx, s))
        execs += 1
        steps += s.steps
        key, viol = observe(ctx, s)
        outcomes[key] += 1
        first.setdefault(key, list(s.trace))
        if viol:
            violations.append((list(s.trace), viol))
        stack.extend(S.children(s, len(prefix), bound))
    return {"executions": execs, "steps": steps, "outcomes": outcomes, "first": first, "violations": violations, "capped": False}


def _explore_task(arg):
    name, n, bound, root, seed = arg[:5]
    if len(arg) > 5:
        _X2_POINTS.update(arg[5])
    t = _target(name)
    viols = []

    def setup():
        return t.setup()

    def mk(ctx, s):
        return t.bodies(n, ctx, s)

    def obs(ctx, s):
        key, msgs = t.observe(n, ctx, s)
        return key, msgs
    r = _explore(_sched_cls(t), n, bound, t.codes, setup, mk, obs, root=root)
    out = []
    for trace, msgs in r["violations"]:
        for clause, msg in msgs:
            out.append((clause, "sched", {"target": name, "threads": n, "trace": trace}, msg))
    t.setup()
    return {"executions": r["executions"], "steps": r["steps"], "outcomes": {str(k): v for k, v in r["outcomes"].items()},
            "fails": out[:3000], "nfails": len(out), "sample": {"target": name, "threads": n, "root": root, "first_outcomes": {str(k): v for k, v in list(r["first"].items())[:3]}}}


def _roots_task(arg):
    """run the default schedule and return the alternative prefixes (the DFS roots) so that they can be farmed out"""
    name, n, bound, seed = arg[:4]
    if len(arg) > 4:
        _X2_POINTS.update(arg[4])
    t = _target(name)
    ctx = t.setup()
    s = _sched_cls(t)(n, [], t.codes)
    s.run(t.bodies(n, ctx, s))
    key, msgs = t.observe(n, ctx, s)
    t.setup()
    fails = [(c, "sched", {"target": name, "threads": n, "trace": list(s.trace)}, m) for c, m in msgs]
    return {"roots": S.children(s, 0, bound), "steps": s.steps, "fails": fails, "outcome": str(key)}


# ------------------------------------------------------------------ histories

FIX = "/repo/sharepoint2text/tests/resources"


def history_alphabet(tier):
    """list of (doc id, loader) - bytes are loaded in the worker. Fixtures of every format family + failing + encrypted."""
    names = ["modern_ms/headings.docx", "modern_ms/pptx_formula_image.pptx", "modern_ms/mwe.xlsx",
             "legacy_ms/headings.doc", "legacy_ms/slide_with_notes.ppt", "legacy_ms/mwe.xls", "legacy_ms/02_dept_transport.rtf",
             "open_office/headings.odt", "open_office/slide_with_notes.odp", "open_office/image_extraction.ods", "open_office/drawing.odg",
             "open_office/formular.odf", "pdf/sample.pdf", "pdf/multi_image.pdf", "pdf/wirecard-annual-report-2018-page190.pdf", "html/sample.html", "html/sample.mhtml", "epub/sample.epub",
             "mails/basic_email.eml", "mails/basic_email.mbox", "mails/msg_with_attachment.msg", "plain_text/plain.txt", "plain_text/plain.csv",
             "archives/test_archive.zip", "archives/test_archive.7z", "archives/test_archive.tar.gz"]
    if tier != "quick":
        names += ["modern_ms/sample_with_comment_and_table.docx", "modern_ms/pptx_table.pptx", "modern_ms/image_in_excel.xlsx",
                  "legacy_ms/legacy_doc_image.doc", "legacy_ms/ppt_with_images.ppt", "legacy_ms/xls_with_images.xls", "open_office/image_extraction.odt",
                  "open_office/odp_with_table.odp", "pdf/multi_table.pdf", "epub/BJNR274910013.epub", "mails/msg_with_attachment.eml", "archives/test_archive.tar"]
    out = []
    for n in names:
        p = os.path.join(FIX, n)
        if os.path.exists(p):
            out.append(n)
    # discover what is really there (fixture names differ between checkouts): take up to 2 per directory in sorted order
    if len(out) < 12:
        out = []
        for d in sorted(os.listdir(FIX)):
            fs = sorted(f for f in os.listdir(os.path.join(FIX, d)) if os.path.isfile(os.path.join(FIX, d, f)))
            out += [f"{d}/{f}" for f in fs[: (2 if tier == "quick" else 4)]]
    return out


def _gen_docs():
    """generated documents, incl. packages lacking optional parts, under different path arguments (None = no path)"""
    from verif.gen import htmlfam, odf, ooxml, plain, rtf
    doc = ["doc", {"title": "Tt"}, [["unit", [["p", [["t", "Bbcdfg"]]]], {}]]]
    doc2 = ["doc", {}, [["unit", [["h", 1, [["t", "Hcdfgh"]]], ["p", [["t", "Bdfghj"]]]], {}]]]
    sh = ["doc", {}, [["sheet", "Nbcdfg", [[["s", "Cbcdfg"], ["i", 5]]]]]]
    nometa = {"omit_parts": ["meta.xml"]}
    return {
        "gen:odt-nometa@A": (odf.odt(doc, opts=nometa), "A.odt"), "gen:ods-nometa@B": (odf.ods(sh, opts=nometa), "dir/B.ods"),
        "gen:odt-nometa@none": (odf.odt(doc, opts=nometa), None), "gen:odp-nometa@C": (odf.odp(doc2, opts=nometa), "C.odp"),
        "gen:odt@D": (odf.odt(doc2), "D.odt"), "gen:docx@E": (ooxml.docx(doc), "E.docx"), "gen:docx@none": (ooxml.docx(doc2), None),
        "gen:pptx@F": (ooxml.pptx(doc), "F.pptx"),
        # a deck with a comment part / notes and a longer deck without: per-document caches must not be shared
        "gen:pptx-comments@M": (ooxml.pptx(["doc", {}, [["unit", [["p", [["t", "Bfghjk"]]]], {}],
                                                          ["unit", [["p", [["t", "Bghjkl"]]]], {"comments": ["Mbcdfg"], "notes": ["Pbcdfg"]}]]]), "M.pptx"),
        "gen:pptx-3slides@N": (ooxml.pptx(["doc", {}, [["unit", [["p", [["t", "Bhjklm"]]]], {}], ["unit", [["p", [["t", "Bjklmn"]]]], {}],
                                                         ["unit", [["p", [["t", "Bklmnp"]]]], {}]]]), "N.pptx"), "gen:xlsx@G": (ooxml.xlsx(sh), "G.xlsx"), "gen:xlsx@none": (ooxml.xlsx(sh), None),
        "gen:epub@H": (htmlfam.epub([htmlfam.xhtml_page("<p>Bbcdfg</p>", "t")], {"title": "t"}), "H.epub"),
        "gen:html@I": (htmlfam.html_page("<p>Bbcdfg</p>").encode(), "I.html"), "gen:rtf@J": (rtf.rtf(doc), "J.rtf"),
        "gen:txt@none": (plain.txt(["doc", {}, doc[2]]), None),
    }


_GEN = {}


def _load(doc):
    if doc.startswith("gen:"):
        if doc not in _GEN:
            _GEN.update(_gen_docs())
        return _GEN[doc]
    if doc.startswith(("deep:", "midfail:", "drawobj:", "encpdf:")):
        if doc not in _GEN:
            _GEN[doc] = c15_docs.load(doc)
        return _GEN[doc]
    if doc.startswith("trunc:"):
        data = open(os.path.join(FIX, doc[6:]), "rb").read()
        return data[: max(64, len(data) // 3)], doc[6:]
    return open(os.path.join(FIX, doc), "rb").read(), doc


def _digest_results(res):
    h = hashlib.sha256()
    for r in res:
        h.update(json.dumps(r.to_json(), sort_keys=True, default=repr).encode())
    return "ok:" + h.hexdigest()[:16] + f":{len(res)}"


_PAYLOADS = {}      # doc id -> JSON text of [result.to_json() ...] as stored by a fresh process (set from the task argument)


def _payload_of(res):
    return json.dumps([r.to_json() for r in res], sort_keys=True, default=repr)


def _restore_digest(doc):
    """restore the stored payload of `doc`: class names of what comes back + its re-serialisation"""
    from sharepoint2text.parsing.extractors.data_types import ExtractionInterface
    try:
        h = hashlib.sha256()
        names = []
        for item in json.loads(_PAYLOADS[doc]):
            obj = ExtractionInterface.from_json(item)
            names.append(type(obj).__name__)
            back = obj.to_json() if hasattr(obj, "to_json") else obj
            h.update(json.dumps([type(obj).__name__, back], sort_keys=True, default=repr).encode())
        return "ok:" + h.hexdigest()[:16] + ":" + ",".join(names)
    except Exception as e:  # noqa
        return "exc:" + type(e).__name__


def _digest(doc, keep=None):
    c15_fresh.DIRTY.append(doc)
    if doc.startswith("restore:"):
        if keep is not None:
            keep.append(None)
        return _restore_digest(doc[8:])
    import sharepoint2text
    data, name = _load(doc)
    try:
        ext = doc.split("@")[0].split(":")[1].split("-")[0] if doc.startswith("gen:") else None
        ex = sharepoint2text.get_extractor(name if name else "x." + ext)
        res = list(ex(io.BytesIO(data), name))
        if keep is not None:
            keep.append(res)
        return _digest_results(res)
    except Exception as e:  # noqa
        if keep is not None:
            keep.append(None)
        return "exc:" + type(e).__name__


def _snapshot(collect=True):
    import logging
    import mimetypes
    import tempfile
    import warnings
    from sharepoint2text.parsing.extractors import archive_extractor as ae
    snap = {}
    try:
        t = _target("pdfpatch")
        snap["pypdf_patch_depth"] = t.depth()
    except Exception as e:  # noqa
        snap["pypdf_patch_depth"] = repr(e)
    snap["archive_config"] = repr(ae._config)
    tmp = tempfile.gettempdir()
    snap["tmp"] = sorted(os.listdir(tmp))
    if collect:
        gc.collect()
    try:
        snap["fds"] = len(os.listdir("/proc/self/fd"))
    except Exception:
        snap["fds"] = -1
    snap["warn_filters"] = tuple(repr(f) for f in warnings.filters)
    snap["root_handlers"] = tuple(type(h).__name__ for h in logging.getLogger().handlers)
    snap["loggers"] = {n: (lg.level, len(lg.handlers), lg.propagate, lg.disabled, len(lg.filters))
                       for n, lg in list(logging.root.manager.loggerDict.items()) if isinstance(lg, logging.Logger)}
    snap["mimetypes"] = (mimetypes.inited, hash(frozenset(mimetypes.types_map.items())), hash(frozenset(mimetypes.common_types.items())),
                         hash(frozenset(mimetypes.suffix_map.items())), hash(frozenset(mimetypes.encodings_map.items())),
                         None if mimetypes._db is None else hash(frozenset(mimetypes._db.types_map[True].items())))
    et = sys.modules.get("xml.etree.ElementTree")      # third-party packages register their prefixes when they are imported
    snap["ElementTree.namespace_map"] = None if et is None else tuple(sorted(et._namespace_map.items()))
    snap["cwd"] = os.getcwd()
    snap["threads"] = threading.active_count()
    return snap


def _snap_diff(ref, snap):
    """{key: (before, after)}; dict-valued entries (loggers) are compared on the names that existed before only"""
    out = {}
    for k in ref:
        if isinstance(ref[k], dict):
            d = {n: (v, snap[k].get(n)) for n, v in ref[k].items() if snap[k].get(n) != v}
            if d:
                out[k] = d
        elif ref[k] != snap[k]:
            out[k] = (ref[k], snap[k])
    return out


def _fresh_op(arg):
    """runs in a forked child of an import-only process: one operation, alone"""
    op, payload = arg
    import tempfile
    tempfile.tempdir = None
    d = tempfile.mkdtemp(prefix="sp2t-verif-f-")
    tempfile.tempdir = d
    try:
        if op.startswith("restore:"):
            _PAYLOADS[op[8:]] = payload
            return {"digest": _digest(op)}
        keep = []
        dg = _digest(op, keep)
        out = {"digest": dg, "classes": None, "size": None, "payload": None}
        if keep and keep[0] is not None:
            pl = _payload_of(keep[0])
            out.update(classes=[type(r).__name__ for r in keep[0]], size=len(pl), payload=pl if payload else None)
        return out
    finally:
        import shutil
        tempfile.tempdir = None
        shutil.rmtree(d, ignore_errors=True)


def _fresh(func, arg):
    st, r = c15_fresh.fresh_child("verif.props.C15", func, arg)
    if st != "done":
        raise RuntimeError(f"fresh child {func}({str(arg)[:200]}) {st}: {r}")
    return r


def _baseline_task(op):
    """isolated baseline of one operation: its outcome in a process that has done nothing else.
    -> {"digest", "classes", "size"} for an extraction, {"digest", "payload"} for a restore operation"""
    if op.startswith("restore:"):
        pl = _fresh("_fresh_op", (op[8:], True))["payload"]
        if pl is None:
            raise RuntimeError(f"{op}: the document has no result to store")
        r = _fresh("_fresh_op", (op, pl))
        r["payload"] = pl
        return r
    return _fresh("_fresh_op", (op, False))


def _settings_step(ref, fmt, hist, fails, what):
    """compare the process-wide settings with `ref` after one step; on drift record it, put back what can be put back
    (so that one finding does not cascade into every later case of this worker) and return the new reference"""
    cur = c15_state.settings()
    if cur == ref:
        return ref
    if not c15_state.diff(ref, cur):
        return cur        # only settings of modules imported since were added (e.g. lxml's default parser)
    fails.append(("history-residue", fmt, {"history": list(hist)},
                  f"process-wide settings changed by {what}: {c15_state.diff(ref, cur)}"))
    c15_state.restore(ref)
    return c15_state.settings()


def _history_task(arg):
    """arg = (list of histories, baselines dict, payloads); each history = list of operations, run in THIS process sequentially."""
    hists, base, payloads = arg
    _PAYLOADS.update(payloads)
    import shutil
    import tempfile
    tempfile.tempdir = None
    d = tempfile.mkdtemp(prefix="sp2t-verif-h-")
    tempfile.tempdir = d
    fails = []
    ev = 0
    trans = 0
    outs = set()
    sref = c15_state.settings()
    # warm-up: every operation once so that lazy imports / one-way initialisations are already in place; the process-wide
    # settings are not allowed to move even here
    docs = sorted({x for h in hists for x in h})
    for x in docs:
        _digest(x)
        sref = _settings_step(sref, "hist", [x], fails, f"the first {x} of the process")
        gc.collect()
        left = sorted(os.listdir(d))       # the private temp dir was empty: also the FIRST use of anything must not leave files behind
        if left:
            fails.append(("history-residue", "hist", {"history": [x]}, f"temporary files left behind by the first {x} of the process: {left[:5]}"))
            for f in left:
                shutil.rmtree(os.path.join(d, f), ignore_errors=True) if os.path.isdir(os.path.join(d, f)) else os.unlink(os.path.join(d, f))
    ref = _snapshot()
    mods = c15_state.ModState()
    for h in hists:
        kept = []
        for i, x in enumerate(h):
            dg = _digest(x, kept)
            trans += 1
            outs.add(dg)
            sref = _settings_step(sref, "hist", h[: i + 1], fails, f"step {i} ({x}) of {h}")
            if dg != base[x]:
                fails.append(("history-result", "hist", {"history": h[: i + 1]}, f"after {h[:i]} document {x} gives {dg}, isolated baseline {base[x]}"))
                break
        else:
            # results handed out earlier must not be rewritten by later extractions
            for i, (x, res) in enumerate(zip(h, kept)):
                if res is not None and i < len(h) - 1:
                    try:
                        again = _digest_results(res)
                    except Exception as e:  # noqa
                        again = "exc:" + type(e).__name__
                    if again != base[x]:
                        fails.append(("history-aliasing", "hist", {"history": h}, f"the result of {x} (step {i}) changed after the later extractions {h[i + 1:]}: {again} vs {base[x]}"))
                        break
        del kept
        snap = _snapshot(collect=False)
        if _snap_diff(ref, snap):
            snap = _snapshot()      # descriptors / temp files of unreachable objects only count after a collection
        ev += 1
        diff = _snap_diff(ref, snap)
        if diff:
            fails.append(("history-residue", "hist", {"history": h}, f"process state changed after {h}: {diff}"))
            ref = snap
        ch = mods.update()
        if ch:
            fails.append(("history-residue", "hist", {"history": h}, f"module-level bindings changed after {h}: {dict(list(sorted(ch.items()))[:8])}"))
    tempfile.tempdir = None
    shutil.rmtree(d, ignore_errors=True)
    return {"ev": ev, "trans": trans, "fails": fails, "outs": len(outs), "watched_namespaces": len(mods.fast)}


def _cold_history(arg):
    """runs in a forked child of an import-only process: one history, no warm-up"""
    h, base, payloads = arg
    _PAYLOADS.update(payloads)
    import shutil
    import tempfile
    tempfile.tempdir = None
    d = tempfile.mkdtemp(prefix="sp2t-verif-c-")
    tempfile.tempdir = d
    fails = []
    trans = 0
    sref = c15_state.settings()
    for i, x in enumerate(h):
        dg = _digest(x)
        trans += 1
        sref = _settings_step(sref, "cold", h[: i + 1], fails, f"step {i} ({x}) of {h} in a fresh process")
        if dg != base[x]:
            fails.append(("history-result", "cold", {"history": h[: i + 1]},
                          f"in a fresh process, after {h[:i]}, {x} gives {dg}; as the first operation of a fresh process it gives {base[x]}"))
            break
    gc.collect()
    left = sorted(os.listdir(d))
    if left:
        fails.append(("history-residue", "cold", {"history": list(h)}, f"temporary files left behind in a fresh process after {h}: {left[:5]}"))
    tempfile.tempdir = None
    shutil.rmtree(d, ignore_errors=True)
    return {"trans": trans, "fails": fails}


def _cold_task(arg):
    hists, base, payloads = arg
    out = {"ev": 0, "trans": 0, "fails": []}
    for h in hists:
        need = {x[8:] for x in h if x.startswith("restore:")}
        r = _fresh("_cold_history", (h, {x: base[x] for x in h}, {k: payloads[k] for k in need}))
        out["ev"] += 1
        out["trans"] += r["trans"]
        out["fails"] += r["fails"]
    return out


def _baselines(ops, ncpu, herr):
    """-> (digest per operation, payload per restore document, info per extraction)"""
    res = P.run_all("verif.props.C15", "_baseline_task", ops, n=max(1, min(ncpu, len(ops))), hard_timeout=900)
    base, payloads, info = {}, {}, {}
    for a, (st, r, _) in zip(ops, res):
        if st != "done":
            herr.append(f"baseline {a} failed: {st}: {str(r)[-300:]}")
            continue
        base[a] = r["digest"]
        if a.startswith("restore:"):
            payloads[a[8:]] = r["payload"]
        else:
            info[a] = (r["classes"], r["size"])
    return base, payloads, info


# ---------------------------------------------------------------------------------------------- helper histories (memo tables)
TTF_FONTS = ("/usr/share/fonts/truetype/dejavu/DejaVuSans.ttf", "/usr/share/fonts/truetype/dejavu/DejaVuSerif.ttf")
TTF_GLYPH_LISTS = ([20, 21], [22, 23], [20, 21, 22], [23], [], [21, 20])


def _ttf_helper():
    """(function, cache dict) of the PDF extractor's font analysis, or None when the library has no such helper (any more)"""
    try:
        from sharepoint2text.parsing.extractors.pdf import pdf_extractor as PX
    except Exception:  # noqa
        return None
    fn, cache = getattr(PX, "_ttf_get_glyph_features", None), getattr(PX, "_FONT_CACHE", None)
    return (fn, cache) if callable(fn) and isinstance(cache, dict) else None


def _ttf_history(font, seq):
    """run the glyph-list sequence on one font from an empty memo; -> [(clause, message)]: every answer must equal the answer the
    same call gives when it is the first call of the process (memo empty)"""
    h = _ttf_helper()
    if h is None or not os.path.exists(font):
        return []
    fn, cache = h
    data = open(font, "rb").read()
    alone = []
    for ids in seq:
        cache.clear()
        alone.append(repr(fn(data, list(ids))))
    cache.clear()
    out = []
    for i, ids in enumerate(seq):
        got = repr(fn(data, list(ids)))
        if got != alone[i]:
            out.append(("history-result", f"font analysis of glyphs {ids} after {seq[:i]} gives {got[:120]}, alone {alone[i][:120]}"))
            break
    cache.clear()
    return out


def helper_histories(quick):
    fonts = [f for f in TTF_FONTS if os.path.exists(f)][: 1 if quick else 2]
    n = 2 if quick else 3
    for f in fonts:
        for seq in itertools.product(range(len(TTF_GLYPH_LISTS)), repeat=n):
            yield {"helper": "ttf", "font": f, "history": [TTF_GLYPH_LISTS[i] for i in seq]}


def reexec(fmt, case):
    if fmt == "helper":
        return _ttf_history(case["font"], case["history"])
    if fmt == "sched":
        key, msgs, s = run_schedule(case["target"], case["threads"], case["trace"])
        _target(case["target"]).setup()
        return msgs
    if fmt in ("hist", "cold"):
        herr = []
        ops = sorted(set(case["history"]))
        base, payloads, _ = _baselines(ops, 8, herr)
        if herr:
            return []
        task = "_history_task" if fmt == "hist" else "_cold_task"
        r = P.run_all("verif.props.C15", task, [([case["history"]], base, payloads)], n=1, hard_timeout=3000)
        return [(c, m) for c, f, cs, m in r[0][1]["fails"]] if r[0][0] == "done" else []
    return []


def shrinks(case):
    if "helper" in case:
        h = case["history"]
        for i in range(len(h)):
            if len(h) > 1:
                yield dict(case, history=h[:i] + h[i + 1:])
        return
    if "trace" in case:
        tr = case["trace"]
        for i, c in enumerate(tr):
            if c != 0:
                c2 = dict(case)
                c2["trace"] = tr[:i] + [0]
                yield c2
                c3 = dict(case)
                c3["trace"] = tr[:i] + [0] + tr[i + 1:]
                yield c3
        if case["threads"] == 3:
            c4 = dict(case)
            c4["threads"] = 2
            c4["trace"] = []
            yield c4
    elif "history" in case:
        h = case["history"]
        for i in range(len(h)):
            if len(h) > 1:
                yield {"history": h[:i] + h[i + 1:]}


def embeds(small, big):
    if "helper" in small or "helper" in big:
        return small.get("helper") == big.get("helper")
    if "trace" in small:
        return "trace" in big and small["target"] == big["target"]
    if "history" in small and "history" in big:
        it = iter(big["history"])
        return all(any(a == b for b in it) for a in small["history"])
    return False


def fingerprint_view(case):
    if "helper" in case:
        return {"helper": case["helper"]}
    if "trace" in case:
        return {"target": case["target"]}
    return case


def _cpu():
    import resource
    r = resource.getrusage(resource.RUSAGE_CHILDREN)
    return r.ru_utime + r.ru_stime


def run(ctx):
    quick = ctx.quick
    import time
    phase = {}
    t0, c0 = time.time(), _cpu()

    def mark(name):
        nonlocal t0, c0
        t1, c1 = time.time(), _cpu()
        phase[name] = {"wall_s": round(t1 - t0, 1), "cpu_s": round(c1 - c0, 1)}     # cost accounting only, never part of a verdict
        t0, c0 = t1, c1
    plans = []       # (target, threads, bound)
    for name in TARGETS:
        if name in KERNEL_BOUNDS:
            b2, b3 = KERNEL_BOUNDS[name]["quick" if quick else "thorough"]
            if b2 is not None:
                plans.append((name, 2, b2))
            if b3 is not None:
                plans.append((name, 3, b3))
            continue
        plans.append((name, 2, 2 if quick else 3))
        plans.append((name, 3, 1 if quick else 2))
    herr = []
    # two real extractions: write lines of every document (one discovery per document), then all pairs with an active document
    xdocs = x2_documents(ctx.tier)
    xres = P.run_all("verif.props.C15", "_x2_discover_task", xdocs, n=min(ctx.ncpu, len(xdocs)), hard_timeout=900)
    xpts, x2cov = {}, {"documents": {}, "lines_traced": 0, "state_readings": 0, "pairs": []}
    for d, (st, r, _) in zip(xdocs, xres):
        if st != "done":
            herr.append(f"write-line discovery of {d} failed: {st}: {str(r)[-500:]}")
            continue
        if r["first"] != r["outcome"]:
            herr.append(f"write-line discovery of {d}: extracted twice alone it gives {r['first']} and {r['outcome']}")
            continue
        xpts[d] = r["writes"]
        x2cov["documents"][d] = {"outcome": r["outcome"], "lines": r["lines"], "write_lines": [f"{w[0]}:{w[3]} ({w[2]}) {w[4]}" for w in r["writes"]]}
        x2cov["lines_traced"] += r["lines"]
        x2cov["state_readings"] += r["probes"]
    active = [d for d in xdocs if xpts.get(d)]
    xplans = {}
    for a in active:
        for b in xdocs:
            if b in xpts and not (b in active and xdocs.index(b) < xdocs.index(a)):
                nm = f"x2:{a}|{b}"
                xplans[nm] = {a: xpts[a], b: xpts[b]}
                plans.append((nm, 2, X2_BOUNDS["quick" if quick else "thorough"][0]))
                if X2_BOUNDS["quick" if quick else "thorough"][1] is not None:
                    plans.append((nm, 3, X2_BOUNDS["quick" if quick else "thorough"][1]))
                x2cov["pairs"].append(nm[3:])
    x2cov["active_documents"] = active
    mark("write_line_discovery")
    roots = P.run_all("verif.props.C15", "_roots_task", [(n, k, b, ctx.seed) + ((xplans[n],) if n in xplans else ()) for n, k, b in plans],
                      n=min(ctx.ncpu, len(plans)))
    tasks = []
    fails = []
    execs = steps = 0
    outcomes = {}
    per = {}
    for (st, r, _), (name, k, b) in zip(roots, plans):
        if st != "done":
            herr.append(f"roots task {name}/{k} failed: {st}: {str(r)[-500:]}")
            continue
        execs += 1
        steps += r["steps"]
        fails += [tuple(x) for x in r["fails"]]
        per[f"{name}/{k}t/b{b}"] = {"executions": 1, "roots": len(r["roots"])}
        for root in r["roots"]:
            tasks.append((name, k, b, root, ctx.seed) + ((xplans[name],) if name in xplans else ()))
    random.Random(ctx.seed).shuffle(tasks)
    res = P.run_all("verif.props.C15", "_explore_task", tasks, n=ctx.ncpu, hard_timeout=3000)
    samples = []
    for (st, r, _), t in zip(res, tasks):
        if st != "done":
            herr.append(f"explore task {t[:3]} failed: {st}: {str(r)[-500:]}")
            continue
        execs += r["executions"]
        steps += r["steps"]
        key = f"{t[0]}/{t[1]}t/b{t[2]}"
        per[key]["executions"] += r["executions"]
        for k_, v in r["outcomes"].items():
            outcomes[f"{t[0]}/{t[1]}:{k_}"] = outcomes.get(f"{t[0]}/{t[1]}:{k_}", 0) + v
        fails += [tuple(x) for x in r["fails"]]
        if len(samples) < 3 and r["executions"] > 3:
            samples.append(r["sample"])
    mark("schedules")
    # histories
    alpha = history_alphabet(ctx.tier)
    failing = [f"trunc:{a}" for a in alpha[:: max(1, len(alpha) // 4)]][:4]
    deep = c15_docs.family(ctx.tier)
    midfail = c15_docs.midfail_family(ctx.tier)
    drawobj = c15_docs.drawobj_family(ctx.tier)
    encpdf = c15_docs.encpdf_family(ctx.tier)
    alpha = alpha + failing + sorted(_gen_docs()) + deep + midfail + drawobj + encpdf
    base, _, info = _baselines(alpha, ctx.ncpu, herr)
    alpha = [a for a in alpha if a in base]
    # restore operations: one document per result class - the one with the smallest stored payload
    by_class = {}
    for a in alpha:
        classes, size = info[a]
        if classes and len(classes) == 1 and size <= (2 << 20):
            k = classes[0]
            if k not in by_class or (size, a) < by_class[k]:
                by_class[k] = (size, a)
    rdocs_all = [by_class[k][1] for k in sorted(by_class)]
    nr = 8 if quick else len(rdocs_all)
    rdocs = rdocs_all if len(rdocs_all) <= nr else [rdocs_all[(i * len(rdocs_all)) // nr] for i in range(nr)]
    rops = [f"restore:{d}" for d in rdocs]
    rbase, payloads, _ = _baselines(rops, ctx.ncpu, herr)
    base.update(rbase)
    rops = [r for r in rops if r in base]
    rdocs = [r[8:] for r in rops]
    ops = alpha + rops
    mark("baselines")
    pairs = [[a, b] for a in ops for b in ops]
    nsub = 5 if quick else 9
    sub = alpha[:: max(1, len(alpha) // nsub)][:nsub]
    for extra in [x for x in deep if x.endswith(":2")][:1] + rops[:1] + ([] if quick else midfail[:1]):      # a deep failure, a restore and (thorough) a mid-way archive failure take part in the triples
        if extra not in sub:
            sub.append(extra)
    triples = [[a, b, c] for a in sub for b in sub for c in sub]
    hists = pairs + triples
    random.Random(ctx.seed).shuffle(hists)
    nchunk = ctx.ncpu * 2
    chunks = [hists[i::nchunk] for i in range(nchunk)]
    hres = P.run_all("verif.props.C15", "_history_task", [(c, base, payloads) for c in chunks if c], n=ctx.ncpu, hard_timeout=3000)
    hev = htrans = 0
    watched = 0
    for st, r, _ in hres:
        if st != "done":
            herr.append(f"history task failed: {st}: {str(r)[-500:]}")
            continue
        hev += r["ev"]
        htrans += r["trans"]
        watched = max(watched, r["watched_namespaces"])
        fails += [tuple(x) for x in r["fails"]]
    mark("warm_histories")
    # cold histories: every one in its own import-only process
    # + (extract only) the mid-way failing archives, every encrypted-PDF form and drawing objects in running text: what the FIRST
    # document of a process sets up (or leaves set up) in third-party / module-level machinery must not decide what the second gives
    cold_extra = (midfail[:2] if quick else midfail) + encpdf + (drawobj[:2] if quick else [x for x in drawobj if x.split(":")[1] == "odt"])
    cops = [x for d in rdocs for x in (d, f"restore:{d}")] + [m for m in cold_extra if m in base]
    cpairs = [[a, b] for a in cops for b in cops]
    csub = [x for d in rdocs[:: max(1, len(rdocs) // 3)][:3] for x in (d, f"restore:{d}")] + [m for m in midfail[:1] if m in base]
    ctriples = [] if quick else [[a, b, c] for a in csub for b in csub for c in csub]
    chists = cpairs + ctriples
    random.Random(ctx.seed).shuffle(chists)
    nchunk = ctx.ncpu * 4
    cres = P.run_all("verif.props.C15", "_cold_task", [(c, {x: base[x] for x in cops}, payloads) for c in (chists[i::nchunk] for i in range(nchunk)) if c],
                     n=ctx.ncpu, hard_timeout=3000)
    cev = ctrans = 0
    for st, r, _ in cres:
        if st != "done":
            herr.append(f"cold history task failed: {st}: {str(r)[-500:]}")
            continue
        cev += r["ev"]
        ctrans += r["trans"]
        fails += [tuple(x) for x in r["fails"]]
    mark("cold_histories")
    # helper histories: a memo table of a pure helper may not make an answer depend on the earlier calls
    hh = 0
    for case in helper_histories(quick):
        hh += 1
        for clause, msg in _ttf_history(case["font"], case["history"]):
            fails.append((clause, "helper", case, msg))
    mark("helper_histories")
    samples.append({"history": hists[0] if hists else None, "cold_history": chists[0] if chists else None, "alphabet": ops,
                    "restore_documents_per_class": {k: by_class[k][1] for k in sorted(by_class)}})
    cov = {"states": execs + hev + cev + hh, "transitions": steps + htrans + ctrans + hh * (2 if quick else 3), "traces_validated_against_impl": execs + hev + cev + hh, "samples": samples,
           "evaluations": execs + hev + cev + hh, "distinct_nontrivial": len(outcomes),
           "schedules": {"executions": execs, "scheduling_steps": steps, "per_target": per, "distinct_outcomes": len(outcomes),
                         "outcomes": dict(list(sorted(outcomes.items()))[:60])},
           "real_extraction_pairs": x2cov,
           "histories": {"histories": hev, "extractions": htrans, "alphabet_size": len(ops), "documents": len(alpha), "restore_operations": len(rops),
                         "deep_documents": deep, "midfail_documents": midfail, "drawing_object_documents": drawobj, "encrypted_pdf_documents": encpdf, "pairs": len(pairs), "triples": len(triples), "triple_alphabet": sub,
                         "watched_module_namespaces": watched, "settings_watched": sorted(c15_state.settings())},
           "helper_histories": {"histories": hh, "helper": "pdf_extractor._ttf_get_glyph_features over _FONT_CACHE" if _ttf_helper() else "absent (skipped)",
                                "fonts": [f for f in TTF_FONTS if os.path.exists(f)], "glyph_lists": [list(x) for x in TTF_GLYPH_LISTS],
                                "length": 2 if quick else 3},
           "cold_histories": {"histories": cev, "operations": ctrans, "alphabet": cops, "pairs": len(cpairs), "triples": len(ctriples),
                              "process": "fork of a process that only imported sharepoint2text, one per history"},
           "rule": "schedules: all interleavings of 2 threads with <= 2 (quick) / 3 preemptions and 3 threads with <= 1 / 2 preemptions through "
                   "(1) the pypdf patch/extract/restore section, (2) the AES round-key LRU cache, (3) the lazily built type registry, at line "
                   "granularity with loop collapsing (first 2 iterations); (4) compute kernels (every function of the pure-Python AES module "
                   "traced; cbc/ecb decrypt and encrypt with different keys in 2 (thorough: also 3) threads, <= 1 preemption, each result == "
                   "the result of the call alone, calls repeated afterwards unchanged); (5) pairs of real extractions: write lines of every document of "
                   "x2_documents discovered by reading settings + library module state after every library line of a solo extraction, then every "
                   "active document x every document in 2 threads with scheduling points before / after the write lines, <= 2 (thorough 3; 3 threads 2) "
                   "preemptions, each result == the document alone, settings / library bindings / repeated extractions unchanged at quiescence; warm histories: all ordered pairs over the operation alphabet (extract + "
                   "serialise every fixture / truncated / generated / deep-nesting / mid-way failing archive / drawing-object-in-text (c15_docs drawobj: container x object kind) / encrypted-PDF (c15_docs encpdf: one per security-handler form) document; restore the fresh-process payload of one document "
                   "per result class) and all triples over a sub-alphabet, each step compared with a fresh-process baseline, process-wide "
                   "settings compared after every step (warm-up included), full process-state snapshot and module-binding identities after "
                   "every history; cold histories: all ordered pairs (thorough: + triples over 3 documents) over {extract, restore} x restore "
                   "documents (+ mid-way failing archives, encrypted-PDF forms and drawing-object documents, extract only), each history in its own import-only process, results against the "
                   "single-operation fresh process, settings after every step, private temp dir empty at the end; temp dir also empty after the "
                   "first execution of every operation in a warm worker",
           "cost": phase,
           "exhaustive": True, "bounds": {"preemptions_2_threads": 2 if quick else 3, "preemptions_3_threads": 1 if quick else 2,
                                          "kernel_targets_preemptions_(2_threads,3_threads)": {k: v["quick" if quick else "thorough"] for k, v in KERNEL_BOUNDS.items()},
                                          "real_extraction_pairs_preemptions_(2_threads,3_threads)": X2_BOUNDS["quick" if quick else "thorough"],
                                          "real_extraction_documents": len(xdocs), "write_line_visits_per_line": X2_COLLAPSE,
                                          "midfail_archives": len(midfail), "drawing_object_documents": len(drawobj), "encrypted_pdf_forms": len(encpdf),
                                          "history_length_pairs_over": len(ops), "history_length_triples_over": len(sub),
                                          "cold_pairs_over": len(cops), "cold_triples_over": len(csub) if not quick else 0,
                                          "deep_nesting_depths": sorted({c15_docs.MULT[x.split(":")[2]] for x in deep}), "restore_classes": len(rops)}}
    return {"coverage": cov, "failures": fails, "harness_errors": herr,
            "assumptions": ["line-level scheduling points suffice: each traced line performs at most one shared-state access",
                            "helper histories: the PDF font-analysis memo is exercised directly (all sequences of 2 / 3 glyph lists over 6 lists on a "
                            "system TrueType font; skipped when the helper, its memo table or the font file does not exist) - no generated PDF here "
                            "carries a CID font that maps digits to NUL, which is the only way to reach it end to end",
                            "pairs of real extractions: a thread is descheduled only around the lines at which a watched setting or a module-level "
                            "binding / container size of the library changes when the document is extracted alone (first 2 visits of a line); reads of "
                            "that state and rebinding of third-party module attributes are no scheduling points (the latter: pdfpatch target, ModState)",
                            "functools.lru_cache helpers are implemented in C with their own lock and are not explored",
                            "memory-model effects below the GIL are not modelled",
                            "a forked child of a process that only imported the package stands for a fresh interpreter after that import",
                            "a module- / class-level binding to a plain function counts as unchanged when it is rebound to a function with the same code "
                            "object, globals, defaults and captured objects (re-created by the same def): behaviourally the same function",
                            "module-level containers (caches, registries) are watched by identity only; what they hold is judged through the results "
                            "of the following operations",
                            "the warm-up (every operation once per worker, in sorted order) may perform one-way lazy initialisations; their "
                            "dependence on the order of first uses is what the cold histories explore"]}
