"""C01 helper: the construct family D - small documents that each hold ONE construct of a format's grammar that the G seeds lack.

The G seeds are one plain document per format, and byte / container mutations of them never build a construct that is not there
already: a cell of another value type, a destination group nested deeper than the seed's.  Both are places where an extractor
takes a different path (another Python type reaches the serialiser; a regular expression has to fail after a long run).

    names(tier) -> [name]     document(name) -> bytes (NotImplementedError if the writer cannot express it)     to(name), ext(name)

  cell/<fmt>/<kind>/<k>       fmt in xlsx, xls, ods (reference writers verif.gen.ooxml / biff8 / odf); a sheet with a header row and
                              one row holding the k-th value of CELLS[kind]: string, integer, float, boolean, date, date-time,
                              time of day, duration, every error value, formula with a cached number / string / error / time
  rtfgrp/<dest>/<depth>/<run>/<end>
                              RTF with one group `{\\<dest> <run> G(depth) <run>}` in the body: dest in RTF_DESTS (every destination
                              the format defines that the extractor has a pattern for, plus an unknown \\*-destination), G(0) = nothing,
                              G(d) = `{\\b x G(d-1)}` (groups nested d deep), run = that many characters of plain text (words of
                              7 letters), end = "closed" | "open" (the destination's closing brace and the document's are missing)
"""
from __future__ import annotations

CELL_FORMATS = {"xlsx": "xlsx", "xls": "xls", "ods": "ods"}          # ext -> extractor key
ERRORS = ["#NULL!", "#DIV/0!", "#VALUE!", "#REF!", "#NAME?", "#NUM!", "#N/A"]
CELLS = {
    "s": [["s", "Cqzvk"], ["s", ""]],
    "i": [["i", 0], ["i", -7], ["i", 2 ** 31]],
    "f": [["f", 1.5], ["f", -0.25], ["f", 1e300]],
    "b": [["b", True], ["b", False]],
    "d": [["d", "2024-01-02"], ["d", "1900-03-01"], ["d", "9999-12-31"]],
    "dt": [["dt", "2024-01-02T03:04:05"], ["dt", "2024-01-02T00:00:00"]],
    "tm": [["tm", "08:30:00"], ["tm", "00:00:00"], ["tm", "23:59:59"]],
    "dur": [["dur", 0], ["dur", 5400], ["dur", 90000]],
    "err": [["err", e] for e in ERRORS],
    "fml": [["fml", "=1+2", ["i", 3]], ["fml", "=1/0", ["err", "#DIV/0!"]], ["fml", '="a"&"b"', ["s", "ab"]],
            ["fml", "=A1", ["tm", "08:30:00"]], ["fml", "=A1", ["d", "2024-01-02"]], ["fml", "=1=1", ["b", True]]],
}
CELL_KINDS_QUICK = list(CELLS)
RTF_DESTS = ["footnote", "fonttbl", "colortbl", "stylesheet", "info", "header", "footer", "pict", "field", "annotation", "*\\zzdest"]
RTF_DEPTHS_QUICK, RTF_DEPTHS_THOROUGH = [0, 1, 2, 3], [0, 1, 2, 3, 4, 8]
RTF_RUNS_QUICK, RTF_RUNS_THOROUGH = [0, 48], [0, 1, 8, 48, 400]
RTF_ENDS = ["closed", "open"]


def names(tier: str) -> list:
    quick = tier == "quick"
    out = []
    for fmt in CELL_FORMATS:
        for kind, vals in CELLS.items():
            out += [f"cell/{fmt}/{kind}/{k}" for k in range(len(vals))]
    for dest in RTF_DESTS:
        for depth in (RTF_DEPTHS_QUICK if quick else RTF_DEPTHS_THOROUGH):
            for run in (RTF_RUNS_QUICK if quick else RTF_RUNS_THOROUGH):
                out += [f"rtfgrp/{dest}/{depth}/{run}/{end}" for end in RTF_ENDS]
    return out


def to(name: str) -> str:
    p = name.split("/")
    return CELL_FORMATS[p[1]] if p[0] == "cell" else "rtf"


def ext(name: str) -> str:
    p = name.split("/")
    return p[1] if p[0] == "cell" else "rtf"


def _run(n: int) -> str:
    words = "Bkqzvmw " * (n // 8 + 1)
    return words[:n]


def _nest(depth: int) -> str:
    return "" if depth == 0 else "{\\b x" + _nest(depth - 1) + "}"


def document(name: str) -> bytes:
    p = name.split("/")
    if p[0] == "cell":
        fmt, kind, k = p[1], p[2], int(p[3])
        doc = ["doc", {"title": "Ztitle"}, [["sheet", "Nsheet", [[["s", "Chead"], ["s", "Cval"]], [["s", "Crow"], CELLS[kind][k]]]]]]
        try:
            if fmt == "xlsx":
                from verif.gen import ooxml
                return ooxml.xlsx(doc)
            if fmt == "xls":
                from verif.gen import biff8
                return biff8.xls(doc)
            from verif.gen import odf
            return odf.ods(doc)
        except (ValueError, TypeError) as e:          # the writer refuses the value: not a document of this format
            raise NotImplementedError(str(e))
    if p[0] == "rtfgrp":
        dest, depth, run, end = p[1], int(p[2]), int(p[3]), p[4]
        grp = "{\\" + dest + " " + _run(run) + _nest(depth) + _run(run)
        head = "{\\rtf1\\ansi\\deff0{\\fonttbl{\\f0 Arial;}}\\pard Bbody one."
        if end == "closed":
            return (head + grp + "}\\par Bbody two.\\par}").encode("ascii")
        return (head + grp + "\\par Bbody two.\\par").encode("ascii")
    raise KeyError(name)
