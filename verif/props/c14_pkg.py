"""C14 helper: the relationship neighbourhood of the images of an OOXML package (docx, pptx, xlsx).

The reference writers (verif.gen.ooxml) produce the smallest package that expresses a document: every relationship part
holds the relationships the document needs, in creation order, with ids rId1..rIdN in that order.  None of the three
is required by OPC (ECMA-376 part 2): the order of the Relationship elements of a .rels part is free, relationship ids
are opaque xsd:IDs, and the parts that carry pictures usually carry other relationships as well (comments and their
legacy VML drawing, hyperlinks, theme, notes).  `apply(fmt, data, env)` rewrites a package written by the reference
writer into an equivalent one:

    env = {"neigh": 0 | 1, "rels": "writer" | "nfirst" | "rev", "ids": "seq" | "swap"}

  neigh 1   neighbours are added next to the picture references (all referenced from the source part the way Office does it):
              xlsx  every sheet gets a cell comment (relationships `vmlDrawing` -> xl/drawings/vmlDrawingN.vml and `comments`
                    -> xl/commentsN.xml, <legacyDrawing r:id> in the sheet) and an external cell hyperlink (<hyperlinks>);
                    every picture of a drawing part gets an external a:hlinkClick
              docx  the document gets a theme part (relationship `theme`); every picture gets an external a:hlinkClick
              pptx  every picture gets an external a:hlinkClick (notes / comments of the slides are added by the caller
                    through the writer's own unit extras)
            hyperlink targets look like image part names (http://verif.invalid/media/image1.png); they are external
            relationships of type `hyperlink`, never pictures of the document.  Neighbour relationships are appended to the
            .rels part (that is rels == "writer").
  rels      order of the Relationship elements in every .rels part except the package root:
              writer  as created (neighbours last)
              nfirst  stable partition: every relationship that is not `image` / `drawing` first (pictures keep their order)
              rev     the whole list reversed (also reverses the picture relationships among themselves)
  ids       seq: as created; swap: within every .rels part (except the root) the k-th id and the (n+1-k)-th id change places,
            consistently in the .rels part and in every r:* attribute of its source part

Document order, the bytes of the picture parts and what is anchored where are untouched by all of it.
`check(data)` is the independent consistency check of the result (selftest: `python -m verif.props.c14_pkg`).
Deterministic; no clock, no randomness.
"""
from __future__ import annotations

import io
import posixpath
import re
import zipfile
import xml.etree.ElementTree as ET

NS_REL = "http://schemas.openxmlformats.org/package/2006/relationships"
NS_R = "http://schemas.openxmlformats.org/officeDocument/2006/relationships"
NS_A = "http://schemas.openxmlformats.org/drawingml/2006/main"
NS_S = "http://schemas.openxmlformats.org/spreadsheetml/2006/main"
RT = NS_R + "/"
XML_DECL = '<?xml version="1.0" encoding="UTF-8" standalone="yes"?>\n'
CT_VML = "application/vnd.openxmlformats-officedocument.vmlDrawing"
CT_COMMENTS = "application/vnd.openxmlformats-officedocument.spreadsheetml.comments+xml"
CT_THEME = "application/vnd.openxmlformats-officedocument.theme+xml"
PICTURE_BEARING = (RT + "image", RT + "drawing")

NEIGH = (0, 1)
RELS = ("writer", "nfirst", "rev")
IDS = ("seq", "swap")
DEFAULT = {"neigh": 0, "rels": "writer", "ids": "seq"}


def norm(env):
    """-> full env dict (defaults filled in); ValueError for anything unknown"""
    e = dict(DEFAULT)
    for k, v in (env or {}).items():
        if k not in DEFAULT:
            raise ValueError("unknown env key %r" % (k,))
        e[k] = v
    if e["neigh"] not in NEIGH or e["rels"] not in RELS or e["ids"] not in IDS:
        raise ValueError("bad env %r" % (env,))
    return e


def compact(env):
    """-> env with the default components left out, or None when nothing is left (the canonical spelling in a case)"""
    e = norm(env)
    out = {k: v for k, v in e.items() if v != DEFAULT[k]}
    return out or None


def envs():
    """every neighbourhood that differs from the writer's own"""
    out = []
    for n in NEIGH:
        for r in RELS:
            if n == 0 and r == "nfirst":
                continue          # nothing to move: without neighbours the writer already lists the pictures last
            for i in IDS:
                e = compact({"neigh": n, "rels": r, "ids": i})
                if e:
                    out.append(e)
    return out


# ------------------------------------------------------------------------------------------------ package model

class _Pkg:
    def __init__(self, data):
        z = zipfile.ZipFile(io.BytesIO(data))
        self.order = [zi.filename for zi in z.infolist()]
        self.parts = {n: z.read(n) for n in self.order}
        self.stored = all(zi.compress_type == zipfile.ZIP_STORED for zi in z.infolist())
        self.rels = {}                      # rels part name -> list of [id, type, target, external]
        for n in self.order:
            if n.endswith(".rels"):
                self.rels[n] = _parse_rels(self.parts[n])

    def add(self, name, data, after=None):
        if name in self.parts:
            raise AssertionError("duplicate part " + name)
        self.parts[name] = data if isinstance(data, bytes) else data.encode("utf-8")
        if after in self.order:
            self.order.insert(self.order.index(after) + 1, name)
        else:
            self.order.append(name)

    def rels_of(self, source):
        name = rels_name(source)
        if name not in self.rels:
            self.rels[name] = []
            self.parts[name] = b""
            self.order.insert(self.order.index(source) + 1, name)
        return self.rels[name]

    def new_rel(self, source, rtype, target, external=False):
        lst = self.rels_of(source)
        used = {r[0] for r in lst}
        n = len(lst) + 1
        while "rId%d" % n in used:
            n += 1
        lst.append(["rId%d" % n, rtype, target, external])
        return "rId%d" % n

    def content_type(self, default=None, override=None):
        """add a Default (extension, type) and / or an Override (part name, type) to [Content_Types].xml"""
        ct = self.parts["[Content_Types].xml"].decode("utf-8")
        if default and ('<Default Extension="%s"' % default[0]) not in ct:
            # Default elements conventionally precede the Override elements (the schema is a free choice)
            i = ct.index("<Override") if "<Override" in ct else ct.index("</Types>")
            ct = ct[:i] + '<Default Extension="%s" ContentType="%s"/>' % default + ct[i:]
        if override:
            ct = ct.replace("</Types>", '<Override PartName="%s" ContentType="%s"/></Types>' % override)
        self.parts["[Content_Types].xml"] = ct.encode("utf-8")

    def tobytes(self):
        for name, lst in self.rels.items():
            x = [XML_DECL, '<Relationships xmlns="%s">' % NS_REL]
            for rid, rtype, target, external in lst:
                x.append('<Relationship Id="%s" Type="%s" Target="%s"%s/>' % (rid, rtype, _attr(target), ' TargetMode="External"' if external else ""))
            x.append("</Relationships>")
            self.parts[name] = "".join(x).encode("utf-8")
        bio = io.BytesIO()
        with zipfile.ZipFile(bio, "w") as z:
            for name in self.order:
                zi = zipfile.ZipInfo(name, date_time=(1980, 1, 1, 0, 0, 0))
                zi.compress_type = zipfile.ZIP_STORED if self.stored else zipfile.ZIP_DEFLATED
                zi.create_system = 0
                zi.external_attr = 0
                z.writestr(zi, self.parts[name], compresslevel=None if self.stored else 1)
        return bio.getvalue()


def _attr(s):
    return s.replace("&", "&amp;").replace("<", "&lt;").replace('"', "&quot;")


def _parse_rels(data):
    root = ET.fromstring(data)
    out = []
    for el in root:
        if el.tag != "{%s}Relationship" % NS_REL:
            raise AssertionError("unexpected element in a relationships part: " + el.tag)
        out.append([el.get("Id"), el.get("Type"), el.get("Target"), el.get("TargetMode") == "External"])
    return out


def rels_name(source):
    d, _, f = source.rpartition("/")
    return (d + "/" if d else "") + "_rels/" + f + ".rels"


def source_of(rels_part):
    d, _, f = rels_part.rpartition("/")
    d = d[:-len("_rels")].rstrip("/")
    return (d + "/" if d else "") + f[:-len(".rels")]


# ------------------------------------------------------------------------------------------------ neighbours

_PIC_PR = re.compile(r'<((?:wp:docPr|p:cNvPr|xdr:cNvPr)) (id="\d+" name="Picture \d+"[^>]*?)/>')


def _link_pictures(pkg, source):
    """an external a:hlinkClick on every picture of `source` (one hyperlink relationship per picture)"""
    xml = pkg.parts[source].decode("utf-8")
    count = [0]

    def sub(m):
        count[0] += 1
        rid = pkg.new_rel(source, RT + "hyperlink", "http://verif.invalid/media/image%d.png" % count[0], external=True)
        return '<%s %s><a:hlinkClick xmlns:a="%s" xmlns:r="%s" r:id="%s"/></%s>' % (m.group(1), m.group(2), NS_A, NS_R, rid, m.group(1))
    xml = _PIC_PR.sub(sub, xml)
    pkg.parts[source] = xml.encode("utf-8")
    return count[0]


_VML = ('<xml xmlns:v="urn:schemas-microsoft-com:vml" xmlns:o="urn:schemas-microsoft-com:office:office" '
        'xmlns:x="urn:schemas-microsoft-com:office:excel"><o:shapelayout v:ext="edit"><o:idmap v:ext="edit" data="%d"/></o:shapelayout>'
        '<v:shapetype id="_x0000_t202" coordsize="21600,21600" o:spt="202" path="m,l,21600r21600,l21600,xe"><v:stroke joinstyle="miter"/>'
        '<v:path gradientshapeok="t" o:connecttype="rect"/></v:shapetype><v:shape id="_x0000_s%d" type="#_x0000_t202" '
        'style="position:absolute;margin-left:59.25pt;margin-top:1.5pt;width:108pt;height:59.25pt;z-index:1;visibility:hidden" '
        'fillcolor="#ffffe1" o:insetmode="auto"><v:fill color2="#ffffe1"/><v:shadow on="t" color="black" obscured="t"/>'
        '<v:path o:connecttype="none"/><v:textbox style="mso-direction-alt:auto"><div style="text-align:left"></div></v:textbox>'
        '<x:ClientData ObjectType="Note"><x:MoveWithCells/><x:SizeWithCells/><x:Anchor>1, 15, 0, 2, 3, 15, 3, 16</x:Anchor>'
        '<x:AutoFill>False</x:AutoFill><x:Row>0</x:Row><x:Column>0</x:Column></x:ClientData></v:shape></xml>')


def _neigh_xlsx(pkg):
    sheets = sorted((n for n in pkg.order if re.fullmatch(r"xl/worksheets/sheet\d+\.xml", n)), key=lambda n: int(re.findall(r"\d+", n)[-1]))
    for k, sheet in enumerate(sheets, 1):
        xml = pkg.parts[sheet].decode("utf-8")
        vml_rid = pkg.new_rel(sheet, RT + "vmlDrawing", "../drawings/vmlDrawing%d.vml" % k)
        com_rid = pkg.new_rel(sheet, RT + "comments", "../comments%d.xml" % k)
        link_rid = pkg.new_rel(sheet, RT + "hyperlink", "http://verif.invalid/drawings/drawing%d.png" % k, external=True)
        del com_rid         # the comments part is found through the relationship type alone
        if xml.count("<pageMargins ") != 1 or xml.count("</worksheet>") != 1 or "<legacyDrawing" in xml or "<hyperlinks>" in xml:
            raise AssertionError("unexpected worksheet markup")
        # CT_Worksheet order: .. sheetData .. hyperlinks, printOptions, pageMargins .. drawing, legacyDrawing ..
        xml = xml.replace("<pageMargins ", '<hyperlinks><hyperlink ref="A1" r:id="%s"/></hyperlinks><pageMargins ' % link_rid)
        xml = xml.replace("</worksheet>", '<legacyDrawing r:id="%s"/></worksheet>' % vml_rid)
        pkg.parts[sheet] = xml.encode("utf-8")
        pkg.add("xl/comments%d.xml" % k, XML_DECL + (
            '<comments xmlns="%s"><authors><author>verif</author></authors><commentList><comment ref="A1" authorId="0"><text><r><t>note %d</t></r>'
            '</text></comment></commentList></comments>' % (NS_S, k)))
        pkg.content_type(override=("/xl/comments%d.xml" % k, CT_COMMENTS))
        pkg.add("xl/drawings/vmlDrawing%d.vml" % k, _VML % (k, 1024 * k + 1))
        pkg.content_type(default=("vml", CT_VML))
    for d in [n for n in pkg.order if re.fullmatch(r"xl/drawings/drawing\d+\.xml", n)]:
        _link_pictures(pkg, d)


def _neigh_docx(pkg):
    from verif.gen import ooxml
    src = "word/document.xml"
    pkg.new_rel(src, RT + "theme", "theme/theme1.xml")
    pkg.add("word/theme/theme1.xml", ooxml._THEME)
    pkg.content_type(override=("/word/theme/theme1.xml", CT_THEME))
    _link_pictures(pkg, src)


def _neigh_pptx(pkg):
    for s in [n for n in pkg.order if re.fullmatch(r"ppt/slides/slide\d+\.xml", n)]:
        _link_pictures(pkg, s)


# ------------------------------------------------------------------------------------------------ order and ids

_R_ATTR = re.compile(r'\b(r:[A-Za-z]+)="([^"]*)"')


def _reorder(lst, mode):
    if mode == "writer":
        return lst
    if mode == "rev":
        return lst[::-1]
    if mode == "nfirst":
        return [r for r in lst if r[1] not in PICTURE_BEARING] + [r for r in lst if r[1] in PICTURE_BEARING]
    raise ValueError(mode)


def _swap_ids(pkg, rels_part, created):
    """`created`: the ids of the part in creation order"""
    m = {a: b for a, b in zip(created, created[::-1])}
    for r in pkg.rels[rels_part]:
        r[0] = m[r[0]]
    src = source_of(rels_part)
    xml = pkg.parts[src].decode("utf-8")
    refs = [x.group(2) for x in _R_ATTR.finditer(xml)]
    unknown = [x for x in refs if x not in m]
    if unknown:
        raise AssertionError("%s refers to relationship ids %r that %s does not define" % (src, unknown[:3], rels_part))
    pkg.parts[src] = _R_ATTR.sub(lambda x: '%s="%s"' % (x.group(1), m[x.group(2)]), xml).encode("utf-8")


def apply(fmt, data, env):
    e = norm(env)
    if fmt not in ("docx", "pptx", "xlsx"):
        raise NotImplementedError("relationship neighbourhoods are defined for OOXML packages")
    if e == DEFAULT:
        return data
    pkg = _Pkg(data)
    if e["neigh"]:
        {"docx": _neigh_docx, "pptx": _neigh_pptx, "xlsx": _neigh_xlsx}[fmt](pkg)
    for name in list(pkg.rels):
        if name == "_rels/.rels":
            continue
        created = [r[0] for r in pkg.rels[name]]
        pkg.rels[name] = _reorder(pkg.rels[name], e["rels"])
        if e["ids"] == "swap":
            _swap_ids(pkg, name, created)
    return pkg.tobytes()


# ------------------------------------------------------------------------------------------------ consistency check

def check(data):
    """-> list of problems of an OPC package: ill-formed XML, internal relationship targets that are not parts (other than
    those listed in `allow_missing`), duplicate ids, r:* attributes without relationship, parts without content type."""
    problems = []
    z = zipfile.ZipFile(io.BytesIO(data))
    names = z.namelist()
    if len(names) != len(set(names)):
        problems.append("duplicate member names")
    parts = {n: z.read(n) for n in names}
    roots = {}
    for n, b in parts.items():
        if n.endswith((".xml", ".rels", ".vml")):
            try:
                roots[n] = ET.fromstring(b)
            except ET.ParseError as ex:
                problems.append("%s is not well-formed: %s" % (n, ex))
    ct = roots.get("[Content_Types].xml")
    defaults, overrides = {}, {}
    if ct is not None:
        for el in ct:
            if el.tag.endswith("}Default"):
                defaults[el.get("Extension").lower()] = el.get("ContentType")
            elif el.tag.endswith("}Override"):
                if el.get("PartName") in overrides:
                    problems.append("two Override elements for " + el.get("PartName"))
                overrides[el.get("PartName")] = el.get("ContentType")
    for n in names:
        if n == "[Content_Types].xml":
            continue
        if "/" + n not in overrides and n.rsplit(".", 1)[-1].lower() not in defaults:
            problems.append("no content type for " + n)
    for pn in overrides:
        if pn[1:] not in parts:
            problems.append("Override for a part that does not exist: " + pn)
    missing = []
    for n in names:
        if not n.endswith(".rels") or n not in roots:
            continue
        src = source_of(n)
        if src and src not in parts:
            problems.append("%s: source part %s does not exist" % (n, src))
        ids = {}
        for el in roots[n]:
            rid = el.get("Id")
            if rid in ids:
                problems.append("%s: duplicate id %s" % (n, rid))
            ids[rid] = el
            if el.get("TargetMode") != "External":
                t = el.get("Target")
                full = t[1:] if t.startswith("/") else posixpath.normpath(posixpath.join(posixpath.dirname(src), t))
                if full not in parts:
                    missing.append((n, rid, full))
        if src in parts and src.endswith((".xml", ".vml")):
            for m in _R_ATTR.finditer(parts[src].decode("utf-8")):
                if m.group(2) not in ids:
                    problems.append("%s: %s=%r has no relationship" % (src, m.group(1), m.group(2)))
    return problems, missing


def _selftest():
    from verif.gen.tokens import Tokens
    from verif.props import C14
    n = 0
    for fmt in ("docx", "pptx", "xlsx"):
        for ref in ("relative", "shared", "missing", "external"):
            for units in ([[["png", "1x1", 0], ["jpeg", "640x480", 1]], [["png", "1x1", 0]]], [[], [["gif", "1x1", 0]]], [[]]):
                base = {"units": units, "ref": ref, "var": "text"}
                plain = C14.render(fmt, base, Tokens(0))
                p0, m0 = check(plain)
                assert not p0, (fmt, ref, p0)
                media0 = {k: v for k, v in _Pkg(plain).parts.items() if "/media/" in k}
                for env in envs():
                    case = dict(base, env=env)
                    out = C14.render(fmt, case, Tokens(0))
                    assert out == C14.render(fmt, case, Tokens(0)), "not deterministic"
                    pr, miss = check(out)
                    assert not pr, (fmt, ref, env, pr)
                    assert (ref == "missing") == bool(miss) or not any(units), (fmt, ref, env, miss)
                    assert len(miss) == len(m0), (fmt, ref, env, miss, m0)
                    pk = _Pkg(out)
                    assert {k: v for k, v in pk.parts.items() if "/media/" in k} == media0, "picture parts changed"
                    # the same relationships (type, resolved target) per source part, whatever their order and ids
                    a = {k: sorted((r[1], r[2], r[3]) for r in v) for k, v in _Pkg(plain).rels.items()}
                    b = {k: sorted((r[1], r[2], r[3]) for r in v) for k, v in pk.rels.items()}
                    for k in a:
                        assert not C14._multiset_sub(a[k], b[k]), (fmt, env, k)
                        if not norm(env)["neigh"]:
                            assert a[k] == b[k], (fmt, env, k)
                    n += 1
    # xlsx with neighbours: an independent reader (openpyxl, full mode) sees the comment, the hyperlink and the cell values
    import openpyxl
    import warnings
    case = {"units": [[["png", "1x1", 0]], []], "ref": "relative", "var": "text", "env": {"neigh": 1, "rels": "rev", "ids": "swap"}}
    with warnings.catch_warnings():
        warnings.simplefilter("ignore")
        wb = openpyxl.load_workbook(io.BytesIO(C14.render("xlsx", case, Tokens(0))))
    for k, ws in enumerate(wb.worksheets, 1):
        assert ws["A1"].comment is not None and ws["A1"].comment.text == "note %d" % k, ws["A1"].comment
        assert ws["A1"].hyperlink is not None and ws["A1"].hyperlink.target == "http://verif.invalid/drawings/drawing%d.png" % k
        assert ws["B1"].value == 5 and ws["B2"].value == 7
    print("c14_pkg selftest ok: %d packages, %d neighbourhoods" % (n, len(envs())))


if __name__ == "__main__":
    _selftest()
