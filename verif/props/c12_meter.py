"""C12 helper: deterministic cost meter for one library call.  The call is executed twice:

pass 1 (events)  sys.monitoring (Python 3.12): LINE events in code whose file lies under one of the packages sharepoint2text / olefile /
                 xlrd / openpyxl / pypdf are counted.  PY_START is enabled globally only to *discover* code objects: a library code
                 object gets LINE as a local event, every PY_START location is then switched off (DISABLE), so code outside these
                 packages costs one callback per function, ever.  The callback raises BudgetExceeded (a BaseException, so the
                 library's `except Exception` wrappers let it through) the moment the count crosses the budget; should some bare
                 `except:` swallow it, it is raised again every 2**16 further events.
pass 2 (memory)  only if pass 1 stayed within its budget: tracemalloc peak of the same call ("peak additional memory": tracing
                 starts with the call).  No LINE events in this pass (every LINE event allocates an int, which tracemalloc would
                 trace: the two instruments multiply each other's overhead).  A CPU-time interval timer checks the traced size
                 every 50 ms of CPU time and aborts the call once it is above the budget - this only shortens a run whose peak is
                 above the budget anyway, so the verdict does not depend on when the timer fires.
volume (pass 1)  C-level work on the input that no LINE event sees (data[:pos] copies, data.count / find / split / decode scans, a stream
                 that is read again and again): the caller hands the library a TracedStream (an io.BytesIO whose read* / getvalue
                 results are TracedBytes).  Counted, exactly and deterministically: every byte the stream delivers, every byte a
                 slice of a delivered buffer copies, every byte a scanning / copying bytes method of a delivered buffer goes through
                 (find / index: up to and including the hit).  What C code does through the buffer protocol (re, struct, zlib,
                 BytesIO(data)) is not seen, so the count is a lower bound of the bytes moved.  Budget: 4 MiB + 64 * size; the call
                 is aborted at 8 x the budget.  Only pass 1 gets the traced stream (the memory pass keeps the
                 plain BytesIO, so its peak is that of the library alone).
both passes      RAISE events: a MemoryError raised anywhere during the call (RLIMIT_AS of the worker = 3 GiB) is recorded even if
                 the library swallows it.  CPU time (ITIMER_PROF, never wall time) is limited to 60 s in pass 1 and 300 s under
                 tracemalloc; this is the back-stop for amplification in C code or in modules that are not counted.  The pool's
                 wall-clock kill is the last resort.
"""
from __future__ import annotations

import gc
import io
import os
import signal
import sys
import time
import tracemalloc

mon = sys.monitoring
TOOL = 4
STEP = 200                      # granularity of the slow path of the LINE callback
MIB = 1 << 20
MEM_BASE, MEM_PER_BYTE = 32 * MIB, 64
EV_BASE, EV_PER_BYTE = 2_000_000, 2000
VOL_BASE, VOL_PER_BYTE = 4 * MIB, 64
VOL_ABORT_FACTOR = 8            # the call runs on to 8 x the volume budget, so that the per-byte figure of an over-budget case still says
                                # something about growth (a counter stopped AT a budget of the form a + b * size shows b per byte, always)
CPU_LIMIT = 60.0                # pass 1
CPU_LIMIT_TRACED = 300.0        # pass 2 (tracemalloc slows allocation-heavy code down by an order of magnitude)
TICK = 0.05
PACKAGES = ["sharepoint2text", "olefile", "xlrd", "openpyxl", "pypdf"]


class BudgetExceeded(BaseException):
    pass


class CpuTimeout(BaseException):
    pass


class _S:
    installed = False
    active = False
    mode = None                 # "events" | "memory"
    events = 0
    ev_budget = 0
    mem_budget = 0
    abort = None
    memerr = False
    next_raise = 0
    lib_dirs = ()
    codes = []                  # library code objects discovered so far (LINE is switched on for them during pass 1 only)
    ticks = 0
    max_ticks = 0
    volume = 0                  # bytes of the input delivered / copied / scanned through TracedStream and TracedBytes (pass 1)
    vol_abort = 1 << 62         # the call is stopped at VOL_ABORT_FACTOR x the budget
    vol_next = 0


_b = bytearray(1)


def lib_dirs():
    import importlib.util
    out = []
    for p in PACKAGES:
        try:
            spec = importlib.util.find_spec(p)
        except Exception:
            spec = None
        if spec is None:
            continue
        if spec.submodule_search_locations:
            for d in spec.submodule_search_locations:
                out.append(os.path.realpath(d) + os.sep)
                out.append(os.path.abspath(d) + os.sep)
        elif spec.origin:
            out.append(os.path.realpath(spec.origin))
    return tuple(sorted(set(out)))


def budgets(size: int):
    return EV_BASE + EV_PER_BYTE * size, MEM_BASE + MEM_PER_BYTE * size


def vol_budget(size: int):
    return VOL_BASE + VOL_PER_BYTE * size


# ------------------------------------------------------------------------------------------------ traced input
def _vol(n):
    if not _S.active or _S.mode != "events":
        return
    _S.volume += n
    if _S.abort is None:
        if _S.volume > _S.vol_abort:
            _S.abort = "volume"
            _S.vol_next = _S.volume + (_S.vol_abort >> 2)
            raise BudgetExceeded("volume")
    elif _S.abort == "volume" and _S.volume >= _S.vol_next:
        _S.vol_next = _S.volume + (_S.vol_abort >> 2)
        raise BudgetExceeded("volume")


def _span(length, a):
    """number of bytes in [start:end] of a buffer of `length` bytes (a = the optional (start, end) arguments of a bytes method)"""
    start, stop, _ = slice(a[0] if len(a) > 0 else None, a[1] if len(a) > 1 else None).indices(length)
    return max(stop - start, 0), start, stop


def _sublen(sub):
    return 1 if isinstance(sub, int) else len(sub)


class TracedBytes(bytes):
    """bytes delivered by a TracedStream: slices and the scanning / copying methods report how many bytes they go through.  The
    results are plain bytes (only first-hand work on the input is counted)."""
    __slots__ = ()

    def __getitem__(self, i):
        r = bytes.__getitem__(self, i)
        if type(i) is slice:
            _vol(len(r))
        return r

    def __bytes__(self):
        _vol(len(self))
        return bytes.__getitem__(self, slice(None))

    def __add__(self, other):
        _vol(len(self))
        return bytes.__add__(self, other)

    def __contains__(self, x):
        _vol(len(self))
        return bytes.__contains__(self, x)

    def count(self, sub, *a):
        _vol(_span(len(self), a)[0])
        return bytes.count(self, sub, *a)

    def find(self, sub, *a):
        r = bytes.find(self, sub, *a)
        n, start, _stop = _span(len(self), a)
        _vol(n if r < 0 else min(n, r - start + _sublen(sub)))
        return r

    def rfind(self, sub, *a):
        r = bytes.rfind(self, sub, *a)
        n, _start, stop = _span(len(self), a)
        _vol(n if r < 0 else min(n, stop - r))
        return r

    def index(self, sub, *a):
        n, start, _stop = _span(len(self), a)
        try:
            r = bytes.index(self, sub, *a)
        except ValueError:
            _vol(n)
            raise
        _vol(min(n, r - start + _sublen(sub)))
        return r

    def rindex(self, sub, *a):
        n, _start, stop = _span(len(self), a)
        try:
            r = bytes.rindex(self, sub, *a)
        except ValueError:
            _vol(n)
            raise
        _vol(min(n, stop - r))
        return r


def _whole(name):
    base = getattr(bytes, name)

    def method(self, *a, **k):
        _vol(len(self))
        return base(self, *a, **k)
    method.__name__ = name
    return method


for _name in ("decode", "split", "rsplit", "splitlines", "partition", "rpartition", "replace", "strip", "lstrip", "rstrip", "lower",
              "upper", "translate", "hex", "expandtabs", "ljust", "rjust", "center", "zfill", "title", "swapcase", "capitalize"):
    setattr(TracedBytes, _name, _whole(_name))


class TracedStream(io.BytesIO):
    def read(self, *a):
        r = io.BytesIO.read(self, *a)
        _vol(len(r))
        return TracedBytes(r)

    def read1(self, *a):
        r = io.BytesIO.read1(self, *a)
        _vol(len(r))
        return TracedBytes(r)

    def readline(self, *a):
        r = io.BytesIO.readline(self, *a)
        _vol(len(r))
        return TracedBytes(r)

    def readlines(self, *a):
        r = io.BytesIO.readlines(self, *a)
        _vol(sum(len(x) for x in r))
        return r

    def __next__(self):
        r = io.BytesIO.__next__(self)
        _vol(len(r))
        return r

    def readinto(self, b):
        n = io.BytesIO.readinto(self, b)
        _vol(n or 0)
        return n

    def getvalue(self):
        r = io.BytesIO.getvalue(self)
        _vol(len(r))
        return TracedBytes(r)


def traced_stream(data: bytes):
    """-> the stream to hand to the library in pass 1"""
    return TracedStream(data)


def stream_for(data: bytes):
    """the input stream of the running pass: traced in pass 1 (events + volume), a plain BytesIO otherwise"""
    return traced_stream(data) if (_S.active and _S.mode == "events") else io.BytesIO(data)


def _slow():
    if not _S.active:
        return
    _S.events += STEP
    if _S.abort is None:
        if _S.events > _S.ev_budget:
            _S.abort = "events"
            _S.next_raise = _S.events + 65536
            raise BudgetExceeded("events")
    elif _S.events >= _S.next_raise:
        _S.next_raise = _S.events + 65536
        raise BudgetExceeded(_S.abort)


def _line(code, line):
    x = _b[0] + 1
    if x == STEP:
        _b[0] = 0
        _slow()
    else:
        _b[0] = x


def _start(code, offset):
    if code.co_filename.startswith(_S.lib_dirs):
        _S.codes.append(code)
        if _S.mode == "events":
            try:
                mon.set_local_events(TOOL, code, mon.events.LINE)
            except Exception:
                pass
    return mon.DISABLE


def _raise(code, offset, exc):
    if isinstance(exc, MemoryError):
        _S.memerr = True


def _sigprof(signum, frame):
    if not _S.active:
        return
    _S.ticks += 1
    if _S.ticks >= _S.max_ticks:
        if _S.abort is None:
            _S.abort = "cpu"
        raise CpuTimeout()
    if _S.mode == "memory":
        if _S.abort is None:
            if tracemalloc.get_traced_memory()[0] > _S.mem_budget:
                _S.abort = "memory"
                raise BudgetExceeded("memory")
        elif _S.ticks % 20 == 0:
            raise BudgetExceeded(_S.abort)


def install():
    if _S.installed:
        return
    _S.lib_dirs = lib_dirs()
    if mon.get_tool(TOOL) is None:
        mon.use_tool_id(TOOL, "verif-c12")
    mon.register_callback(TOOL, mon.events.PY_START, _start)
    mon.register_callback(TOOL, mon.events.RAISE, _raise)
    mon.register_callback(TOOL, mon.events.LINE, _line)
    _S.installed = True


def _pass(fn, mode, cpu_limit):
    _S.mode = mode
    _S.abort = None
    _S.ticks = 0
    _S.max_ticks = int(cpu_limit / TICK)
    exc = None
    value = None
    msg = ""
    peak = None
    gc.collect()
    old = signal.signal(signal.SIGPROF, _sigprof)
    if mode == "events":
        _S.events = 0
        _S.volume = 0
        _b[0] = 0
        for c in _S.codes:
            mon.set_local_events(TOOL, c, mon.events.LINE)
    else:
        tracemalloc.start(1)
    mon.set_events(TOOL, mon.events.PY_START | mon.events.RAISE)
    t0 = time.process_time()
    _S.active = True
    try:
        signal.setitimer(signal.ITIMER_PROF, TICK, TICK)
        try:
            value = fn()
        finally:
            _S.active = False
            signal.setitimer(signal.ITIMER_PROF, 0, 0)
    except BaseException as e:  # noqa - everything the call raises is a data point
        exc = type(e).__name__
        msg = str(e)[:300]
        seen = 0
        c = e
        while c is not None and seen < 8:       # a MemoryError that the library wrapped
            if isinstance(c, MemoryError):
                _S.memerr = True
            c = c.__cause__ or c.__context__
            seen += 1
        e = c = None
    finally:
        _S.active = False
        cpu = time.process_time() - t0
        mon.set_events(TOOL, 0)
        if mode == "events":
            for c in _S.codes:
                mon.set_local_events(TOOL, c, 0)
        else:
            peak = tracemalloc.get_traced_memory()[1]
            tracemalloc.stop()
        signal.signal(signal.SIGPROF, old if old is not None else signal.SIG_DFL)
        _S.mode = None
    return {"exc": exc, "msg": msg, "value": value, "cpu": round(cpu, 3), "abort": _S.abort, "peak": peak}


def measure(fn, size: int, enforce: bool = True) -> dict:
    """Run fn() under the meter (twice, see the module docstring).  size = uncompressed input size in bytes (decides the budgets).
    Returns events, volume (bytes of the input moved in pass 1, if fn used stream_for), peak (None if pass 2 was not run), abort (None | 'events' | 'memory' | 'cpu'), memerr, exc / msg / value of
    pass 1 (type name of what fn raised | None), cpu (seconds of pass 1, informational)."""
    install()
    ev_budget, mem_budget = budgets(size)
    _S.ev_budget = ev_budget if enforce else 1 << 62
    _S.mem_budget = mem_budget if enforce else 1 << 62
    _S.vol_abort = VOL_ABORT_FACTOR * vol_budget(size) if enforce else 1 << 62
    _S.memerr = False
    p1 = _pass(fn, "events", CPU_LIMIT)
    events = _S.events + _b[0]
    out = {"events": events, "peak": None, "abort": p1["abort"], "memerr": _S.memerr, "exc": p1["exc"], "msg": p1["msg"],
           "value": p1["value"], "cpu": p1["cpu"], "ev_budget": ev_budget, "mem_budget": mem_budget, "size": size, "cpu2": None,
           "volume": _S.volume, "vol_budget": vol_budget(size)}
    if p1["abort"] is None and not _S.memerr and events <= ev_budget and _S.volume <= vol_budget(size):
        p2 = _pass(fn, "memory", CPU_LIMIT_TRACED)
        out["peak"] = p2["peak"]
        out["cpu2"] = p2["cpu"]
        out["memerr"] = _S.memerr
        if p2["abort"] is not None:
            out["abort"] = p2["abort"] + ("-traced" if p2["abort"] == "cpu" else "")
        if (p2["exc"], p2["value"]) != (p1["exc"], p1["value"]) and p2["abort"] is None:
            out["unstable"] = f"pass 1: {p1['exc']} {p1['value']!r}; pass 2: {p2['exc']} {p2['value']!r}"
    return out


def verdict(m: dict):
    """-> list of violated counters (strings); empty = within budget"""
    out = []
    if m["abort"] == "cpu":
        out.append(f"CPU time limit of {CPU_LIMIT:.0f} s crossed (amplification outside the counted code)")
    if m["abort"] == "cpu-traced":
        out.append(f"CPU time limit of {CPU_LIMIT_TRACED:.0f} s crossed in the memory pass")
    if m["events"] > m["ev_budget"] or m["abort"] == "events":
        out.append(f"line events {m['events']} > budget {m['ev_budget']} (aborted at the budget)")
    if m.get("volume", 0) > m.get("vol_budget", 1 << 62) or m["abort"] == "volume":
        out.append(f"input bytes delivered / copied / scanned {m.get('volume')} > budget {m.get('vol_budget')}" + (" (aborted at %d x the budget)" % VOL_ABORT_FACTOR if m["abort"] == "volume" else ""))
    if (m["peak"] is not None and m["peak"] > m["mem_budget"]) or m["abort"] == "memory":
        out.append(f"peak additional memory {m['peak']} B > budget {m['mem_budget']} B")
    if m["memerr"]:
        out.append("MemoryError under the 3 GiB address-space limit")
    return out
