"""C12 helper: the amplifier templates.  Every template is a small file (about 2 KB or less, unless the magnitude itself is the
size of the input: the "grow" templates) with ONE magnitude hole n.  build(tid, n) -> {"name", "data", "size"} where `size` is
the uncompressed input size that decides the budgets (ZIP packages: the sum of the uncompressed member sizes, never less than the
file size; archives: see c12 archive templates).  Nothing is random; output depends only on (tid, n).

kinds:  hole   n only changes a number written in the file            magnitudes 10^0..10^6 (quick) ..10^9, 2^31-1, 2^31+1, 2^32-1
        u16    n is stored in a 16-bit field                          1, 10, 100, 1000, 10^4, 65535
        u8     8-bit field                                            1, 10, 100, 255
        grow   n is a nesting depth / item count: file size ~ n       1, 10, 100, 1000 (quick) .. 10^4, 10^5
        exp    n = expansion factor 10^k of an entity bomb            10^1 .. 10^6 (quick) .. 10^9
        one    no hole (cycles, external entities)                    1
        <host>-part<j>-entity-bomb (kind exp, PART_BOMB_MAGS): the entity bomb in member j of the host's package (every XML member of
        docx / pptx / xlsx / odt / ods / odp / odg / epub, one template each); expansion 10^3, 10^6 (quick) + 10^7, 10^9
        mbox-empty-* (kind grow, MBOX_EMPTY): separator lines that delimit EMPTY messages, five layouts, n = 1..10^4 quick / ..10^5
        archive-of-zeros templates (ZMAGS / TMAGS): n also = per-member limit, limit + 1, 10^8 in the quick tier
        .doc picture templates (kind hole, own lattice DOC_PIC_MAGS): n = number of picture headers inside one declared picture
        extent of a DOC_STREAM-byte stream; 1, 10, 100, 1000 (quick) .. 6000 (thorough); the file size does not depend on n
"""
from __future__ import annotations

import io
import struct
import zipfile
import zlib

from verif.gen.tokens import Tokens

TEMPLATES: dict = {}
# The templates are written with placeholder tokens; every placeholder is replaced by a token of Tokens(VERIF_SEED) of the same class
# and length before the file is assembled (ZIP members: before compression; checksummed archive members: at the source).
PLACEHOLDERS = ["Bbcdfg", "Bcdfgh", "Bdfghj", "Cbcdfg", "Lbcdfg", "Hbcdfg", "Nbcdfg", "Xbcdfg", "Zbcdfg", "Zcdfgh"]
_TOKMAP: dict = {}


def _tokmap():
    if not _TOKMAP:
        tk = Tokens()
        for lit in PLACEHOLDERS:
            _TOKMAP[lit] = tk.new(lit[0])
    return _TOKMAP


def tok(lit):
    return _tokmap()[lit]


def _sub(x):
    """single pass (no chained replacement): every placeholder occurrence -> its seeded token"""
    import re
    m = _tokmap()
    if isinstance(x, str):
        return re.sub("|".join(m), lambda mo: m[mo.group(0)], x)
    if isinstance(x, (bytes, bytearray)):
        return re.sub("|".join(m).encode(), lambda mo: m[mo.group(0).decode()].encode(), bytes(x))
    if isinstance(x, list):
        return [_sub(y) for y in x]
    if isinstance(x, dict):
        return {k: _sub(v) for k, v in x.items()}
    return x


SUB_AFTER = (".html", ".rtf", ".eml", ".mbox", ".mhtml", ".pdf")
MAGS = {
    "hole": ([10 ** k for k in range(0, 7)], [10 ** k for k in range(0, 10)] + [2 ** 31 - 1, 2 ** 31 + 1, 2 ** 32 - 1]),
    "u16": ([1, 10, 100, 1000, 10 ** 4, 65535],) * 2,
    "u8": ([1, 10, 100, 255],) * 2,
    "grow": ([1, 10, 100], [1, 10, 100, 1000, 10 ** 4]),
    "exp": ([10 ** k for k in range(1, 7)], [10 ** k for k in range(1, 10)]),
    "one": ([1],) * 2,
}


def template(tid, kind, doc, expect="ok", mags=None):
    """expect: outcome class of the smallest magnitude ('ok' = extraction returns results; 'any' = not checked)."""
    def deco(fn):
        assert tid not in TEMPLATES, tid
        TEMPLATES[tid] = {"id": tid, "kind": kind, "doc": doc, "build": fn, "expect": expect, "mags": mags}
        return fn
    return deco


def magnitudes(tid, tier):
    t = TEMPLATES[tid]
    if t["mags"] is not None:
        return list(t["mags"][0 if tier == "quick" else 1])
    return list(MAGS[t["kind"]][0 if tier == "quick" else 1])


def build(tid, n):
    out = TEMPLATES[tid]["build"](int(n))
    if len(out) == 2:
        name, data = out
        size = usize(data)
    else:
        name, data, size = out
    if name.endswith(SUB_AFTER):
        data = _sub(data)
    return {"name": name, "data": data, "size": int(size)}


# ------------------------------------------------------------------------------------------------ helpers
def mkzip(members, stored=("mimetype",)):
    buf = io.BytesIO()
    with zipfile.ZipFile(buf, "w") as z:
        for name, data in members:
            zi = zipfile.ZipInfo(name, (1980, 1, 1, 0, 0, 0))
            zi.compress_type = zipfile.ZIP_STORED if name in stored else zipfile.ZIP_DEFLATED
            zi.external_attr = 0o100644 << 16
            z.writestr(zi, _sub(data if isinstance(data, bytes) else data.encode("utf-8")))
    return buf.getvalue()


def usize(data: bytes) -> int:
    """uncompressed input size: for a ZIP package the sum of the (honest) uncompressed member sizes, at least the file size"""
    if data[:2] == b"PK":
        try:
            with zipfile.ZipFile(io.BytesIO(data)) as z:
                return max(len(data), sum(i.file_size for i in z.infolist()))
        except Exception:
            return len(data)
    return len(data)


XMLDECL = '<?xml version="1.0" encoding="UTF-8"?>'

# ------------------------------------------------------------------------------------------------ ODF
ODF_NS = ('xmlns:office="urn:oasis:names:tc:opendocument:xmlns:office:1.0" '
          'xmlns:text="urn:oasis:names:tc:opendocument:xmlns:text:1.0" '
          'xmlns:table="urn:oasis:names:tc:opendocument:xmlns:table:1.0" '
          'xmlns:draw="urn:oasis:names:tc:opendocument:xmlns:drawing:1.0" '
          'xmlns:svg="urn:oasis:names:tc:opendocument:xmlns:svg-compatible:1.0" '
          'xmlns:xlink="http://www.w3.org/1999/xlink"')
ODF_MIME = {"odt": "application/vnd.oasis.opendocument.text", "ods": "application/vnd.oasis.opendocument.spreadsheet",
            "odp": "application/vnd.oasis.opendocument.presentation", "odg": "application/vnd.oasis.opendocument.graphics"}
ODF_BODY = {"odt": "text", "ods": "spreadsheet", "odp": "presentation", "odg": "drawing"}


def odf_pkg(fmt, body, prolog="", extra=()):
    content = (f'{XMLDECL}{prolog}<office:document-content {ODF_NS} office:version="1.2"><office:body><office:{ODF_BODY[fmt]}>'
               f'{body}</office:{ODF_BODY[fmt]}></office:body></office:document-content>')
    manifest = (f'{XMLDECL}<manifest:manifest xmlns:manifest="urn:oasis:names:tc:opendocument:xmlns:manifest:1.0" '
                f'manifest:version="1.2"><manifest:file-entry manifest:full-path="/" manifest:version="1.2" '
                f'manifest:media-type="{ODF_MIME[fmt]}"/><manifest:file-entry manifest:full-path="content.xml" '
                f'manifest:media-type="text/xml"/></manifest:manifest>')
    return f"t.{fmt}", mkzip([("mimetype", ODF_MIME[fmt]), ("content.xml", content), *extra, ("META-INF/manifest.xml", manifest)])


def _ods(rows):
    return odf_pkg("ods", f'<table:table table:name="Nbcdfg">{rows}</table:table>')


CELL_S = '<table:table-cell office:value-type="string"{a}><text:p>Cbcdfg</text:p></table:table-cell>'
CELL_F = '<table:table-cell office:value-type="float" office:value="7"{a}><text:p>7</text:p></table:table-cell>'
ROW = '<table:table-row{a}>{c}</table:table-row>'


@template("ods-cols-empty", "hole", "ODS: value cell followed by an EMPTY cell with table:number-columns-repeated=n (how LibreOffice pads every row)")
def _(n):
    return _ods(ROW.format(a="", c=CELL_S.format(a="") + f'<table:table-cell table:number-columns-repeated="{n}"/>'))


@template("ods-rows-empty", "hole", "ODS: value row followed by an EMPTY row with table:number-rows-repeated=n")
def _(n):
    return _ods(ROW.format(a="", c=CELL_S.format(a="")) + ROW.format(a=f' table:number-rows-repeated="{n}"', c="<table:table-cell/>"))


@template("ods-cols-value", "hole", "ODS: one float cell with table:number-columns-repeated=n")
def _(n):
    return _ods(ROW.format(a="", c=CELL_F.format(a=f' table:number-columns-repeated="{n}"')))


@template("ods-rows-value", "hole", "ODS: one row holding a string cell, table:number-rows-repeated=n")
def _(n):
    return _ods(ROW.format(a=f' table:number-rows-repeated="{n}"', c=CELL_S.format(a="")))


@template("ods-cols-gap", "hole", "ODS: n empty repeated cells IN FRONT of a value cell (a sparse far cell)")
def _(n):
    return _ods(ROW.format(a="", c=f'<table:table-cell table:number-columns-repeated="{n}"/>' + CELL_S.format(a="")))


@template("ods-rows-gap", "hole", "ODS: n empty repeated rows IN FRONT of a value row")
def _(n):
    return _ods(ROW.format(a=f' table:number-rows-repeated="{n}"', c="<table:table-cell/>") + ROW.format(a="", c=CELL_S.format(a="")))


@template("ods-grid-empty", "hole", "ODS: empty cell repeated n times in an empty row repeated n times, after one value cell")
def _(n):
    return _ods(ROW.format(a="", c=CELL_S.format(a="")) +
                ROW.format(a=f' table:number-rows-repeated="{n}"', c=f'<table:table-cell table:number-columns-repeated="{n}"/>'))


@template("ods-coldecl", "hole", "ODS: table:table-column with table:number-columns-repeated=n (column declarations only)")
def _(n):
    return _ods(f'<table:table-column table:number-columns-repeated="{n}"/>' + ROW.format(a="", c=CELL_S.format(a="")))


@template("ods-span", "hole", "ODS: a value cell with table:number-columns-spanned=n and table:number-rows-spanned=n")
def _(n):
    return _ods(ROW.format(a="", c=CELL_S.format(a=f' table:number-columns-spanned="{n}" table:number-rows-spanned="{n}"')))


def _odt_tbl(cell_a="", row_a="", col_n=1):
    return (f'<table:table table:name="T1"><table:table-column table:number-columns-repeated="{col_n}"/>'
            f'<table:table-row{row_a}><table:table-cell office:value-type="string"{cell_a}><text:p>Cbcdfg</text:p></table:table-cell>'
            f'</table:table-row></table:table>')


@template("odt-tbl-cols", "hole", "ODT: text table whose only cell has table:number-columns-repeated=n")
def _(n):
    return odf_pkg("odt", "<text:p>Bbcdfg</text:p>" + _odt_tbl(cell_a=f' table:number-columns-repeated="{n}"', col_n=n))


@template("odt-tbl-rows", "hole", "ODT: text table whose only row has table:number-rows-repeated=n")
def _(n):
    return odf_pkg("odt", "<text:p>Bbcdfg</text:p>" + _odt_tbl(row_a=f' table:number-rows-repeated="{n}"'))


@template("odp-tbl-cols", "hole", "ODP: table in a frame, cell with table:number-columns-repeated=n and row with number-rows-repeated=n")
def _(n):
    t = _odt_tbl(cell_a=f' table:number-columns-repeated="{n}"', row_a=f' table:number-rows-repeated="{n}"', col_n=n)
    return odf_pkg("odp", f'<draw:page draw:name="page1"><draw:frame svg:x="1cm" svg:y="1cm" svg:width="5cm" svg:height="2cm">{t}'
                          f'</draw:frame></draw:page>')


def _spaces(n):
    return f'<text:p>Bbcdfg<text:s text:c="{n}"/>Bcdfgh</text:p>'


@template("odt-text-s", "hole", "ODT paragraph with <text:s text:c=n/>")
def _(n):
    return odf_pkg("odt", _spaces(n))


@template("odt-text-s-cell", "hole", "ODT table cell paragraph with <text:s text:c=n/>")
def _(n):
    return odf_pkg("odt", '<table:table table:name="T1"><table:table-column/><table:table-row><table:table-cell '
                          f'office:value-type="string">{_spaces(n)}</table:table-cell></table:table-row></table:table>')


@template("ods-text-s", "hole", "ODS string cell whose paragraph holds <text:s text:c=n/>")
def _(n):
    return _ods(ROW.format(a="", c=f'<table:table-cell office:value-type="string">{_spaces(n)}</table:table-cell>'))


def _frame(inner):
    return (f'<draw:page draw:name="page1"><draw:frame svg:x="1cm" svg:y="1cm" svg:width="5cm" svg:height="2cm"><draw:text-box>'
            f'{inner}</draw:text-box></draw:frame></draw:page>')


@template("odp-text-s", "hole", "ODP text box paragraph with <text:s text:c=n/>")
def _(n):
    return odf_pkg("odp", _frame(_spaces(n)))


@template("odg-text-s", "hole", "ODG text box paragraph with <text:s text:c=n/>")
def _(n):
    return odf_pkg("odg", _frame(_spaces(n)))


@template("odt-nest-list", "grow", "ODT: text:list nested n deep, one paragraph in the innermost item")
def _(n):
    return odf_pkg("odt", "<text:list><text:list-item>" * n + "<text:p>Lbcdfg</text:p>" + "</text:list-item></text:list>" * n)


@template("odt-nest-span", "grow", "ODT: text:span nested n deep inside one paragraph")
def _(n):
    return odf_pkg("odt", "<text:p>" + "<text:span>" * n + "Bbcdfg" + "</text:span>" * n + "</text:p>")


@template("odt-nest-table", "grow", "ODT: 1x1 tables nested n deep", mags=([1, 10, 100], [1, 10, 100, 1000]))
def _(n):
    o = '<table:table><table:table-column/><table:table-row><table:table-cell office:value-type="string"><text:p>Cbcdfg</text:p>'
    c = "</table:table-cell></table:table-row></table:table>"
    return odf_pkg("odt", o * n + c * n)


@template("odp-nest-group", "grow", "ODP: draw:g groups nested n deep around one text box")
def _(n):
    inner = ('<draw:frame svg:x="1cm" svg:y="1cm" svg:width="5cm" svg:height="2cm"><draw:text-box><text:p>Bbcdfg</text:p>'
             '</draw:text-box></draw:frame>')
    return odf_pkg("odp", '<draw:page draw:name="page1">' + "<draw:g>" * n + inner + "</draw:g>" * n + "</draw:page>")


# ------------------------------------------------------------------------------------------------ OOXML
CT = ('<Types xmlns="http://schemas.openxmlformats.org/package/2006/content-types"><Default Extension="rels" '
      'ContentType="application/vnd.openxmlformats-package.relationships+xml"/><Default Extension="xml" ContentType="application/xml"/>'
      '<Default Extension="png" ContentType="image/png"/>{o}</Types>')
RELS = '<Relationships xmlns="http://schemas.openxmlformats.org/package/2006/relationships">{r}</Relationships>'
REL = '<Relationship Id="{i}" Type="http://schemas.openxmlformats.org/officeDocument/2006/relationships/{t}" Target="{g}"/>'
W_NS = ('xmlns:w="http://schemas.openxmlformats.org/wordprocessingml/2006/main" '
        'xmlns:m="http://schemas.openxmlformats.org/officeDocument/2006/math" '
        'xmlns:r="http://schemas.openxmlformats.org/officeDocument/2006/relationships"')
S_NS = ('xmlns="http://schemas.openxmlformats.org/spreadsheetml/2006/main" '
        'xmlns:r="http://schemas.openxmlformats.org/officeDocument/2006/relationships"')


def docx_pkg(body, prolog="", extra=(), doc_rels=""):
    ct = CT.format(o='<Override PartName="/word/document.xml" ContentType="application/vnd.openxmlformats-officedocument.'
                     'wordprocessingml.document.main+xml"/>')
    doc = f'{XMLDECL}{prolog}<w:document {W_NS}><w:body>{body}<w:sectPr/></w:body></w:document>'
    m = [("[Content_Types].xml", XMLDECL + ct), ("_rels/.rels", XMLDECL + RELS.format(r=REL.format(i="rId1", t="officeDocument", g="word/document.xml"))),
         ("word/document.xml", doc)]
    if doc_rels:
        m.append(("word/_rels/document.xml.rels", XMLDECL + RELS.format(r=doc_rels)))
    return "t.docx", mkzip(m + list(extra), stored=())


def xlsx_pkg(sheet_inner, prolog="", sst=None, wb_extra=""):
    ct = CT.format(o='<Override PartName="/xl/workbook.xml" ContentType="application/vnd.openxmlformats-officedocument.spreadsheetml.'
                     'sheet.main+xml"/><Override PartName="/xl/worksheets/sheet1.xml" ContentType="application/vnd.openxmlformats-'
                     'officedocument.spreadsheetml.worksheet+xml"/>' +
                     ('<Override PartName="/xl/sharedStrings.xml" ContentType="application/vnd.openxmlformats-officedocument.'
                      'spreadsheetml.sharedStrings+xml"/>' if sst else ""))
    wb = (f'{XMLDECL}<workbook {S_NS}><sheets><sheet name="Nbcdfg" sheetId="1" r:id="rId1"/></sheets>{wb_extra}</workbook>')
    rels = REL.format(i="rId1", t="worksheet", g="worksheets/sheet1.xml") + (REL.format(i="rId2", t="sharedStrings", g="sharedStrings.xml") if sst else "")
    m = [("[Content_Types].xml", XMLDECL + ct), ("_rels/.rels", XMLDECL + RELS.format(r=REL.format(i="rId1", t="officeDocument", g="xl/workbook.xml"))),
         ("xl/workbook.xml", wb), ("xl/_rels/workbook.xml.rels", XMLDECL + RELS.format(r=rels)),
         ("xl/worksheets/sheet1.xml", f'{XMLDECL}{prolog}<worksheet {S_NS}>{sheet_inner}</worksheet>')]
    if sst:
        m.append(("xl/sharedStrings.xml", XMLDECL + sst))
    return "t.xlsx", mkzip(m, stored=())


def col_letters(c):
    s = ""
    c += 1
    while c:
        c, r = divmod(c - 1, 26)
        s = chr(65 + r) + s
    return s


CELL_X = '<c r="{r}" t="inlineStr"><is><t>Cbcdfg</t></is></c>'


@template("xlsx-dimension", "hole", "XLSX: <dimension ref='A1:XFDn'/> declared, one real cell A1 (rows/cols beyond the format's 2^20 x 2^14 are still just numbers)")
def _(n):
    return xlsx_pkg(f'<dimension ref="A1:{col_letters(min(n, 16384) - 1)}{n}"/><sheetData><row r="1">{CELL_X.format(r="A1")}</row></sheetData>')


@template("xlsx-far-row", "hole", "XLSX: two cells, A1 and A<n+1> (sparse far row)")
def _(n):
    return xlsx_pkg(f'<sheetData><row r="1">{CELL_X.format(r="A1")}</row><row r="{n + 1}">{CELL_X.format(r="A%d" % (n + 1))}</row></sheetData>')


@template("xlsx-far-col", "hole", "XLSX: two cells, A1 and column n+1 of row 1 (sparse far column; the format ends at column 16384)",
          mags=([1, 10, 100, 1000, 10 ** 4, 16383],) * 2)
def _(n):
    return xlsx_pkg(f'<sheetData><row r="1">{CELL_X.format(r="A1")}{CELL_X.format(r=col_letters(n) + "1")}</row></sheetData>')


@template("xlsx-far-both", "hole", "XLSX: two cells, A1 and (row n+1, column min(n,16383)+1)")
def _(n):
    ref = f"{col_letters(min(n, 16383))}{n + 1}"
    return xlsx_pkg(f'<sheetData><row r="1">{CELL_X.format(r="A1")}</row><row r="{n + 1}">{CELL_X.format(r=ref)}</row></sheetData>')


@template("xlsx-row-spans", "hole", "XLSX: <row spans='1:n'> and <cols><col min=1 max=n/></cols> with one real cell")
def _(n):
    return xlsx_pkg(f'<cols><col min="1" max="{n}" width="9"/></cols><sheetData><row r="1" spans="1:{n}">{CELL_X.format(r="A1")}</row></sheetData>')


@template("xlsx-merge", "hole", "XLSX: one cell A1 and <mergeCell ref='A1:A<n+1>'/>")
def _(n):
    return xlsx_pkg(f'<sheetData><row r="1">{CELL_X.format(r="A1")}</row></sheetData><mergeCells count="1"><mergeCell ref="A1:A{n + 1}"/></mergeCells>')


@template("xlsx-sst-count", "hole", "XLSX: sharedStrings count/uniqueCount=n declared, one string; the cell references index 0")
def _(n):
    return xlsx_pkg('<sheetData><row r="1"><c r="A1" t="s"><v>0</v></c></row></sheetData>',
                    sst=f'<sst {S_NS.split(" ")[0]} count="{n}" uniqueCount="{n}"><si><t>Cbcdfg</t></si></sst>')


@template("xlsx-defined-name", "hole", "XLSX: definedName (print area) Nbcdfg!$A$1:$XFD$n")
def _(n):
    return xlsx_pkg(f'<sheetData><row r="1">{CELL_X.format(r="A1")}</row></sheetData>',
                    wb_extra=f'<definedNames><definedName name="_xlnm.Print_Area" localSheetId="0">Nbcdfg!$A$1:$XFD${n}</definedName></definedNames>')


def _wp(t):
    return f"<w:p><w:r><w:t>{t}</w:t></w:r></w:p>"


@template("docx-gridspan", "hole", "DOCX: 1x1 table whose cell has w:gridSpan=n and whose grid declares one column")
def _(n):
    return docx_pkg(_wp("Bbcdfg") + f'<w:tbl><w:tblGrid><w:gridCol w:w="100"/></w:tblGrid><w:tr><w:tc><w:tcPr><w:gridSpan w:val="{n}"/>'
                    f'</w:tcPr>{_wp("Cbcdfg")}</w:tc></w:tr></w:tbl>')


@template("docx-nest-table", "grow", "DOCX: 1x1 tables nested n deep", mags=([1, 10, 100], [1, 10, 100, 1000]))
def _(n):
    o = "<w:tbl><w:tblGrid><w:gridCol/></w:tblGrid><w:tr><w:tc>" + _wp("Cbcdfg")
    c = "<w:p/></w:tc></w:tr></w:tbl>"
    return docx_pkg(o * n + c * n)


@template("docx-nest-sdt", "grow", "DOCX: block-level w:sdt nested n deep around one paragraph")
def _(n):
    return docx_pkg("<w:sdt><w:sdtContent>" * n + _wp("Bbcdfg") + "</w:sdtContent></w:sdt>" * n)


@template("docx-nest-omml-frac", "grow", "DOCX: m:f fractions nested n deep in the numerator (OMML -> LaTeX)")
def _(n):
    o = "<m:f><m:num>"
    c = "</m:num><m:den><m:r><m:t>y</m:t></m:r></m:den></m:f>"
    return docx_pkg(f"<w:p><m:oMath>{o * n}<m:r><m:t>x</m:t></m:r>{c * n}</m:oMath></w:p>")


@template("docx-nest-omml-rad", "grow", "DOCX: m:rad radicals nested n deep (OMML -> LaTeX)")
def _(n):
    o = "<m:rad><m:deg/><m:e>"
    c = "</m:e></m:rad>"
    return docx_pkg(f"<w:p><m:oMath>{o * n}<m:r><m:t>x</m:t></m:r>{c * n}</m:oMath></w:p>")


@template("docx-omml-matrix", "hole", "DOCX: m:m matrix with m:mcs/m:mc/m:mcPr/m:count=n declared columns, one real cell")
def _(n):
    return docx_pkg(f'<w:p><m:oMath><m:m><m:mPr><m:mcs><m:mc><m:mcPr><m:count m:val="{n}"/></m:mcPr></m:mc></m:mcs></m:mPr>'
                    f'<m:mr><m:e><m:r><m:t>x</m:t></m:r></m:e></m:mr></m:m></m:oMath></w:p>')


def png(w, h):
    """1x1 pixel of image data under an IHDR that declares w x h (CRC of the IHDR chunk is correct)"""
    def chunk(t, d):
        return struct.pack(">I", len(d)) + t + d + struct.pack(">I", zlib.crc32(t + d) & 0xFFFFFFFF)
    return (b"\x89PNG\r\n\x1a\n" + chunk(b"IHDR", struct.pack(">IIBBBBB", w & 0xFFFFFFFF, h & 0xFFFFFFFF, 8, 0, 0, 0, 0)) +
            chunk(b"IDAT", zlib.compress(b"\x00\x00")) + chunk(b"IEND", b""))


A_NS = ('xmlns:a="http://schemas.openxmlformats.org/drawingml/2006/main" xmlns:pic="http://schemas.openxmlformats.org/drawingml/2006/picture" '
        'xmlns:wp="http://schemas.openxmlformats.org/drawingml/2006/wordprocessingDrawing"')


@template("docx-png-dims", "hole", "DOCX: inline picture, PNG whose IHDR declares n x n pixels; wp:extent cx=cy=n")
def _(n):
    d = (f'<w:p><w:r><w:drawing><wp:inline {A_NS}><wp:extent cx="{n}" cy="{n}"/><wp:docPr id="1" name="Zbcdfg"/><a:graphic><a:graphicData '
         f'uri="http://schemas.openxmlformats.org/drawingml/2006/picture"><pic:pic><pic:nvPicPr><pic:cNvPr id="1" name="Zcdfgh"/><pic:cNvPicPr/>'
         f'</pic:nvPicPr><pic:blipFill><a:blip r:embed="rId1"/></pic:blipFill><pic:spPr/></pic:pic></a:graphicData></a:graphic></wp:inline>'
         f'</w:drawing></w:r></w:p>')
    return docx_pkg(_wp("Bbcdfg") + d, extra=[("word/media/image1.png", png(n, n))], doc_rels=REL.format(i="rId1", t="image", g="media/image1.png"))


@template("odt-png-dims", "hole", "ODT: draw:frame/draw:image, PNG whose IHDR declares n x n pixels")
def _(n):
    body = ('<text:p>Bbcdfg<draw:frame draw:name="Zbcdfg" svg:width="1cm" svg:height="1cm"><draw:image xlink:href="Pictures/i.png" '
            'xlink:type="simple"/></draw:frame></text:p>')
    return odf_pkg("odt", body, extra=[("Pictures/i.png", png(n, n))])


P_NS = ('xmlns:p="http://schemas.openxmlformats.org/presentationml/2006/main" xmlns:a="http://schemas.openxmlformats.org/drawingml/2006/main" '
        'xmlns:r="http://schemas.openxmlformats.org/officeDocument/2006/relationships"')


def pptx_pkg(sp_tree, prolog=""):
    ct = CT.format(o='<Override PartName="/ppt/presentation.xml" ContentType="application/vnd.openxmlformats-officedocument.presentationml.'
                     'presentation.main+xml"/><Override PartName="/ppt/slides/slide1.xml" ContentType="application/vnd.openxmlformats-'
                     'officedocument.presentationml.slide+xml"/>')
    pres = f'{XMLDECL}<p:presentation {P_NS}><p:sldIdLst><p:sldId id="256" r:id="rId1"/></p:sldIdLst></p:presentation>'
    slide = (f'{XMLDECL}{prolog}<p:sld {P_NS}><p:cSld><p:spTree><p:nvGrpSpPr><p:cNvPr id="1" name=""/><p:cNvGrpSpPr/><p:nvPr/></p:nvGrpSpPr>'
             f'<p:grpSpPr/>{sp_tree}</p:spTree></p:cSld></p:sld>')
    return "t.pptx", mkzip([("[Content_Types].xml", XMLDECL + ct),
                            ("_rels/.rels", XMLDECL + RELS.format(r=REL.format(i="rId1", t="officeDocument", g="ppt/presentation.xml"))),
                            ("ppt/presentation.xml", pres),
                            ("ppt/_rels/presentation.xml.rels", XMLDECL + RELS.format(r=REL.format(i="rId1", t="slide", g="slides/slide1.xml"))),
                            ("ppt/slides/slide1.xml", slide)], stored=())


def _sp(t, off=0):
    return (f'<p:sp><p:nvSpPr><p:cNvPr id="2" name="Zbcdfg"/><p:cNvSpPr txBox="1"/><p:nvPr/></p:nvSpPr><p:spPr><a:xfrm><a:off x="{off}" y="{off}"/>'
            f'<a:ext cx="100" cy="100"/></a:xfrm></p:spPr><p:txBody><a:bodyPr/><a:p><a:r><a:t>{t}</a:t></a:r></a:p></p:txBody></p:sp>')


@template("pptx-offset", "hole", "PPTX: text box at a:off x=y=n (EMU); shapes are ordered by position")
def _(n):
    return pptx_pkg(_sp("Bbcdfg", n) + _sp("Bcdfgh", 0))


@template("pptx-nest-group", "grow", "PPTX: p:grpSp groups nested n deep around one text box")
def _(n):
    o = '<p:grpSp><p:nvGrpSpPr><p:cNvPr id="3" name=""/><p:cNvGrpSpPr/><p:nvPr/></p:nvGrpSpPr><p:grpSpPr/>'
    return pptx_pkg(o * n + _sp("Bbcdfg") + "</p:grpSp>" * n)


@template("pptx-gridspan", "hole", "PPTX: 1x1 a:tbl whose cell has gridSpan=n rowSpan=n")
def _(n):
    t = (f'<p:graphicFrame><p:nvGraphicFramePr><p:cNvPr id="4" name="Zbcdfg"/><p:cNvGraphicFramePr/><p:nvPr/></p:nvGraphicFramePr><p:xfrm>'
         f'<a:off x="0" y="0"/><a:ext cx="100" cy="100"/></p:xfrm><a:graphic><a:graphicData uri="http://schemas.openxmlformats.org/drawingml/'
         f'2006/table"><a:tbl><a:tblGrid><a:gridCol w="100"/></a:tblGrid><a:tr h="100"><a:tc gridSpan="{n}" rowSpan="{n}"><a:txBody><a:bodyPr/>'
         f'<a:p><a:r><a:t>Cbcdfg</a:t></a:r></a:p></a:txBody></a:tc></a:tr></a:tbl></a:graphicData></a:graphic></p:graphicFrame>')
    return pptx_pkg(t)


# ------------------------------------------------------------------------------------------------ XML entity / DTD tricks
def laughs(n):
    """internal-subset entity bomb whose expansion of &z; is n = 10^k characters 'A' (k levels of 10 references)"""
    k = len(str(n)) - 1
    ents = ['<!ENTITY e0 "A">'] + [f'<!ENTITY e{i} "{("&e%d;" % (i - 1)) * 10}">' for i in range(1, k + 1)]
    return f'<!DOCTYPE x [{"".join(ents)}]>', f"&e{k};"


EXT_KINDS = {
    "ext-entity": ('<!DOCTYPE x [<!ENTITY z SYSTEM "file:///dev/zero">]>', "&z;"),
    "ext-dtd": ('<!DOCTYPE x SYSTEM "file:///dev/zero">', ""),
    "param-entity": ('<!DOCTYPE x [<!ENTITY % pe SYSTEM "file:///dev/zero"> %pe;]>', ""),
    "int-entity": ('<!DOCTYPE x [<!ENTITY z "Xbcdfg">]>', "&z;"),
}


def _entity_hosts():
    return {
        "docx": lambda pro, ref: docx_pkg(_wp("Bbcdfg" + ref), prolog=pro),
        "pptx": lambda pro, ref: pptx_pkg(_sp("Bbcdfg" + ref), prolog=pro),
        "xlsx": lambda pro, ref: xlsx_pkg(f'<sheetData><row r="1"><c r="A1" t="inlineStr"><is><t>Cbcdfg{ref}</t></is></c></row></sheetData>', prolog=pro),
        "odt": lambda pro, ref: odf_pkg("odt", f"<text:p>Bbcdfg{ref}</text:p>", prolog=pro),
        "ods": lambda pro, ref: odf_pkg("ods", '<table:table table:name="Nbcdfg"><table:table-row><table:table-cell office:value-type="string">'
                                               f'<text:p>Cbcdfg{ref}</text:p></table:table-cell></table:table-row></table:table>', prolog=pro),
        "odp": lambda pro, ref: odf_pkg("odp", _frame(f"<text:p>Bbcdfg{ref}</text:p>"), prolog=pro),
        "odg": lambda pro, ref: odf_pkg("odg", _frame(f"<text:p>Bbcdfg{ref}</text:p>"), prolog=pro),
    }


def _mk_entity_templates():
    for host, fn in _entity_hosts().items():
        def lol(n, fn=fn):
            pro, ref = laughs(n)
            return fn(pro, ref)
        template(f"{host}-entity-bomb", "exp", f"{host.upper()} main part: internal entity bomb expanding to n characters (k = log10 n "
                                               f"levels of 10 references); XML with entity declarations must be refused", expect="any")(lol)
        for kind, (pro, ref) in EXT_KINDS.items():
            def ext(n, fn=fn, pro=pro, ref=ref):
                return fn(pro, ref)
            template(f"{host}-{kind}", "one", f"{host.upper()} main part with {pro}", expect="any")(ext)


_mk_entity_templates()


# grow templates inside ZIP packages are STORED (not deflated): highly repetitive markup would otherwise trip the library's ZIP bomb
# guard (total compression ratio > 200) and the case would say nothing about the extractor
def _restore_stored(pkg):
    name, data = pkg
    with zipfile.ZipFile(io.BytesIO(data)) as z:
        members = [(i.filename, z.read(i)) for i in z.infolist()]
    return name, mkzip(members, stored=tuple(m[0] for m in members))


for _tid, _t in list(TEMPLATES.items()):
    if _t["kind"] == "grow":
        _t["build"] = (lambda f: (lambda n: _restore_stored(f(n))))(_t["build"])


# ------------------------------------------------------------------------------------------------ HTML family
def html_page(body):
    return f'<!DOCTYPE html><html><head><meta charset="utf-8"><title>Ztitle</title></head><body>{body}</body></html>'.encode()


@template("html-nest-div", "grow", "HTML: div nested n deep around one paragraph", mags=([1, 10, 100, 1000, 10 ** 4], [1, 10, 100, 1000, 10 ** 4, 10 ** 5, 10 ** 6]))
def _(n):
    return "t.html", html_page("<div>" * n + "<p>Bbcdfg</p>" + "</div>" * n)


@template("html-nest-table", "grow", "HTML: 1x1 tables nested n deep", mags=([1, 10, 100, 1000], [1, 10, 100, 1000, 10 ** 4, 10 ** 5]))
def _(n):
    return "t.html", html_page("<table><tr><td>Cbcdfg" * n + "</td></tr></table>" * n)


@template("html-nest-list", "grow", "HTML: ul/li nested n deep", mags=([1, 10, 100, 1000], [1, 10, 100, 1000, 10 ** 4, 10 ** 5]))
def _(n):
    return "t.html", html_page("<ul><li>Lbcdfg" * n + "</li></ul>" * n)


@template("html-nest-unclosed", "grow", "HTML: n unclosed inline elements (<b><i> alternating) followed by text",
          mags=([1, 10, 100, 1000, 10 ** 4], [1, 10, 100, 1000, 10 ** 4, 10 ** 5, 10 ** 6]))
def _(n):
    return "t.html", html_page("<b><i>" * n + "Bbcdfg")


@template("html-colspan", "hole", "HTML: 1x1 table, td colspan=n rowspan=n")
def _(n):
    return "t.html", html_page(f'<p>Bbcdfg</p><table><tr><td colspan="{n}" rowspan="{n}">Cbcdfg</td></tr></table>')


@template("html-charref", "hole", "HTML: numeric character reference &#n; between two tokens")
def _(n):
    return "t.html", html_page(f"<p>Bbcdfg&#{n};Bcdfgh</p>")


@template("html-ol-start", "hole", "HTML: <ol start=n> with one item")
def _(n):
    return "t.html", html_page(f'<ol start="{n}"><li>Lbcdfg</li></ol>')


@template("html-pre-tabs", "hole", "HTML: <pre> with tab-size style and width=n attribute")
def _(n):
    return "t.html", html_page(f'<pre width="{n}" style="tab-size:{n}">Bbcdfg\tBcdfgh</pre>')


def _epub(ch):
    cont = (XMLDECL + '<container version="1.0" xmlns="urn:oasis:names:tc:opendocument:xmlns:container"><rootfiles><rootfile '
            'full-path="OEBPS/content.opf" media-type="application/oebps-package+xml"/></rootfiles></container>')
    opf = (XMLDECL + '<package xmlns="http://www.idpf.org/2007/opf" version="3.0" unique-identifier="id"><metadata '
           'xmlns:dc="http://purl.org/dc/elements/1.1/"><dc:identifier id="id">Zbcdfg</dc:identifier><dc:title>Ztitle</dc:title>'
           '<dc:language>en</dc:language></metadata><manifest><item id="c1" href="c1.xhtml" media-type="application/xhtml+xml"/></manifest>'
           '<spine><itemref idref="c1"/></spine></package>')
    return "t.epub", mkzip([("mimetype", "application/epub+zip"), ("META-INF/container.xml", cont), ("OEBPS/content.opf", opf),
                            ("OEBPS/c1.xhtml", ch)], stored=("mimetype", "OEBPS/c1.xhtml"))


def _xhtml(body, prolog=""):
    return f'{XMLDECL}{prolog}<html xmlns="http://www.w3.org/1999/xhtml"><head><title>Ztitle</title></head><body>{body}</body></html>'


@template("epub-nest-div", "grow", "EPUB chapter: div nested n deep around one paragraph")
def _(n):
    return _epub(_xhtml("<div>" * n + "<p>Bbcdfg</p>" + "</div>" * n))


@template("epub-nest-table", "grow", "EPUB chapter: 1x1 tables nested n deep")
def _(n):
    return _epub(_xhtml("<table><tr><td>Cbcdfg" * n + "</td></tr></table>" * n))


@template("epub-entity-bomb", "exp", "EPUB chapter (XHTML) with an internal entity bomb expanding to n characters", expect="any")
def _(n):
    pro, ref = laughs(n)
    return _epub(_xhtml(f"<p>Bbcdfg{ref}</p>", prolog=pro.replace(" x ", " html ")))


@template("epub-opf-entity-bomb", "exp", "EPUB package document (OPF) with an internal entity bomb expanding to n characters in dc:title", expect="any")
def _(n):
    pro, ref = laughs(n)
    name, data = _epub(_xhtml("<p>Bbcdfg</p>"))
    with zipfile.ZipFile(io.BytesIO(data)) as z:
        members = [(i.filename, z.read(i)) for i in z.infolist()]
    members = [(k, v.replace(XMLDECL.encode(), (XMLDECL + pro.replace(" x ", " package ")).encode()).replace(b"Ztitle", b"Ztitle" + ref.encode())
                if k.endswith(".opf") else v) for k, v in members]
    return name, mkzip(members)


# ---- the entity bomb in EVERY XML part of every ZIP package (not only the main part): content types, relationships, document
# properties, styles, meta, manifest, shared strings, workbook / presentation, container / OPF / chapter.  The DOCTYPE follows the XML
# declaration of ONE member; the reference &e<k>; is the last text inside that member's root element.  Which parser reads which part
# is the library's business: every part that is parsed at all must refuse the declarations or at least not materialise them.
_CORE = (XMLDECL + '<cp:coreProperties xmlns:cp="http://schemas.openxmlformats.org/package/2006/metadata/core-properties" '
         'xmlns:dc="http://purl.org/dc/elements/1.1/"><dc:title>Ztitle</dc:title><dc:creator>Zcdfgh</dc:creator></cp:coreProperties>')
_ODF_STYLES = (f'{XMLDECL}<office:document-styles {ODF_NS} office:version="1.2"><office:master-styles/></office:document-styles>')
_ODF_META = (XMLDECL + '<office:document-meta xmlns:office="urn:oasis:names:tc:opendocument:xmlns:office:1.0" '
             'xmlns:dc="http://purl.org/dc/elements/1.1/" office:version="1.2"><office:meta><dc:title>Ztitle</dc:title></office:meta>'
             '</office:document-meta>')
PART_BOMB_MAGS = ([10 ** 3, 10 ** 6], [10 ** 3, 10 ** 6, 10 ** 7, 10 ** 9])


def _with_members(pkg, extra):
    name, data = pkg
    with zipfile.ZipFile(io.BytesIO(data)) as z:
        members = [(i.filename, z.read(i)) for i in z.infolist()]
    return name, members + [(k, v.encode()) for k, v in extra]


def _part_hosts():
    odf_extra = (("styles.xml", _ODF_STYLES), ("meta.xml", _ODF_META))
    h = {
        "docx": lambda: _with_members(docx_pkg(_wp("Bbcdfg"), extra=(("word/styles.xml", f'{XMLDECL}<w:styles {W_NS}></w:styles>'),),
                                               doc_rels=REL.format(i="rId9", t="styles", g="styles.xml")), [("docProps/core.xml", _CORE)]),
        "pptx": lambda: _with_members(pptx_pkg(_sp("Bbcdfg")), [("docProps/core.xml", _CORE)]),
        "xlsx": lambda: _with_members(xlsx_pkg('<sheetData><row r="1"><c r="A1" t="s"><v>0</v></c></row></sheetData>',
                                               sst=f'<sst {S_NS.split(" ")[0]} count="1" uniqueCount="1"><si><t>Cbcdfg</t></si></sst>'),
                                      [("docProps/core.xml", _CORE)]),
        "odt": lambda: _with_members(odf_pkg("odt", "<text:p>Bbcdfg</text:p>", extra=odf_extra), []),
        "ods": lambda: _with_members(odf_pkg("ods", '<table:table table:name="Nbcdfg"><table:table-row><table:table-cell office:value-type="string">'
                                                    '<text:p>Cbcdfg</text:p></table:table-cell></table:table-row></table:table>', extra=odf_extra), []),
        "odp": lambda: _with_members(odf_pkg("odp", _frame("<text:p>Bbcdfg</text:p>"), extra=odf_extra), []),
        "odg": lambda: _with_members(odf_pkg("odg", _frame("<text:p>Bbcdfg</text:p>"), extra=odf_extra), []),
        "epub": lambda: _with_members(_epub(_xhtml("<p>Bbcdfg</p>")), []),
    }
    return h


def _bomb_in_part(members, part, n):
    pro, ref = laughs(n)
    decl = XMLDECL.encode()
    out = []
    for k, v in members:
        if k == part:
            cut = v.rfind(b"</")
            v = v[:cut] + ref.encode() + v[cut:]
            v = v.replace(decl, decl + pro.encode(), 1)
        out.append((k, v))
    return out


def _mk_part_bombs():
    for host, plain in _part_hosts().items():
        name, members = plain()
        for j, (part, v) in enumerate(members):
            if not v.startswith(XMLDECL.encode()) or v.rfind(b"</") < 0:
                continue                                   # mimetype and other non-XML members

            def fn(n, plain=plain, part=part):
                name, members = plain()
                return name, mkzip(_bomb_in_part(members, part, n), stored=("mimetype",))
            template(f"{host}-part{j}-entity-bomb", "exp", f"{host.upper()} package member {part}: internal entity bomb expanding to n characters, "
                                                           f"referenced as the last text of the member's root element", expect="any", mags=PART_BOMB_MAGS)(fn)


_mk_part_bombs()


def _mhtml(html):
    return ("From: <Saved by Blink>\r\nSubject: Ztitle\r\nDate: Thu, 1 Jan 1970 00:00:00 -0000\r\nMIME-Version: 1.0\r\n"
            'Content-Type: multipart/related; type="text/html"; boundary="----b1"\r\n\r\n------b1\r\nContent-Type: text/html\r\n'
            "Content-Transfer-Encoding: 8bit\r\nContent-Location: http://h/p.html\r\n\r\n").encode() + html + b"\r\n------b1--\r\n"


@template("mhtml-nest-div", "grow", "MHTML: html part with div nested n deep")
def _(n):
    return "t.mhtml", _mhtml(html_page("<div>" * n + "<p>Bbcdfg</p>" + "</div>" * n))


# ------------------------------------------------------------------------------------------------ RTF
def rtf_doc(body):
    return ("{\\rtf1\\ansi\\ansicpg1252\\deff0{\\fonttbl{\\f0 Arial;}}\\pard\\plain\\f0\\fs24 " + body + "\\par}").encode("ascii")


@template("rtf-nest-group", "grow", "RTF: groups nested n deep around one token", mags=([1, 10, 100, 1000, 10 ** 4], [1, 10, 100, 1000, 10 ** 4, 10 ** 5, 10 ** 6]))
def _(n):
    return "t.rtf", rtf_doc("Bbcdfg " + "{" * n + "Bcdfgh" + "}" * n)


@template("rtf-nest-dest", "grow", "RTF: ignorable destinations {\\*\\x nested n deep", mags=([1, 10, 100, 1000, 10 ** 4], [1, 10, 100, 1000, 10 ** 4, 10 ** 5]))
def _(n):
    return "t.rtf", rtf_doc("Bbcdfg " + "{\\*\\zz " * n + "Xbcdfg" + "}" * n + " Bcdfgh")


@template("rtf-nest-table", "grow", "RTF: nested table cells (\\itapN up to n) in one row", mags=([1, 10, 100], [1, 10, 100, 1000, 10 ** 4]))
def _(n):
    inner = "".join(f"\\pard\\intbl\\itap{i} Cbcdfg\\nestcell{{\\*\\nesttableprops\\trowd\\cellx1000\\nestrow}}" for i in range(n + 1, 1, -1))
    return "t.rtf", rtf_doc("\\trowd\\cellx2000\\pard\\intbl " + inner + "\\pard\\intbl Cbcdfg\\cell\\row ")


@template("rtf-bin", "hole", "RTF: picture with \\binN declaring N raw bytes, 4 present")
def _(n):
    return "t.rtf", rtf_doc("Bbcdfg {\\pict\\pngblip\\picw1\\pich1\\bin" + str(n) + " abcd} Bcdfgh")


@template("rtf-uc", "hole", "RTF: \\ucN (N fallback characters to skip after every \\u)")
def _(n):
    return "t.rtf", rtf_doc("Bbcdfg \\uc" + str(n) + "\\u66?cdfgh Bdfghj")


@template("rtf-pict-dims", "hole", "RTF: \\pict with \\picwN\\pichN\\picwgoalN\\pichgoalN and a 1x1 PNG whose IHDR says n x n")
def _(n):
    return "t.rtf", rtf_doc(f"Bbcdfg {{\\pict\\pngblip\\picw{n}\\pich{n}\\picwgoal{n}\\pichgoal{n} " + png(n, n).hex() + "} Bcdfgh")


@template("rtf-cellx", "hole", "RTF: table row with \\cellxN and \\trgaphN")
def _(n):
    return "t.rtf", rtf_doc(f"\\trowd\\trgaph{n}\\cellx{n}\\pard\\intbl Cbcdfg\\cell\\row \\pard Bbcdfg")


@template("rtf-u-value", "hole", "RTF: \\uN with a large N")
def _(n):
    return "t.rtf", rtf_doc(f"Bbcdfg \\u{n}? Bcdfgh")


@template("rtf-pages", "grow", "RTF: n \\page breaks, one token per page", mags=([1, 10, 100, 1000], [1, 10, 100, 1000, 10 ** 4, 10 ** 5]))
def _(n):
    return "t.rtf", rtf_doc("Bbcdfg\\page " * n + "Bcdfgh")


# ------------------------------------------------------------------------------------------------ mail
MBOX_MSG = ("From a@b.example Thu Jan  1 00:00:00 1970\nFrom: a@b.example\nDate: Thu, 1 Jan 1970 00:00:00 +0000\nSubject: Zbcdfg\n\n")


@template("mbox-many-from", "grow", "mbox: n minimal messages ('From ' line, From/Date/Subject headers, one body line)",
          mags=([1, 10, 100, 1000], [1, 10, 100, 1000, 10 ** 4]))
def _(n):
    return "t.mbox", (MBOX_MSG + "Bbcdfg\n\n").encode() * n


@template("mbox-from-lines-only", "grow", "mbox: one message followed by n bare 'From ' separator lines (n empty messages)",
          mags=([1, 10, 100, 1000, 10 ** 4], [1, 10, 100, 1000, 10 ** 4, 10 ** 5]), expect="any")
def _(n):
    return "t.mbox", (MBOX_MSG + "Bbcdfg\n\n").encode() + b"From a@b.example Thu Jan  1 00:00:00 1970\n" * n


MBOX_SEP = b"From a@b.example Thu Jan  1 00:00:00 1970\n"
MBOX_EMPTY_MAGS = ([1, 10, 100, 1000, 10 ** 4], [1, 10, 100, 1000, 10 ** 4, 10 ** 5])
# separator lines that delimit EMPTY messages: where they stand (before / between / after real messages) and what separates them
# (nothing, a blank line, CRLF line ends)
MBOX_EMPTY = {
    "first": ("n bare 'From ' separator lines (n empty messages), then one message",
              lambda n, msg: MBOX_SEP * n + msg),
    "blank": ("n times ['From ' line, blank line] (n empty messages), then one message",
              lambda n, msg: (MBOX_SEP + b"\n") * n + msg),
    "crlf": ("n 'From ' separator lines ending in CRLF, then one message with CRLF line ends",
             lambda n, msg: MBOX_SEP.replace(b"\n", b"\r\n") * n + msg.replace(b"\n", b"\r\n")),
    "between": ("n times [one message, one bare 'From ' separator line] (every second message is empty)",
                lambda n, msg: (msg + MBOX_SEP) * n),
    "only": ("n bare 'From ' separator lines and nothing else (no message at all)",
             lambda n, msg: MBOX_SEP * n),
}


def _mk_mbox_empty_templates():
    for key, (doc, fn) in MBOX_EMPTY.items():
        def b(n, fn=fn):
            return "t.mbox", fn(n, (MBOX_MSG + "Bbcdfg\n\n").encode())
        template(f"mbox-empty-{key}", "grow", "mbox: " + doc, mags=(MBOX_EMPTY_MAGS[0][:4] if key == "between" else MBOX_EMPTY_MAGS[0],
                                                                     MBOX_EMPTY_MAGS[1][:5] if key == "between" else MBOX_EMPTY_MAGS[1]),
                 expect="any" if key == "only" else "ok")(b)


_mk_mbox_empty_templates()


@template("mbox-quoted-from", "grow", "mbox: one message whose body holds n '>From ' lines (mboxo quoting)",
          mags=([1, 10, 100, 1000], [1, 10, 100, 1000, 10 ** 4, 10 ** 5]))
def _(n):
    return "t.mbox", (MBOX_MSG + ">From Bbcdfg\n" * n + "\n").encode()


def _nest_mp(n, leaf):
    head, tail = "", ""
    for i in range(n):
        head += f'Content-Type: multipart/mixed; boundary="b{i}"\r\n\r\n--b{i}\r\n'
        tail = f"\r\n--b{i}--\r\n" + tail
    return head + leaf + tail


EML_HEAD = "From: a@b.example\r\nTo: c@d.example\r\nDate: Thu, 1 Jan 1970 00:00:00 +0000\r\nSubject: Zbcdfg\r\nMIME-Version: 1.0\r\n"


@template("eml-nest-multipart", "grow", "eml: multipart/mixed nested n deep around one text/plain part")
def _(n):
    return "t.eml", (EML_HEAD + _nest_mp(n, "Content-Type: text/plain\r\n\r\nBbcdfg\r\n")).encode()


@template("eml-nest-rfc822", "grow", "eml: message/rfc822 nested n deep (each level multipart/mixed[text, message/rfc822])",
          mags=([1, 10, 30], [1, 10, 30, 100]))
def _(n):
    msg = EML_HEAD + "Content-Type: text/plain\r\n\r\nBbcdfg\r\n"
    for i in range(1, n + 1):
        msg = (EML_HEAD + f'Content-Type: multipart/mixed; boundary="b{i}"\r\n\r\n--b{i}\r\nContent-Type: text/plain\r\n\r\nBcdfgh\r\n--b{i}\r\n'
               f'Content-Type: message/rfc822\r\nContent-Disposition: attachment; filename="m{i}.eml"\r\n\r\n' + msg + f"\r\n--b{i}--\r\n")
    return "t.eml", msg.encode()


@template("eml-many-parts", "grow", "eml: multipart/mixed with n empty text/plain attachments",
          mags=([1, 10, 100, 1000], [1, 10, 100, 1000, 10 ** 4, 10 ** 5]))
def _(n):
    part = '--b\r\nContent-Type: text/plain\r\nContent-Disposition: attachment; filename="a.txt"\r\n\r\nZbcdfg\r\n'
    return "t.eml", (EML_HEAD + 'Content-Type: multipart/mixed; boundary="b"\r\n\r\n--b\r\nContent-Type: text/plain\r\n\r\nBbcdfg\r\n' + part * n + "--b--\r\n").encode()


# ------------------------------------------------------------------------------------------------ PDF
def pdf_file(objs, root=1, trailer_extra="", size=None, prev=None, xref_count=None):
    """objs: {number: body bytes | str}; classic cross-reference table; returns bytes"""
    out = bytearray(b"%PDF-1.4\n%\xe2\xe3\xcf\xd3\n")
    offs = {}
    for num in sorted(objs):
        body = objs[num]
        if isinstance(body, str):
            body = body.encode("latin-1")
        offs[num] = len(out)
        out += b"%d 0 obj\n" % num + body + b"\nendobj\n"
    xref = len(out)
    top = max(objs) + 1
    out += b"xref\n0 %d\n" % (xref_count if xref_count is not None else top)
    out += b"0000000000 65535 f \n"
    for num in range(1, top):
        out += (b"%010d 00000 n \n" % offs[num]) if num in offs else b"0000000000 65535 f \n"
    pv = "" if prev is None else f" /Prev {xref if prev == 'self' else prev}"
    out += (f"trailer\n<< /Size {size if size is not None else top} /Root {root} 0 R{pv}{trailer_extra} >>\nstartxref\n{xref}\n%%EOF\n").encode()
    return bytes(out)


def stream(data, extra=""):
    if isinstance(data, str):
        data = data.encode("latin-1")
    return b"<< /Length %d%s >>\nstream\n" % (len(data), extra.encode()) + data + b"\nendstream"


FONT = "<< /Type /Font /Subtype /Type1 /BaseFont /Helvetica /Encoding /WinAnsiEncoding >>"
PAGE = "<< /Type /Page /Parent 2 0 R /MediaBox [0 0 612 792] /Resources << /Font << /F1 4 0 R >> >> /Contents 5 0 R >>"
TEXT = "BT /F1 12 Tf 72 720 Td (Bbcdfg) Tj 0 -20 Td (Bcdfgh) Tj ET"


def pdf_base(over=None):
    o = {1: "<< /Type /Catalog /Pages 2 0 R >>", 2: "<< /Type /Pages /Kids [3 0 R] /Count 1 >>", 3: PAGE, 4: FONT, 5: stream(TEXT)}
    o.update(over or {})
    return o


@template("pdf-count", "hole", "PDF: page tree /Count n with one real page")
def _(n):
    return "t.pdf", pdf_file(pdf_base({2: f"<< /Type /Pages /Kids [3 0 R] /Count {n} >>"}))


@template("pdf-kids-cycle", "one", "PDF: /Kids of the page tree root lists the root itself after the page", expect="any")
def _(n):
    return "t.pdf", pdf_file(pdf_base() | {2: "<< /Type /Pages /Kids [3 0 R 2 0 R] /Count 2 >>"})


@template("pdf-kids-cycle2", "one", "PDF: page tree root -> intermediate node -> [page, root] (cycle of length 2)", expect="any")
def _(n):
    o = pdf_base()
    o[2] = "<< /Type /Pages /Kids [6 0 R] /Count 2 >>"
    o[6] = "<< /Type /Pages /Parent 2 0 R /Kids [3 0 R 2 0 R] /Count 2 >>"
    return "t.pdf", pdf_file(o)


@template("pdf-prev-cycle", "one", "PDF: trailer /Prev points at the file's own (only) cross-reference section", expect="any")
def _(n):
    return "t.pdf", pdf_file(pdf_base(), prev="self")


@template("pdf-prev-cycle2", "one", "PDF: two cross-reference sections whose /Prev entries point at each other", expect="any")
def _(n):
    first = pdf_file(pdf_base())
    x1 = first.rindex(b"xref\n")
    # second section (an incremental update without objects) follows; its /Prev = x1, and the first section's /Prev = x2
    x2_guess = 0
    for _i in range(3):
        a = pdf_file(pdf_base(), prev=x2_guess)
        x2 = len(a)
        if x2 == x2_guess:
            break
        x2_guess = x2
    upd = f"xref\n0 1\n0000000000 65535 f \ntrailer\n<< /Size 6 /Root 1 0 R /Prev {x1} >>\nstartxref\n{x2}\n%%EOF\n".encode()
    return "t.pdf", a + upd


@template("pdf-pages", "grow", "PDF: n page objects sharing one content stream", mags=([1, 10, 100], [1, 10, 100, 1000, 10 ** 4]))
def _(n):
    o = pdf_base()
    kids = " ".join(f"{10 + i} 0 R" for i in range(n))
    o[2] = f"<< /Type /Pages /Kids [{kids}] /Count {n} >>"
    del o[3]
    for i in range(n):
        o[10 + i] = PAGE
    return "t.pdf", pdf_file(o)


@template("pdf-nest-kids", "grow", "PDF: page tree nested n levels deep above one page", mags=([1, 10, 100, 1000], [1, 10, 100, 1000, 10 ** 4]))
def _(n):
    o = pdf_base()
    o[2] = "<< /Type /Pages /Kids [10 0 R] /Count 1 >>"
    for i in range(n):
        nxt = f"{11 + i} 0 R" if i < n - 1 else "3 0 R"
        o[10 + i] = f"<< /Type /Pages /Parent {9 + i if i else 2} 0 R /Kids [{nxt}] /Count 1 >>"
    o[3] = PAGE.replace("/Parent 2 0 R", f"/Parent {9 + n} 0 R")
    return "t.pdf", pdf_file(o)


@template("pdf-nest-array", "grow", "PDF: array nested n deep as a page attribute", mags=([1, 10, 100, 1000], [1, 10, 100, 1000, 10 ** 4, 10 ** 5]))
def _(n):
    o = pdf_base()
    o[3] = PAGE[:-2] + "/Zz " + "[" * n + "]" * n + " >>"
    return "t.pdf", pdf_file(o)


@template("pdf-coord", "hole", "PDF: second text line placed with 'n -n Td'; MediaBox [0 0 n n]")
def _(n):
    o = pdf_base()
    o[3] = PAGE.replace("[0 0 612 792]", f"[0 0 {n} {n}]")
    o[5] = stream(f"BT /F1 12 Tf 72 720 Td (Bbcdfg) Tj {n} -{n} Td (Bcdfgh) Tj ET")
    return "t.pdf", pdf_file(o)


@template("pdf-text-params", "hole", "PDF: character / word spacing and leading n (Tc, Tw, TL) and T*")
def _(n):
    return "t.pdf", pdf_file(pdf_base() | {5: stream(f"BT /F1 12 Tf {n} Tc {n} Tw {n} TL 72 720 Td (Bbcdfg Bcdfgh) Tj T* (Bdfghj) Tj ET")})


@template("pdf-font-size", "hole", "PDF: font size n in Tf and a text matrix scaled by n")
def _(n):
    return "t.pdf", pdf_file(pdf_base() | {5: stream(f"BT /F1 {n} Tf {n} 0 0 {n} 72 720 Tm (Bbcdfg) Tj 0 -1 Td (Bcdfgh) Tj ET")})


@template("pdf-tj-kerning", "hole", "PDF: TJ array with a kerning adjustment of -n between two strings")
def _(n):
    return "t.pdf", pdf_file(pdf_base() | {5: stream(f"BT /F1 12 Tf 72 720 Td [(Bbcdfg) -{n} (Bcdfgh)] TJ ET")})


@template("pdf-trailer-size", "hole", "PDF: trailer /Size n (6 objects present)")
def _(n):
    return "t.pdf", pdf_file(pdf_base(), size=n)


@template("pdf-xref-count", "hole", "PDF: cross-reference subsection header '0 n' with 6 entries present", expect="any")
def _(n):
    return "t.pdf", pdf_file(pdf_base(), xref_count=n)


@template("pdf-stream-length", "hole", "PDF: content stream /Length n, 60 bytes present", expect="any")
def _(n):
    o = pdf_base()
    o[5] = o[5].replace(b"/Length %d" % len(TEXT), b"/Length %d" % n)
    return "t.pdf", pdf_file(o)


@template("pdf-image-dims", "hole", "PDF: image XObject /Width n /Height n (DeviceGray, 8 bpc, FlateDecode of ONE pixel) painted on the page", expect="any")
def _(n):
    o = pdf_base()
    o[3] = PAGE.replace("/Font << /F1 4 0 R >>", "/Font << /F1 4 0 R >> /XObject << /Im1 6 0 R >>")
    o[5] = stream(TEXT + " q 10 0 0 10 72 600 cm /Im1 Do Q")
    o[6] = stream(zlib.compress(b"\x00"), f" /Type /XObject /Subtype /Image /Width {n} /Height {n} /ColorSpace /DeviceGray /BitsPerComponent 8 /Filter /FlateDecode")
    return "t.pdf", pdf_file(o)


@template("pdf-predictor-columns", "hole", "PDF: content stream with /FlateDecode /DecodeParms << /Predictor 12 /Columns n >>", expect="any",
          mags=([10 ** k for k in range(0, 5)], MAGS["hole"][1]))
def _(n):
    o = pdf_base()
    o[5] = stream(zlib.compress(b"\x00" + TEXT.encode()), f" /Filter /FlateDecode /DecodeParms << /Predictor 12 /Columns {n} >>")
    return "t.pdf", pdf_file(o)


def _cmap(body):
    return ("/CIDInit /ProcSet findresource begin 12 dict begin begincmap /CMapName /Adobe-Identity-UCS def /CMapType 2 def "
            "1 begincodespacerange <00> <FF> endcodespacerange " + body + " endcmap CMapName currentdict /CMap defineresource pop end end")


@template("pdf-bfrange", "hole", "PDF: ToUnicode CMap with '1 beginbfrange <00000000> <n as 8 hex digits> <0041>'", expect="any")
def _(n):
    o = pdf_base()
    o[4] = "<< /Type /Font /Subtype /Type1 /BaseFont /Helvetica /Encoding /WinAnsiEncoding /ToUnicode 6 0 R >>"
    o[6] = stream(_cmap(f"1 beginbfrange <00000000> <{n & 0xFFFFFFFF:08X}> <0041> endbfrange"))
    return "t.pdf", pdf_file(o)


@template("pdf-font-lastchar", "hole", "PDF: simple font /FirstChar 0 /LastChar n with a one-element /Widths array", expect="any")
def _(n):
    o = pdf_base()
    o[4] = f"<< /Type /Font /Subtype /TrueType /BaseFont /Zbcdfg /Encoding /WinAnsiEncoding /FirstChar 0 /LastChar {n} /Widths [500] >>"
    return "t.pdf", pdf_file(o)


@template("pdf-xrefstm-index", "hole", "PDF 1.5: cross-reference STREAM with /Index [0 n] /Size n and entries for 7 objects only", expect="any")
def _(n):
    objs = pdf_base()
    out = bytearray(b"%PDF-1.5\n%\xe2\xe3\xcf\xd3\n")
    offs = {}
    for num in sorted(objs):
        body = objs[num] if isinstance(objs[num], bytes) else objs[num].encode("latin-1")
        offs[num] = len(out)
        out += b"%d 0 obj\n" % num + body + b"\nendobj\n"
    x = len(out)
    rows = b"\x00\x00\x00\x00\xff" + b"".join(b"\x01" + struct.pack(">I", offs[k])[1:] + b"\x00" for k in range(1, 6)) + b"\x01" + struct.pack(">I", x)[1:] + b"\x00"
    out += b"6 0 obj\n" + stream(rows, f" /Type /XRef /Size {n} /Index [0 {n}] /W [1 3 1] /Root 1 0 R") + b"\nendobj\n"
    out += f"startxref\n{x}\n%%EOF\n".encode()
    return "t.pdf", bytes(out)


# ------------------------------------------------------------------------------------------------ OLE2 hosts: XLS, PPT
def _pset(bodies, count=None, section_size=None, sets=1):
    """[MS-OLEPS] property set stream with one section; bodies: [(property id, raw TypedPropertyValue bytes)];
    `sets` forges the NumPropertySets header field (the one section is always present)"""
    from verif.gen import cfb as C
    vals = [(1, struct.pack("<IhH", 2, 1252, 0))] + list(bodies)
    off = 8 + 8 * len(vals)
    index = b""
    for pid, body in vals:
        index += struct.pack("<II", pid, off)
        off += len(body)
    pset = struct.pack("<II", off if section_size is None else section_size, len(vals) if count is None else count) + index + b"".join(b for _, b in vals)
    return struct.pack("<HHI", 0xFFFE, 0, 0x00020105) + b"\0" * 16 + struct.pack("<I", sets & 0xFFFFFFFF) + C.FMTID_SUMMARY + struct.pack("<I", 48) + pset


def _lpstr(s):
    raw = s.encode("cp1252") + b"\0"
    b = struct.pack("<II", 0x1E, len(raw)) + raw
    return b + b"\0" * (-len(b) % 4)


XLS_DOC = ["doc", {}, [["sheet", "Nbcdfg", [[["s", "Cbcdfg"], ["i", 7]]]]]]
PPT_DOC = ["doc", {}, [["unit", [["h", 1, [["t", "Hbcdfg"]]], ["p", [["t", "Bbcdfg"]]]], {}]]]


def _xls(summary=None, patch=None):
    from verif.gen import biff8, cfb as C
    wb = biff8.workbook_stream(_sub(XLS_DOC), {})
    if patch:
        wb = patch(wb)
    streams = {"Workbook": wb}
    if summary is not None:
        streams["\x05SummaryInformation"] = summary
    return "t.xls", C.cfb(streams, {"clsid": {"": C.CLSID_XLS}})


def _ppt(summary=None, patch=None, pictures=None):
    from verif.gen import pptbin, cfb as C
    streams = dict(pptbin.ppt_streams(_sub(PPT_DOC), None, {"no_summary": True, "master_text": False}))
    if patch:
        streams["PowerPoint Document"] = patch(streams["PowerPoint Document"])
    if summary is not None:
        streams["\x05SummaryInformation"] = summary
    if pictures is not None:
        streams["Pictures"] = pictures
    return "t.ppt", C.cfb(streams, {"clsid": {"": C.CLSID_PPT}})


OLE_FORGERIES = {
    "propcount": ("property-set section declares n properties (3 present)",
                  lambda n: _pset([(2, _lpstr("Ztitle")), (4, _lpstr("Zauthr"))], count=n)),
    "section-size": ("property-set section size field = n",
                     lambda n: _pset([(2, _lpstr("Ztitle"))], section_size=n)),
    "lpstr-len": ("VT_LPSTR property (title) whose length field says n, 8 bytes present",
                  lambda n: _pset([(2, struct.pack("<II", 0x1E, n & 0xFFFFFFFF) + b"Ztitle\0\0")])),
    "blob-len": ("VT_BLOB property whose length field says n, 4 bytes present",
                 lambda n: _pset([(2, _lpstr("Ztitle")), (0x30, struct.pack("<II", 0x41, n & 0xFFFFFFFF) + b"abcd")])),
    "vector-lpstr": ("VT_VECTOR|VT_LPSTR property with n elements declared, one present",
                     lambda n: _pset([(2, _lpstr("Ztitle")), (0x30, struct.pack("<II", 0x101E, n & 0xFFFFFFFF) + _lpstr("Zbcdfg")[4:])])),
    "vector-variant": ("VT_VECTOR|VT_VARIANT property with n elements declared, one VT_I4 present",
                       lambda n: _pset([(2, _lpstr("Ztitle")), (0x30, struct.pack("<IIIi", 0x100C, n & 0xFFFFFFFF, 3, 7))])),
    "vector-r8": ("VT_VECTOR|VT_R8 property with n elements declared, one present",
                  lambda n: _pset([(2, _lpstr("Ztitle")), (0x30, struct.pack("<IId", 0x1005, n & 0xFFFFFFFF, 1.0))])),
    # two cooperating forged fields: a reader that bounds counts by the *declared* section size is fooled by a bogus size
    "vector-r8-bigsection": ("VT_VECTOR|VT_R8 property with n elements declared, one present, section size field = 0xFFFFFFFF",
                             lambda n: _pset([(2, _lpstr("Ztitle")), (0x30, struct.pack("<IId", 0x1005, n & 0xFFFFFFFF, 1.0))], section_size=0xFFFFFFFF)),
    "vector-i8-bigsection": ("VT_VECTOR|VT_I8 property with n elements declared, one present, section size field = 0xFFFFFFFF",
                             lambda n: _pset([(2, _lpstr("Ztitle")), (0x30, struct.pack("<IIq", 0x1014, n & 0xFFFFFFFF, 1))], section_size=0xFFFFFFFF)),
    # ... and a reader that trusts NumPropertySets to decide which sections it looks at is fooled by 0 there
    **{f"vector-{nm}-sets{lab}": (f"VT_VECTOR|VT_{nm.upper()} property with n elements declared, one present, NumPropertySets field = {sets:#x}",
                                  (lambda n, vt=vt, fmt=fmt, one=one, sets=sets:
                                   _pset([(2, _lpstr("Ztitle")), (0x30, struct.pack(fmt, vt, n & 0xFFFFFFFF, one))], sets=sets)))
       for nm, vt, fmt, one in (("r8", 0x1005, "<IId", 1.0), ("i8", 0x1014, "<IIq", 1))
       for lab, sets in (("0", 0),)},          # larger counts than sections present make the hosts' readers fail outright (no cost to meter)
    "vector-i4": ("VT_VECTOR|VT_I4 property with n elements declared, one present",
                  lambda n: _pset([(2, _lpstr("Ztitle")), (0x30, struct.pack("<IIi", 0x1003, n & 0xFFFFFFFF, 7))])),
}


def _mk_ole_templates():
    for host, fn in (("xls", _xls), ("ppt", _ppt)):
        for kind, (doc, mk) in OLE_FORGERIES.items():
            def b(n, fn=fn, mk=mk):
                return fn(summary=mk(n))
            template(f"{host}-ole-{kind}", "hole", f"{host.upper()}: \\x05SummaryInformation - {doc}")(b)


_mk_ole_templates()


def biff_records(wb):
    pos = 0
    while pos + 4 <= len(wb):
        t, ln = struct.unpack_from("<HH", wb, pos)
        yield pos, t, ln
        pos += 4 + ln


def _patch_biff(wb, rtype, fn, which=0):
    """apply fn(bytearray payload) to the which-th record of type rtype inside a worksheet substream (after the 2nd BOF)"""
    wb = bytearray(wb)
    bofs = 0
    seen = 0
    for pos, t, ln in biff_records(bytes(wb)):
        if t == 0x0809:
            bofs += 1
        if t == rtype and bofs >= 2:
            if seen == which:
                payload = bytearray(wb[pos + 4:pos + 4 + ln])
                fn(payload)
                wb[pos + 4:pos + 4 + ln] = payload
                return bytes(wb)
            seen += 1
    raise AssertionError("record 0x%04x not found" % rtype)


def _dims(rw_mac, col_mac):
    def fn(p):
        struct.pack_into("<IIHH", p, 0, 0, rw_mac & 0xFFFFFFFF, 0, col_mac & 0xFFFF)
    return fn


@template("xls-far-row", "u16", "XLS: the NUMBER cell (value 7) sits in row n (0-based, 16-bit field), column H; DIMENSIONS says rows 0..n, columns A..H; label stays in A1")
def _(n):
    def patch(wb):
        wb = _patch_biff(wb, 0x0203, lambda p: struct.pack_into("<HH", p, 0, n, 7))
        return _patch_biff(wb, 0x0200, _dims(n + 1, 8))
    return _xls(patch=patch)


@template("xls-far-col", "u8", "XLS: the NUMBER cell sits in column n (row 0); DIMENSIONS says columns 0..n")
def _(n):
    def patch(wb):
        wb = _patch_biff(wb, 0x0203, lambda p: struct.pack_into("<H", p, 2, n))
        return _patch_biff(wb, 0x0200, _dims(1, n + 1))
    return _xls(patch=patch)


@template("xls-far-both", "u16", "XLS: the NUMBER cell sits in row n, column min(n, 255)")
def _(n):
    def patch(wb):
        wb = _patch_biff(wb, 0x0203, lambda p: struct.pack_into("<HH", p, 0, n, min(n, 255)))
        return _patch_biff(wb, 0x0200, _dims(n + 1, min(n, 255) + 1))
    return _xls(patch=patch)


@template("xls-dimensions", "hole", "XLS: DIMENSIONS record declares rows 0..n (32-bit field) and columns 0..min(n,256); cells A1:B1 only")
def _(n):
    return _xls(patch=lambda wb: _patch_biff(wb, 0x0200, _dims(n, min(n, 256))))


@template("xls-sst-count", "hole", "XLS: SST record declares n total / n unique strings, one present")
def _(n):
    def patch(wb):
        wb = bytearray(wb)
        for pos, t, ln in biff_records(bytes(wb)):
            if t == 0x00FC:
                struct.pack_into("<II", wb, pos + 4, n & 0xFFFFFFFF, n & 0xFFFFFFFF)
                return bytes(wb)
        raise AssertionError("no SST")
    return _xls(patch=patch)


@template("xls-string-len", "u16", "XLS: the SST string's character count field says n (6 characters present)", expect="any")
def _(n):
    def patch(wb):
        wb = bytearray(wb)
        for pos, t, ln in biff_records(bytes(wb)):
            if t == 0x00FC:
                struct.pack_into("<H", wb, pos + 4 + 8, n)
                return bytes(wb)
        raise AssertionError("no SST")
    return _xls(patch=patch)


def ppt_records(data, start=0, end=None, depth=0):
    end = len(data) if end is None else end
    pos = start
    while pos + 8 <= end:
        vi, t, ln = struct.unpack_from("<HHI", data, pos)
        yield pos, vi, t, ln, depth
        if vi & 0xF == 0xF:
            yield from ppt_records(data, pos + 8, min(end, pos + 8 + ln), depth + 1)
        pos += 8 + ln


def _ppt_patch_len(types, n, which=0):
    def patch(doc):
        doc = bytearray(doc)
        seen = 0
        for pos, vi, t, ln, d in ppt_records(bytes(doc)):
            if t in types:
                if seen == which:
                    struct.pack_into("<I", doc, pos + 4, n & 0xFFFFFFFF)
                    return bytes(doc)
                seen += 1
        raise AssertionError("record not found")
    return patch


@template("ppt-text-reclen", "hole", "PPT: recLen of the first text atom (TextCharsAtom / TextBytesAtom) = n", expect="any")
def _(n):
    return _ppt(patch=_ppt_patch_len((0x0FA0, 0x0FA8), n))


@template("ppt-container-reclen", "hole", "PPT: recLen of the SlideListWithText container = n", expect="any")
def _(n):
    return _ppt(patch=_ppt_patch_len((0x0FF0,), n))


@template("ppt-document-reclen", "hole", "PPT: recLen of the DocumentContainer = n", expect="any")
def _(n):
    return _ppt(patch=_ppt_patch_len((0x03E8,), n))


@template("ppt-nest-container", "grow", "PPT: n empty containers (type 0x0FF0, SlideListWithText) nested inside one another, appended to the document stream",
          mags=([1, 10, 100], [1, 10, 100, 1000, 10 ** 4]))
def _(n):
    def patch(doc):
        return doc + b"".join(struct.pack("<HHI", 0x000F, 0x0FF0, 8 * (n - 1 - i)) for i in range(n))
    return _ppt(patch=patch)


@template("ppt-blip-len", "hole", "PPT: 'Pictures' stream holding one PNG BLIP record whose recLen = n (a 1x1 PNG present)", expect="any")
def _(n):
    blip = b"\0" * 16 + b"\xff" + png(1, 1)
    return _ppt(pictures=struct.pack("<HHI", 0x6E00, 0xF01E, n & 0xFFFFFFFF) + blip)


@template("ppt-blip-dims", "hole", "PPT: 'Pictures' stream holding one PNG BLIP whose IHDR declares n x n pixels")
def _(n):
    blip = b"\0" * 16 + b"\xff" + png(n, n)
    return _ppt(pictures=struct.pack("<HHI", 0x6E00, 0xF01E, len(blip)) + blip)


# ------------------------------------------------------------------------------------------------ OLE2 host: DOC
# There is no reference writer for the Word binary format; what the reader needs is little, and is written here from [MS-DOC]:
# a compound file with a WordDocument stream = FIB (wIdent 0xA5EC at 0, ccpText / ccpFtn / ccpHdd / ccpAtn at 0x4C / 0x50 /
# 0x54 / 0x5C; everything else zero: not encrypted, table stream "0Table"), the main text as cp1252 at 0x200, and a body of
# DOC_STREAM bytes from 0x1000 on that stands for the picture / formatting area ("filler": bytes 0x80..0xBF in rotation - no
# NUL, no 0x28, no PNG signature, 64 distinct values).  The picture amplifiers write n picture HEADERS into that body so that one
# declared picture extent contains all the others; the file size does not depend on n (n <= DOC_HEADERS_MAX headers fit).
DOC_STREAM = 256 * 1024
DOC_BODY = 0x1000
DOC_TEXT = "Bbcdfg lorem ipsum dolor sit amet, consectetur adipiscing elit, sed do eiusmod tempor.\rCbcdfg incididunt ut labore et dolore magna aliqua.\r"
DOC_FIB_CCP = {"text": 0x4C, "ftn": 0x50, "hdd": 0x54, "atn": 0x5C}
PNG_SIG = b"\x89PNG\r\n\x1a\n"


def doc_filler(n):
    unit = bytes(range(0x80, 0xC0))
    return (unit * (n // 64 + 1))[:n]


def doc_stream(length=DOC_STREAM, regions=(), ccp=None):
    """WordDocument stream of `length` bytes; regions: [(offset, bytes)] written over the filler; ccp: {field: count} forges a
    character count of the FIB (default: ccpText = length of the text, the others 0)"""
    text = _sub(DOC_TEXT).encode("cp1252")
    wd = bytearray(doc_filler(length))
    wd[0:DOC_BODY] = bytes(DOC_BODY)
    struct.pack_into("<H", wd, 0, 0xA5EC)
    struct.pack_into("<H", wd, 2, 0x00C1)                    # nFib: Word 97
    struct.pack_into("<I", wd, DOC_FIB_CCP["text"], len(text))
    for k, v in (ccp or {}).items():
        struct.pack_into("<I", wd, DOC_FIB_CCP[k], v & 0xFFFFFFFF)
    wd[0x200:0x200 + len(text)] = text
    for off, raw in regions:
        assert DOC_BODY <= off and off + len(raw) <= length, (off, len(raw), length)
        wd[off:off + len(raw)] = raw
    return bytes(wd)


def _doc(wd=None, table=None, summary=None):
    from verif.gen import cfb as C
    streams = {"WordDocument": doc_stream() if wd is None else wd, "0Table": doc_filler(4096) if table is None else table}
    if summary is not None:
        streams["\x05SummaryInformation"] = summary
    return "t.doc", C.cfb(streams, {})


def dib_header(w, h, bpp=24, size_image=0, compression=0):
    """BITMAPINFOHEADER (40 bytes)"""
    return struct.pack("<IiiHHIIiiII", 40, w, h, 1, bpp, compression, size_image & 0xFFFFFFFF, 2835, 2835, 0, 0)


def _dib_w(k):
    return 100 + k % 9000          # never 40: a width of 40 would read as one more header start


DOC_HEADERS_MAX = 6000                       # 6000 * 40 bytes = 240000 < DOC_STREAM - DOC_BODY
DOC_PIC_MAGS = ([1, 10, 100, 1000], [1, 10, 100, 1000, DOC_HEADERS_MAX])


def _doc_dibs(n, stride, declare):
    """n DIB headers, `stride` bytes apart, from DOC_BODY on; declare(k, at) -> (w, h, bpp, size_image)"""
    assert 1 <= n <= DOC_HEADERS_MAX and DOC_BODY + n * stride <= DOC_STREAM
    regions = []
    for k in range(n):
        at = DOC_BODY + k * stride
        regions.append((at, dib_header(*declare(k, at))))
    return _doc(wd=doc_stream(regions=regions))


@template("doc-dib-packed", "hole", f"DOC: WordDocument stream of {DOC_STREAM} bytes holding n BITMAPINFOHEADERs (24 bpp) back to back, every one "
                                    f"declaring pixel data (biSizeImage) up to the end of the stream: the first picture contains all the others",
          mags=DOC_PIC_MAGS)
def _(n):
    return _doc_dibs(n, 40, lambda k, at: (_dib_w(k), 480, 24, DOC_STREAM - at - 40))


@template("doc-dib-packed-dims", "hole", f"DOC: WordDocument stream of {DOC_STREAM} bytes holding n BITMAPINFOHEADERs back to back with biSizeImage = 0; "
                                         f"the declared width x height (24 bpp, 300-byte rows) reaches the end of the stream: the first contains all the others",
          mags=DOC_PIC_MAGS)
def _(n):
    return _doc_dibs(n, 40, lambda k, at: (100, (DOC_STREAM - at - 40) // 300, 24, 0))


@template("doc-dib-packed-palette", "hole", f"DOC: WordDocument stream of {DOC_STREAM} bytes holding n BITMAPINFOHEADERs (1 bpp: 8-byte colour table) back to "
                                            f"back, biSizeImage up to the end of the stream",
          mags=DOC_PIC_MAGS)
def _(n):
    return _doc_dibs(n, 40, lambda k, at: (_dib_w(k), 480, 1, DOC_STREAM - at - 48))


@template("doc-dib-spread", "hole", f"DOC: WordDocument stream of {DOC_STREAM} bytes holding n BITMAPINFOHEADERs (24 bpp) spread evenly over the first half "
                                    f"of the picture area, every one declaring pixel data up to the end of the stream (nested pictures)",
          mags=DOC_PIC_MAGS)
def _(n):
    stride = max(40, ((DOC_STREAM - DOC_BODY) // 2 // n) & ~3)
    return _doc_dibs(n, stride, lambda k, at: (_dib_w(k), 480, 24, DOC_STREAM - at - 40))


@template("doc-dib-overshoot", "hole", f"DOC: WordDocument stream of {DOC_STREAM} bytes holding n BITMAPINFOHEADERs back to back, every one declaring pixel "
                                       f"data that ends one byte behind the end of the stream (no complete picture)",
          mags=DOC_PIC_MAGS)
def _(n):
    return _doc_dibs(n, 40, lambda k, at: (_dib_w(k), 480, 24, DOC_STREAM - at - 40 + 1))


def _png_chunk(typ, data):
    return struct.pack(">I", len(data)) + typ + data + struct.pack(">I", zlib.crc32(typ + data))


def _png_nest(n, length, base, iend=True):
    """n PNG signatures, each followed by the 8-byte header of ONE chunk whose declared length reaches up to the single IEND chunk
    at the end of the area: the chunk of the first signature contains all the other signatures.  -> regions for a stream of
    `length` bytes whose picture area starts at `base`"""
    assert base + 16 * n + 4 + 12 <= length
    tail_at = length - 12                                # the shared IEND chunk (or, without it, 12 filler bytes)
    regions = []
    for k in range(n):
        at = base + 16 * k
        data_at = at + 16
        regions.append((at, PNG_SIG + struct.pack(">I", tail_at - 4 - data_at) + (b"IHDR" if k == 0 else b"tEXt")))
    if iend:
        regions.append((tail_at, _png_chunk(b"IEND", b"")))
    return regions


@template("doc-png-nested", "hole", f"DOC: WordDocument stream of {DOC_STREAM} bytes holding n PNG signatures 16 bytes apart, each followed by one chunk "
                                    f"header whose length reaches up to the one IEND chunk at the end of the stream: the first PNG contains all the others",
          mags=DOC_PIC_MAGS)
def _(n):
    return _doc(wd=doc_stream(regions=_png_nest(n, DOC_STREAM, DOC_BODY)))


@template("doc-png-nested-table", "hole", f"DOC: table stream of {DOC_STREAM} bytes holding n PNG signatures 16 bytes apart, each followed by one chunk header "
                                          f"whose length reaches up to the one IEND chunk at the end of the stream",
          mags=DOC_PIC_MAGS)
def _(n):
    tb = bytearray(doc_filler(DOC_STREAM))
    for off, raw in _png_nest(n, DOC_STREAM, 0x40):
        tb[off:off + len(raw)] = raw
    return _doc(wd=doc_stream(length=2 * DOC_BODY), table=bytes(tb))


@template("doc-png-nested-noend", "hole", f"DOC: WordDocument stream of {DOC_STREAM} bytes holding n PNG signatures 16 bytes apart, each followed by one chunk "
                                          f"header whose length reaches up to 12 bytes before the end of the stream; no IEND chunk (no complete picture)",
          mags=DOC_PIC_MAGS)
def _(n):
    return _doc(wd=doc_stream(regions=_png_nest(n, DOC_STREAM, DOC_BODY, iend=False)))


def _mk_doc_ccp_templates():
    for fld, what in (("text", "main text"), ("ftn", "footnote text"), ("hdd", "header / footer text"), ("atn", "annotation text")):
        def b(n, fld=fld):
            return _doc(wd=doc_stream(length=2 * DOC_BODY, ccp={fld: n}))
        template(f"doc-ccp-{fld}", "hole", f"DOC: FIB declares n characters of {what} (ccp{fld.capitalize()}); WordDocument stream of {2 * DOC_BODY} bytes",
                 )(b)


_mk_doc_ccp_templates()


def _mk_doc_ole_templates():
    for kind, (doc, mk) in OLE_FORGERIES.items():
        def b(n, mk=mk):
            return _doc(wd=doc_stream(length=2 * DOC_BODY), summary=mk(n))
        template(f"doc-ole-{kind}", "hole", f"DOC: \\x05SummaryInformation - {doc}")(b)


_mk_doc_ole_templates()


# ------------------------------------------------------------------------------------------------ archives
MEMBER_LIMIT = 10 * 1024 * 1024          # ArchiveConfig.max_memory_size (per-member limit)
CH = 1 << 20
_CACHE: dict = {}


def crc_zeros(n):
    if ("crc", n) not in _CACHE:
        c = 0
        z = bytes(CH)
        q, r = divmod(n, CH)
        for _i in range(q):
            c = zlib.crc32(z, c)
        c = zlib.crc32(bytes(r), c)
        _CACHE[("crc", n)] = c & 0xFFFFFFFF
    return _CACHE[("crc", n)]


def deflate_zeros(n):
    """raw deflate stream of n zero bytes, built from identical full-flushed pieces (a full flush ends on a byte boundary and resets
    the compressor, so the same piece can follow itself) plus a finished tail"""
    if "dpiece" not in _CACHE:
        co = zlib.compressobj(9, zlib.DEFLATED, -15)
        _CACHE["dpiece"] = co.compress(bytes(CH)) + co.flush(zlib.Z_FULL_FLUSH)
    q, r = divmod(n, CH)
    co = zlib.compressobj(9, zlib.DEFLATED, -15)
    return _CACHE["dpiece"] * q + co.compress(bytes(r)) + co.flush()


def lzma2_zeros(n, dict_size=1 << 16):
    """raw LZMA2 stream of n zero bytes: identical 1 MiB chunks (each starts with a dictionary reset, control byte >= 0xE0, and is
    therefore independent of what precedes it) + a tail chunk + the end marker 0x00"""
    import lzma
    filt = [{"id": lzma.FILTER_LZMA2, "dict_size": dict_size}]
    size = 1 << 20
    if ("l2", dict_size) not in _CACHE:
        raw = lzma.compress(bytes(size), format=lzma.FORMAT_RAW, filters=filt)
        assert raw[-1] == 0 and raw[0] >= 0xE0
        # one chunk only: control byte, 2 bytes unpacked size - 1, 2 bytes packed size - 1, props byte, payload
        csize = struct.unpack(">H", raw[3:5])[0] + 1
        assert 6 + csize + 1 == len(raw), "1 MiB of zeros must be a single LZMA2 chunk"
        _CACHE[("l2", dict_size)] = raw[:-1]
    q, r = divmod(n, size)
    tail = lzma.compress(bytes(r), format=lzma.FORMAT_RAW, filters=filt)[:-1] if r else b""
    return _CACHE[("l2", dict_size)] * q + tail + b"\x00"


def lzma1_zeros(n, dict_size=1 << 16):
    import lzma
    filt = [{"id": lzma.FILTER_LZMA1, "dict_size": dict_size, "lc": 3, "lp": 0, "pb": 2, "mode": lzma.MODE_FAST, "mf": lzma.MF_HC3,
             "nice_len": 273, "depth": 1}]
    co = lzma.LZMACompressor(format=lzma.FORMAT_RAW, filters=filt)
    out = []
    z = bytes(CH)
    q, r = divmod(n, CH)
    for _i in range(q):
        out.append(co.compress(z))
    out.append(co.compress(bytes(r)))
    out.append(co.flush())
    return b"".join(out), bytes([(2 * 5 + 0) * 9 + 3]) + struct.pack("<I", dict_size)


def sevenz_virtual(name, n, packed, method_id, props, crc):
    """7z archive with ONE member of n bytes whose packed stream is given (the member's data never exists in memory); same layout
    as verif.gen.sevenz.sevenz(..., crc='sub', layout='solid') - checked byte for byte against it for small n by the self-test"""
    from verif.gen import sevenz as SZ
    m = {"name": name, "data": b"x"}
    bits = [SZ._classify(m, False)]
    f = {"packed": packed, "id": method_id, "props": props, "unpack_size": n, "aes": None, "sizes": [n], "crcs": [crc], "crc": crc}
    header = (bytes([SZ.K_HEADER, SZ.K_MAIN_STREAMS]) + SZ._pack_info(0, [packed], False) + SZ._unpack_info([f], [None]) +
              SZ._substreams_info([f], "sub", [None], False) + bytes([SZ.K_END]) + SZ._files_info([m], bits, None) + bytes([SZ.K_END]))
    start = struct.pack("<QQI", len(packed), len(header), SZ.crc32(header))
    return SZ.SIGNATURE + SZ.VERSION + struct.pack("<I", SZ.crc32(start)) + start + packed + header


def arch_size(data, n):
    """size basis of an archive with one member of n bytes: the file, plus the member if it is within the per-member limit (an
    oversize member has to be skipped without being decompressed, so it buys no budget)"""
    return len(data) + (n if n <= MEMBER_LIMIT else 0)


# quick as well: the per-member limit, one byte more and 10^8 (a member that must be skipped costs nothing, however large it is; in a
# one-member archive NO member is selected then)
ZMAGS = ([10 ** k for k in range(0, 7)] + [MEMBER_LIMIT, MEMBER_LIMIT + 1, 10 ** 8],
         [10 ** k for k in range(0, 10)] + [MEMBER_LIMIT, MEMBER_LIMIT + 1, 2 ** 31 - 1, 2 ** 31 + 1])


@template("7z-zeros-lzma2", "hole", "7z: one member big.txt of n zero bytes, LZMA2 coder (declared sizes are honest)",
          mags=(ZMAGS[0], ZMAGS[1] + [2 ** 32 - 1]))
def _(n):
    from verif.gen import sevenz as SZ
    code, size = SZ.lzma2_dict_prop(1 << 16)
    d = sevenz_virtual("big.txt", n, lzma2_zeros(n, size), SZ.ID_LZMA2, bytes([code]), crc_zeros(n))
    return "t.7z", d, arch_size(d, n)


@template("7z-zeros-lzma", "hole", "7z: one member big.txt of n zero bytes, LZMA coder (declared sizes are honest)",
          mags=(ZMAGS[0], [10 ** k for k in range(0, 10)] + [MEMBER_LIMIT, MEMBER_LIMIT + 1]))
def _(n):
    from verif.gen import sevenz as SZ
    packed, props = lzma1_zeros(n)
    d = sevenz_virtual("big.txt", n, packed, SZ.ID_LZMA, props, crc_zeros(n))
    return "t.7z", d, arch_size(d, n)


@template("7z-num-files", "hole", "7z: FilesInfo declares n files, one member present")
def _(n):
    from verif.gen import sevenz as SZ
    return "t.7z", SZ.sevenz([{"name": "a.txt", "data": tok("Bbcdfg").encode()}], {"num_files_override": n})


@template("7z-unpack-size-copy", "hole", "7z: folder unpack size declared n (copy coder), 6 bytes present", expect="any")
def _(n):
    from verif.gen import sevenz as SZ
    return "t.7z", SZ.sevenz([{"name": "a.txt", "data": tok("Bbcdfg").encode()}], {"unpack_size_override": n})


@template("7z-unpack-size-lzma", "hole", "7z: folder unpack size declared n (LZMA coder), stream of 6 bytes", expect="any")
def _(n):
    from verif.gen import sevenz as SZ
    return "t.7z", SZ.sevenz([{"name": "a.txt", "data": tok("Bbcdfg").encode()}], {"unpack_size_override": n, "coder": "lzma"})


def _tar_zeros(n, comp):
    """tar stream [header of big.txt (size n)] [n zero bytes + padding + end blocks = zeros], compressed as concatenated streams"""
    import bz2
    import gzip
    import lzma
    from verif.gen import tarforge as TF
    hdr = TF.raw_header(b"big.txt", b"0", n)
    total_zeros = n + (-n % 512) + 1024
    total_zeros += -(512 + total_zeros) % 10240
    c = {"gz": lambda b: gzip.compress(b, 9, mtime=0), "bz2": lambda b: bz2.compress(b, 9), "xz": lambda b: lzma.compress(b, preset=6)}[comp]
    if ("tz", comp) not in _CACHE:
        _CACHE[("tz", comp)] = c(bytes(CH))
    q, r = divmod(total_zeros, CH)
    return c(hdr) + _CACHE[("tz", comp)] * q + (c(bytes(r)) if r else b"")


TMAGS = ([10 ** k for k in range(0, 7)] + [MEMBER_LIMIT, MEMBER_LIMIT + 1, 10 ** 8], [10 ** k for k in range(0, 10)] + [MEMBER_LIMIT, MEMBER_LIMIT + 1])


def _mk_tar_templates():
    for comp in ("gz", "bz2", "xz"):
        def b(n, comp=comp):
            d = _tar_zeros(n, comp)
            return f"t.tar.{comp}", d, arch_size(d, n)
        template(f"tar{comp}-zeros", "hole", f"tar.{comp}: one member big.txt of n zero bytes (header honest); the compressed stream is a "
                                             f"concatenation of {comp} members", mags=TMAGS)(b)


_mk_tar_templates()


def zip_single(name, packed, method, usize_, crc, csize=None):
    nb = name.encode()
    csize = len(packed) if csize is None else csize
    lh = struct.pack("<IHHHHHIIIHH", 0x04034B50, 20, 0, method, 0, 0x21, crc, csize, usize_, len(nb), 0) + nb
    cd = struct.pack("<IHHHHHHIIIHHHHHII", 0x02014B50, 20, 20, 0, method, 0, 0x21, crc, csize, usize_, len(nb), 0, 0, 0, 0, 0o100644 << 16, 0) + nb
    eocd = struct.pack("<IHHHHIIH", 0x06054B50, 0, 0, 1, 1, len(cd), len(lh) + len(packed), 0)
    return lh + packed + cd + eocd


@template("zip-zeros", "hole", "zip: one deflated member big.txt of n zero bytes (sizes and CRC honest)",
          mags=(ZMAGS[0], ZMAGS[1]))
def _(n):
    d = zip_single("big.txt", deflate_zeros(n), 8, n, crc_zeros(n))
    return "t.zip", d, arch_size(d, n)


@template("zip-declared-size", "hole", "zip: stored member a.txt of 6 bytes whose uncompressed-size field says n (compressed size honest)", expect="any")
def _(n):
    d = zip_single("a.txt", tok("Bbcdfg").encode(), 0, n & 0xFFFFFFFE, zlib.crc32(tok("Bbcdfg").encode()))
    return "t.zip", d, len(d)


@template("zip-entries-count", "u16", "zip: end-of-central-directory record declares n entries, one present", expect="any")
def _(n):
    d = bytearray(zip_single("a.txt", tok("Bbcdfg").encode(), 0, 6, zlib.crc32(tok("Bbcdfg").encode())))
    struct.pack_into("<HH", d, len(d) - 22 + 8, n, n)
    return "t.zip", bytes(d)


@template("tar-size-field", "hole", "tar: header of a.txt declares n bytes, 6 bytes (one block) present", expect="any",
          mags=([10 ** k for k in range(0, 7)], [10 ** k for k in range(0, 10)] + [2 ** 31 - 1, 2 ** 31 + 1, 2 ** 32 - 1, 8 ** 11 - 1]))
def _(n):
    from verif.gen import tarforge as TF
    return "t.tar", TF.raw_header(b"a.txt", b"0", n) + tok("Bbcdfg").encode().ljust(512, b"\0") + bytes(1024)


def selftest():
    """generator checks (run by C12.run once per run): virtual streams decode to what they claim; virtual 7z == reference writer"""
    import lzma
    from verif.gen import sevenz as SZ
    errs = []
    for n in (0, 1, 5, CH - 1, CH, 3 * CH + 17, (1 << 21) + 1, 5 * (1 << 21) + 3):
        if zlib.decompressobj(-15).decompress(deflate_zeros(n)) != bytes(n):
            errs.append(f"deflate_zeros({n})")
        code, size = SZ.lzma2_dict_prop(1 << 16)
        if lzma.LZMADecompressor(format=lzma.FORMAT_RAW, filters=[{"id": lzma.FILTER_LZMA2, "dict_size": size}]).decompress(lzma2_zeros(n, size)) != bytes(n):
            errs.append(f"lzma2_zeros({n})")
        if crc_zeros(n) != zlib.crc32(bytes(n)):
            errs.append(f"crc_zeros({n})")
    for n in (1, 1000, 70000):
        ref = SZ.sevenz([{"name": "big.txt", "data": bytes(n)}], {"coder": "lzma2"})
        code, size = SZ.lzma2_dict_prop(1 << 16)
        packed = lzma.compress(bytes(n), format=lzma.FORMAT_RAW, filters=[{"id": lzma.FILTER_LZMA2, "dict_size": size}])
        if sevenz_virtual("big.txt", n, packed, SZ.ID_LZMA2, bytes([code]), zlib.crc32(bytes(n))) != ref:
            errs.append(f"sevenz_virtual({n}) differs from the reference writer")
    import tarfile
    import zipfile as zf
    for comp in ("gz", "bz2", "xz"):
        n = 3 * CH + 5
        with tarfile.open(fileobj=io.BytesIO(_tar_zeros(n, comp)), mode="r:" + comp) as t:
            ms = t.getmembers()
            if [(m.name, m.size) for m in ms] != [("big.txt", n)] or t.extractfile(ms[0]).read() != bytes(n):
                errs.append(f"_tar_zeros {comp}")
    n = 2 * CH + 9
    with zf.ZipFile(io.BytesIO(zip_single("big.txt", deflate_zeros(n), 8, n, crc_zeros(n)))) as z:
        if z.testzip() is not None or z.read("big.txt") != bytes(n):
            errs.append("zip_single")
    return errs
