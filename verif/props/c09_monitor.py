"""C09 helper: per-process sandbox (canary files, private temp root, cwd) and file-system monitor (sys.addaudithook).

An audit hook cannot be removed, so it is installed once per process and switched by a flag.  Every watched event is
resolved to a real path AT EVENT TIME (dir_fd / file-descriptor arguments through /proc/self/fd, relative names of
shutil._rmtree_safe_fd through the `topfd` local of the calling frame, other relative names through the cwd) and
classified as a write-like (W) or read-like (R) access.  The analysis (inside the temporary directory created by this
call / interpreter infrastructure / outside) is done by the property module.
"""
from __future__ import annotations

import atexit
import os
import shutil
import stat
import sys
import sysconfig
import tempfile

from verif.gen.tokens import Tokens

# event -> (indices of path arguments written/created/deleted, indices of path arguments only read, index of dir_fd or None)
EVENTS = {
    "os.mkdir": ((0,), (), 2), "os.rmdir": ((0,), (), 1), "os.remove": ((0,), (), 1),
    "os.rename": ((0, 1), (), None), "os.symlink": ((1,), (), 2), "os.link": ((1,), (0,), None),
    "os.chmod": ((0,), (), 2), "os.chown": ((0,), (), 3), "os.truncate": ((0,), (), None), "os.utime": ((0,), (), 3),
    "os.listdir": ((), (0,), None), "os.scandir": ((), (0,), None), "os.mkfifo": ((0,), (), None), "os.mknod": ((0,), (), None),
    "shutil.rmtree": ((0,), (), 1), "shutil.copyfile": ((1,), (0,), None), "shutil.copymode": ((1,), (0,), None),
    "shutil.copystat": ((1,), (0,), None), "shutil.copytree": ((1,), (0,), None), "shutil.move": ((0, 1), (), None),
    "shutil.chown": ((0,), (), None), "shutil.make_archive": ((0,), (2,), None), "shutil.unpack_archive": ((1,), (0,), None),
    "tempfile.mkstemp": ((0,), (), None), "tempfile.mkdtemp": ((0,), (), None),
}
# events that act on the directory ENTRY named by the path (they never follow a symbolic link in the last component):
# removing / renaming / creating a link that lives inside the temporary directory is not an access to the link's target
NOFOLLOW = {"os.remove", "os.rmdir", "os.rename", "os.symlink", "os.link", "os.mkdir", "os.mkfifo", "os.mknod", "shutil.rmtree"}
WATCHED_DOC = sorted(EVENTS) + ["open (read-only -> R, any write/create/truncate/append mode or flag -> W)"]
_WRITE_FLAGS = os.O_WRONLY | os.O_RDWR | os.O_CREAT | os.O_TRUNC | os.O_APPEND

_MON = {"on": False, "events": None, "installed": False}


def _fd_path(fd):
    try:
        return os.readlink(f"/proc/self/fd/{int(fd)}")
    except OSError:
        return f"<fd {fd}>"


def _resolve(p, dir_fd=None, frame_depth=2, nofollow=False):
    """-> (text of the argument, real absolute path) at the time of the event; nofollow: resolve the parent directory
    only (the event acts on the entry itself, see NOFOLLOW)"""
    if isinstance(p, int):
        real = _fd_path(p)
        return f"<fd:{real}>", real
    try:
        s = os.fsdecode(p)
    except Exception:
        return repr(p), "<unresolvable>"
    if not os.path.isabs(s):
        base = None
        if isinstance(dir_fd, int) and dir_fd >= 0:
            base = _fd_path(dir_fd)
        else:
            # shutil._rmtree_safe_fd opens children by bare name relative to its directory descriptor `topfd`
            # (the "open" audit event does not carry dir_fd)
            try:
                f = sys._getframe(frame_depth)
                for _ in range(4):
                    if f is None:
                        break
                    if f.f_code.co_name == "_rmtree_safe_fd" and isinstance(f.f_locals.get("topfd"), int):
                        base = _fd_path(f.f_locals["topfd"])
                        break
                    f = f.f_back
            except Exception:
                base = None
        if base is None:
            base = os.getcwd()
        full = os.path.join(base, s)
    else:
        full = s
    try:
        if nofollow:
            head, tail = os.path.split(full.rstrip("/") or "/")
            # the kernel resolves every component but the last; "." / ".." as last component name a directory, not a link
            real = os.path.join(os.path.realpath(head), tail) if tail not in ("", ".", "..") else os.path.realpath(full)
        else:
            real = os.path.realpath(full)
    except Exception:
        real = os.path.abspath(full)
    return s, real


def _caller():
    try:
        f = sys._getframe(2)
        return f"{os.path.basename(f.f_code.co_filename)}:{f.f_code.co_name}"
    except Exception:
        return "?"


def _hook(event, args):
    if not _MON["on"]:
        return
    ev = _MON["events"]
    if event == "open":
        _MON["on"] = False
        try:
            path, mode, flags = (tuple(args) + (None, None, None))[:3]
            if isinstance(path, int):
                return                                   # wrapping an already open descriptor: no new file access
            w = False
            if isinstance(mode, str) and any(c in mode for c in "wax+"):
                w = True
            if isinstance(flags, int) and flags & _WRITE_FLAGS:
                w = True
            txt, real = _resolve(path)
            ev.append(("open", "W" if w else "R", txt, real, _caller(), os.path.lexists(real) if w else True))
        finally:
            _MON["on"] = True
        return
    spec = EVENTS.get(event)
    if spec is None:
        if event.startswith(("shutil.", "tempfile.")):
            ev.append((event, "W", repr(args)[:200], "<unknown event>", "?", True))
        return
    _MON["on"] = False
    try:
        wi, ri, di = spec
        dfd = args[di] if di is not None and di < len(args) else None
        for kind, idxs in (("W", wi), ("R", ri)):
            for i in idxs:
                if i < len(args) and args[i] is not None:
                    if event == "tempfile.mkstemp" and i == 0 and not isinstance(args[0], (str, bytes)):
                        continue
                    txt, real = _resolve(args[i], dfd, nofollow=event in NOFOLLOW and kind == "W")
                    if event == "os.mkdir" and os.path.lexists(real):
                        # mkdir of an existing path fails with EEXIST and creates nothing (os.makedirs(exist_ok=True) probes)
                        ev.append(("os.mkdir[exists]", "N", txt, real, _caller(), True))
                        continue
                    ev.append((event, kind, txt, real, _caller(), event != "os.mkdir"))
    except Exception as e:  # noqa - the monitor must never disturb the monitored code
        ev.append((event, "W", f"<monitor error {type(e).__name__}: {e}>", "<unresolvable>", "?", True))
    finally:
        _MON["on"] = True


def install():
    if not _MON["installed"]:
        sys.addaudithook(_hook)
        _MON["installed"] = True


def start():
    install()
    _MON["events"] = []
    _MON["on"] = True


def stop():
    _MON["on"] = False
    ev = _MON["events"] or []
    _MON["events"] = None
    return ev


def whitelist():
    """read-only infrastructure: (kinds, directories / files).  Only R events are ever whitelisted."""
    import mimetypes
    import zoneinfo
    paths = sysconfig.get_paths()
    dirs = {sys.prefix, sys.base_prefix, sys.exec_prefix, paths.get("stdlib"), paths.get("platstdlib"), paths.get("purelib"),
            "/repo", "/verif", "/usr/lib/locale", "/usr/share/locale"}
    dirs |= set(zoneinfo.TZPATH)
    files = set(mimetypes.knownfiles) | {"/etc/localtime"}
    return sorted(os.path.realpath(d) for d in dirs if d), sorted(os.path.realpath(f) for f in files)


# ------------------------------------------------------------------------------------------------ sandbox
CANARY_FILES = ["canary/secret.txt", "canary/deep/s2.txt", "c.txt", "cwd/c.txt"]


def canary_tokens(seed):
    tk = Tokens(seed)
    return [tk.new("K") for _ in CANARY_FILES]


class Sandbox:
    """<root>/canary/secret.txt, <root>/canary/deep/s2.txt, <root>/c.txt, <root>/cwd/c.txt (canaries), <root>/tmp (the
    private temp root that tempfile.tempdir points to during a run), <root>/cwd (working directory during a run)"""

    def __init__(self, parent, seed):
        os.makedirs(parent, exist_ok=True)
        self.root = os.path.realpath(tempfile.mkdtemp(prefix="sb-", dir=parent))
        self.tokens = canary_tokens(seed)
        for rel, tok in zip(CANARY_FILES, self.tokens):
            p = os.path.join(self.root, rel)
            os.makedirs(os.path.dirname(p), exist_ok=True)
            with open(p, "w") as f:
                f.write(f"{tok} host file content that no archive may reveal\n")
        self.tmp = os.path.join(self.root, "tmp")
        self.cwd = os.path.join(self.root, "cwd")
        os.makedirs(self.tmp)
        self.snap0 = self.snapshot()
        self._known = [("", ("dir", 0, b""))] + sorted(self.snap0.items())
        self._sig0 = self.signature()

    def snapshot(self):
        """everything under root except the temp root: {relative path: (type, mode, content)}"""
        out = {}
        for d, dirs, files in os.walk(self.root):
            rel = os.path.relpath(d, self.root)
            if rel == "tmp":
                dirs[:] = []
                continue
            for n in sorted(dirs + files):
                p = os.path.join(d, n)
                st = os.lstat(p)
                r = os.path.relpath(p, self.root)
                if stat.S_ISREG(st.st_mode):
                    with open(p, "rb") as f:
                        out[r] = ("file", stat.S_IMODE(st.st_mode), f.read(1 << 16))
                elif stat.S_ISLNK(st.st_mode):
                    out[r] = ("symlink", 0, os.readlink(p))
                elif stat.S_ISDIR(st.st_mode):
                    out[r] = ("dir", stat.S_IMODE(st.st_mode), b"")
                else:
                    out[r] = ("special", stat.S_IMODE(st.st_mode), b"")
        return out

    def signature(self):
        """cheap integrity signature of the sandbox tree (directory listings + lstat of every known entry); any content
        change that keeps size and mtime needs os.utime, which the monitor reports as a write event anyway"""
        sig = []
        for rel, (typ, _, _) in self._known:
            p = os.path.join(self.root, rel) if rel else self.root
            try:
                st = os.lstat(p)
                sig.append((rel, st.st_mode, st.st_size if typ != "dir" else 0, st.st_mtime_ns if typ != "dir" else 0, st.st_ino))
                if typ == "dir":
                    names = sorted(os.listdir(p))
                    if rel == "":
                        names = [n for n in names if n != "tmp"]
                    sig.append((rel, tuple(names)))
            except OSError as e:
                sig.append((rel, "missing", e.errno))
        return sig

    def intact(self):
        return self.signature() == self._sig0

    def tmp_listing(self):
        if not os.listdir(self.tmp):
            return []
        out = []
        for d, dirs, files in os.walk(self.tmp):
            for n in sorted(dirs + files):
                out.append(os.path.relpath(os.path.join(d, n), self.tmp))
        return sorted(out)

    def clean_tmp(self):
        for n in os.listdir(self.tmp):
            p = os.path.join(self.tmp, n)
            if os.path.isdir(p) and not os.path.islink(p):
                shutil.rmtree(p, ignore_errors=True)
            else:
                try:
                    os.remove(p)
                except OSError:
                    pass

    def restore(self):
        """rebuild the sandbox (except the temp root) after a violation so that later cases start from the same state"""
        for n in os.listdir(self.root):
            if n != "tmp":
                p = os.path.join(self.root, n)
                if os.path.isdir(p) and not os.path.islink(p):
                    shutil.rmtree(p, ignore_errors=True)
                else:
                    os.remove(p)
        os.makedirs(self.cwd, exist_ok=True)
        self._fill()
        self._sig0 = self.signature()

    def _fill(self):
        for rel, tok in zip(CANARY_FILES, self.tokens):
            p = os.path.join(self.root, rel)
            os.makedirs(os.path.dirname(p), exist_ok=True)
            with open(p, "w") as f:
                f.write(f"{tok} host file content that no archive may reveal\n")


_SB = {}


def sandbox(parent, seed):
    key = (parent, seed, os.getpid())
    if key not in _SB:
        _SB[key] = Sandbox(parent, seed)
    return _SB[key]


_OWN_PARENT = []


def own_parent():
    """sandbox parent for replay / triage in the master process (removed at exit)"""
    if not _OWN_PARENT:
        d = tempfile.mkdtemp(prefix="verif-c09-")
        _OWN_PARENT.append(d)
        atexit.register(shutil.rmtree, d, True)
    return _OWN_PARENT[0]
