"""C01 - stable failure surface and termination for arbitrary bytes.

Space I, deviation-bounded mutation: seeds G (one small generated document per format, verif.props.c01_seeds - among them three
PDFs encrypted for the empty password: RC4-128, AES-128, AES-256), F (the fixtures) and T (verif.props.c01_text: 18 carriers x 7
character classes - documents whose extracted text holds a Latin-1 / cp1252-only / BMP / astral character or a lone surrogate);
and D (verif.props.c01_feat: well-formed documents that each hold one construct of the format's grammar the G seeds lack -
spreadsheets xlsx / xls / ods with one cell of each value type {string, integer, float, boolean, date, date-time, time of day,
duration, each error value, formula with a cached number / error / string / time / date / boolean} x 2-7 values; RTF with one
destination group (11 destinations) x groups nested 0..3 deep (thorough: 4, 8) x text runs of 0 / 48 characters (thorough: 1, 8,
400) x closed / left open - unmutated, through the extractor and read_file, ZIP member, e-mail attachment and every CLI mode
(quick, RTF: extractor, read_file, cli-json));
every case applies ONE deviation to one seed and feeds the bytes to one extractor through one seam.

    case = {"src": "G:<name>" | "F:<relative fixture path>" | "T:<carrier>/<class>" | "D:<construct>", "to": extractor key, "seam": seam,
            "op": [kind, args...], optional "stdout": encoding of the CLI's stdout (default utf-8)}

Operators (kind):
  id                                  unmutated (cross-format routing: every seed x each of the 21 extractors)
  trunc off | ovw off 00/ff/x01/x80 | del off             byte level (G: every offset / quick stride 8; F: 64 / 16 offsets)
  head n | headpad n pad                                  splices: the seed's first n bytes (+ pad zero bytes) -> every extractor
  zdrop i | zempty i | ztrunc i pos | zhost i body        ZIP member dropped / emptied / cut at a '<' or '>' / replaced by hostile XML
  zforge i field value                                    forged ZIP header field (verif.gen.zipforge); i = -1: archive-level field
  cfb opt arg value                                       forged CFB field (verif.gen.cfb opts); pset: property-set stream dwords
  fatent fat|minifat k mode                               k-th used FAT / mini-FAT entry := 0 | 1 | itself | k+2 | ENDOFCHAIN | FREESECT | ffff
  reclen stream k mode                                    length field of BIFF / PPT record k := 0 | len-1 | len+1 | ffff | ffffffff
  brace rm|dup k                                          RTF: k-th brace removed / duplicated
  imgseg k mode                                           length field of segment / chunk k of the embedded JPEG / PNG
  tarsize i value | 7z opt value | mboxvar sep flb        forged archive fields, mbox separator variants
  pdfenc [field, value] ([field, value])                  encrypted-PDF seeds: one (thorough: also every two) forged field(s) of the
                                                          encryption dictionary / crypt filter / ciphertexts over the value lattices of
                                                          verif.props.c01_pdfenc.FIELDS (/V /R /Length /CF /CFM /StmF /StrF /O /U /P /ID
                                                          /EncryptMetadata /Filter /SubFilter, stream and string ciphertext cut / padded
                                                          wrongly), /O and /U recomputed so that the empty password still opens the file
  (seed renderings)                                       G seeds with a CFB / ZIP container also exist as "G:<seed>~<variant>"
                                                          (verif.props.c01_seeds.build_variants): entry names respelled upper / lower
                                                          (thorough: + swapcase) - CFB names compare case-insensitively, OPC part names
                                                          too -, CFB major version 4 (4096-byte sectors; thorough: + degenerate
                                                          directory list).  Each rendering: unmutated through every seam, and through
                                                          the extractor every container-level operator (cfb, fatent, zdrop, zempty,
                                                          zhost; thorough: every container-aware operator of the seed)
  route payload style mime ext                            routing family: the payload (a seed intact | empty | thorough: its first 8
                                                          bytes) travels under a name spelled in one of NAME_STYLES (no name at all /
                                                          "att" / "att.bin" / "att." / "att.<ext>" / "ATT.<EXT>" / "att.<foreign ext>" /
                                                          ".<ext>" / "d/att.<ext>") (a) as an e-mail attachment (seams att-eml, att-mbox;
                                                          thorough: also both through read_file) declared as every media type the
                                                          library registers or this harness knows - spelled as registered and in upper
                                                          case (thorough: and lower case) - and as 3 unregistered types, (b) as a member
                                                          of a ZIP / tar (thorough: tar.gz) archive (mem-zip, mem-tar, mem-tgz), (c) as
                                                          a file given to read_file and the CLI (thorough: every CLI mode)
Seams: direct = list(extractor(BytesIO(data), path)); read_file (temp file); zipmember (read_archive of a ZIP holding the bytes);
eml (attachment -> iterate_supported_attachments); cli / cli-json / cli-json-unit / cli-json-binary / cli-json-unit-binary /
cli-binary (cli.main with every option combination).  The CLI runs with stdout / stderr as the interpreter provides them: text
layers over byte streams with an encoding (stdout errors=strict, stderr backslashreplace); "printed" = what reached the byte
stream.  The stdout encoding is utf-8 everywhere and, for family T, also ascii and cp1252 (thorough: latin-1, utf-16).

Oracle: outcome is a list of results or an exception e with isinstance(e, ExtractionError); the call returns within the soft
budget (20 s CPU; normal <= 50 ms) and is never found waiting (10 s of which more than half neither running nor runnable by the
scheduler's accounting: blocked on something nobody releases; the worker is then replaced) - a hard kill identifies cases that
cannot even be interrupted; CLI: (exit 0, stdout non-empty,
parses) or (exit 1, stdout empty, stderr exactly one line).  One defect = one shape: failures are grouped by
(seam+extractor, clause incl. exception type, operator kind).
"""
from __future__ import annotations

import atexit
import contextlib
import io
import json
import os
import random
import shutil
import struct
import tempfile
import time

from verif.mc import pool as P
from verif.props import c01_feat as D
from verif.props import c01_pdfenc as E
from verif.props import c01_seeds as S
from verif.props import c01_text as T

LEVEL = "exploration"
SOFT_BUDGET = 20.0
HARD_TIMEOUT = 90.0
NOTE_EVERY = 16
LATTICE = [0, 1, 65535, 2 ** 32 - 1]
OVW = ["00", "ff", "x01", "x80"]
SEAMS = ["direct", "read_file", "zipmember", "eml", "cli", "cli-json", "cli-json-unit", "nopath"]
# nopath (wave 8): the extractor called as `read_x(stream)` - the path parameter is optional (`path: str | None = None`) in every
# extractor, so the failure surface must be the same without it (error paths that format or inspect the path see None there)
CLI_ARGV = {"cli": [], "cli-json": ["--json"], "cli-json-unit": ["--json-unit"], "cli-json-binary": ["--json", "--binary"],
            "cli-json-unit-binary": ["--json-unit", "--binary"], "cli-binary": ["--binary"]}
CLI_MODES = list(CLI_ARGV)
STDOUT_DEFAULT = "utf-8"
STDOUTS_QUICK = ["utf-8", "ascii", "cp1252"]
STDOUTS_THOROUGH = STDOUTS_QUICK + ["latin-1", "utf-16"]
VIA = {"read_file": ["tempfile", "read_file"], "zipmember": ["zip-member", "read_archive"],
       "eml": ["eml-attachment", "read_eml", "iterate_supported_attachments"]}
VIA.update({m: ["tempfile", "cli.main"] + a for m, a in CLI_ARGV.items()})
VIA["nopath"] = ["extractor", "path=None"]
VIA.update({"att-eml": ["eml-attachment", "read_eml", "iterate_supported_attachments"],
            "att-mbox": ["mbox-attachment", "read_mbox", "iterate_supported_attachments"],
            "att-eml-file": ["eml-attachment", "tempfile", "read_file", "iterate_supported_attachments"],
            "att-mbox-file": ["mbox-attachment", "tempfile", "read_file", "iterate_supported_attachments"],
            "mem-zip": ["zip-member", "read_archive"], "mem-tar": ["tar-member", "read_archive"], "mem-tgz": ["tar.gz-member", "read_archive"]})
EXTRACTOR_KEYS = list(S.EXTRACTORS)
# container-level operators: the ones whose effect depends on how the container's entries are named / laid out (quick tier of the
# seed renderings; the content-level ones - record lengths, image segments, XML cuts - are added in the thorough tier)
CONTAINER_OPS = ("cfb", "fatent", "zdrop", "zempty", "zhost")
# routing family: how the name that selects the extractor is spelled (e = the extension of the payload's format)
NAME_STYLES = ["none", "noext", "unknown", "dot", "own", "upper", "foreign", "hidden", "path"]
ATT_STYLES = [x for x in NAME_STYLES if x != "path"]
FILE_STYLES = [x for x in NAME_STYLES if x not in ("none", "path", "own")]
MEMBER_STYLES = [x for x in NAME_STYLES if x not in ("none", "own")]
UNREGISTERED_MIMES = ["application/octet-stream", "application/x-verif-unknown", "image/png"]
PLAIN_EXTS = ("txt", "csv", "tsv", "md", "json")
CFB_HEADER_FIELDS = [(0x18, 2), (0x1A, 2), (0x1C, 2), (0x20, 2), (0x28, 4), (0x2C, 4), (0x30, 4), (0x38, 4), (0x3C, 4), (0x40, 4),
                     (0x44, 4), (0x48, 4), (0x4C, 4)]
_TMP = {}
_MEMO: dict = {}


# ------------------------------------------------------------------------------------------------ seeds / materialisation
def src_bytes(src: str) -> bytes:
    kind, name = src.split(":", 1)
    if kind == "G":
        return S.seed(name)["data"]
    if kind == "T":
        return T.document(*name.split("/"))
    if kind == "D":
        return D.document(name)
    return S.fixture_bytes(name)


def src_own(src: str) -> str:
    kind, name = src.split(":", 1)
    if kind == "T":
        return T.CARRIERS[name.split("/")[0]][1]
    if kind == "D":
        return D.to(name)
    return S.seed(name)["to"] if kind == "G" else S.fixture_to(name)


def src_ext(src: str) -> str:
    kind, name = src.split(":", 1)
    if kind == "G":
        return S.path_ext(name)
    if kind == "T":
        return T.CARRIERS[name.split("/")[0]][0]
    if kind == "D":
        return D.ext(name)
    low = name.lower()
    return "tar.gz" if low.endswith(".tar.gz") else low.rsplit(".", 1)[1]


def family(data: bytes) -> str:
    """container family of a byte string by its magic (fingerprint of cross-format shapes)"""
    if not data:
        return "empty"
    if data[:4] == b"PK\x03\x04":
        return "zip"
    if data[:8] == b"\xd0\xcf\x11\xe0\xa1\xb1\x1a\xe1":
        return "ole"
    if data[:5] == b"%PDF-":
        return "pdf"
    if data[:5] == b"{\\rtf":
        return "rtf"
    if data[:2] == b"\x1f\x8b":
        return "gzip"
    if data[:6] == b"7z\xbc\xaf\x27\x1c":
        return "7z"
    if data[257:262] == b"ustar":
        return "tar"
    return "text"


def _ovw_byte(b: int, how: str) -> int:
    return {"00": 0, "ff": 0xFF, "x01": b ^ 1, "x80": b ^ 0x80}[how]


def _pack(width: int, v: int) -> bytes:
    return (v & ((1 << (8 * width)) - 1)).to_bytes(width, "little")


def _img_locs(blob: bytes):
    """[(offset, kind)] of the raw seed images inside blob"""
    out = []
    for kind, img in (("jpeg", S.tiny_jpeg()), ("png", S.tiny_png())):
        p = blob.find(img)
        if p >= 0:
            out.append((p, kind, len(img)))
    return out


def _img_fields(img: bytes, kind: str):
    """[(offset of the length field in img, width, length)]"""
    if kind == "jpeg":
        return [(o, 2, ln) for o, ln in S.jpeg_segments(img)]
    return [(o, 4, ln) for o, ln in S.png_chunks(img)]


def _img_mutate(img: bytes, kind: str, k: int, mode: str) -> bytes:
    o, w, ln = _img_fields(img, kind)[k]
    v = {"0": 0, "1": 1, "len-1": ln - 1, "len+1": ln + 1, "ffff": 0xFFFF, "7fffffff": 0x7FFFFFFF, "ffffffff": 0xFFFFFFFF}[mode]
    if w == 2:
        return img[:o] + struct.pack(">H", v & 0xFFFF) + img[o + 2:]
    return img[:o] + struct.pack(">I", v & 0xFFFFFFFF) + img[o + 4:]


def _img_modes(kind: str):
    return ["0", "1", "len-1", "len+1", "ffff"] if kind == "jpeg" else ["0", "len-1", "len+1", "ffff", "7fffffff", "ffffffff"]


def _seed_image(name: str):
    """(kind, image bytes) of the image embedded in G seed `name`, or None"""
    s = S.seed(name)
    jpg, png = S.tiny_jpeg(), S.tiny_png()
    blobs = []
    if "zip" in s:
        blobs = [m.get("data") or b"" for m in s["zip"]]
    elif "cfb" in s:
        blobs = list(s["cfb"][0].values())
    else:
        blobs = [s["data"]]
    for b in blobs:
        if jpg in b or jpg.hex().encode() in b:
            return "jpeg", jpg
        if png in b or png.hex().encode() in b:
            return "png", png
    return None


def _replace_image(name: str, old: bytes, new: bytes) -> bytes:
    s = S.seed(name)
    if "zip" in s:
        ms = [dict(m, data=m["data"].replace(old, new)) if m.get("data") else dict(m) for m in s["zip"]]
        return S.rezip(ms)
    if "cfb" in s:
        streams, o = s["cfb"]
        return S.cfb.cfb({k: v.replace(old, new) for k, v in streams.items()}, o)
    d = s["data"]
    if old in d:
        return d.replace(old, new)
    return d.replace(old.hex().encode(), new.hex().encode())


def materialize(case) -> bytes:
    src, op = case["src"], case["op"]
    kind = op[0]
    data = src_bytes(src)
    if kind == "id":
        return data
    if kind in ("trunc", "head"):
        return data[:op[1]]
    if kind == "route":
        return {"id": data, "empty": b"", "head8": data[:8]}[op[1]]
    if kind == "headpad":
        return data[:op[1]] + b"\0" * op[2]
    if kind == "ovw":
        off = op[1]
        return data[:off] + bytes([_ovw_byte(data[off], op[2])]) + data[off + 1:]
    if kind == "del":
        return data[:op[1]] + data[op[1] + 1:]
    name = src.split(":", 1)[1]
    s = S.seed(name)
    if kind in ("zdrop", "zempty", "ztrunc", "zhost", "zforge"):
        ms = [dict(m) for m in s["zip"]]
        i = op[1]
        if kind == "zdrop":
            del ms[i]
        elif kind == "zempty":
            ms[i]["data"] = b""
        elif kind == "ztrunc":
            ms[i]["data"] = ms[i]["data"][:op[2]]
        elif kind == "zhost":
            body = S.hostile_bodies()[op[2]]
            if body is None:
                body = S.root_only(ms[i]["data"])
            ms[i]["data"] = body
        else:
            if i < 0:
                return S.rezip(ms, {op[2]: op[3]})
            ms[i][op[2]] = op[3]
        return S.rezip(ms)
    if kind == "cfb":
        streams, o = s["cfb"] if "cfb" in s else ({}, s.get("shell_opts", {}))
        o = dict(o)
        streams = dict(streams)
        opt, arg, val = op[1], op[2], op[3]
        if opt == "sector_shift":
            o["sector_shift"] = val
        elif opt == "fat_cycle":
            o["fat_cycle"] = arg
        elif opt == "dir_cycle":
            o["dir_cycle"] = True
        elif opt == "size_override":
            o["size_override"] = {arg: val}
        elif opt == "header_patch":
            o["header_patch"] = {arg[0]: _pack(arg[1], val)}
        elif opt == "pset":
            st = streams[arg[0]]
            streams[arg[0]] = st[:arg[1]] + _pack(4, val) + st[arg[1] + 4:]
        else:
            raise ValueError(opt)
        if "shell" in s:
            return S.cfb.ooxml_encrypted_shell(opts=o)
        return S.cfb.cfb(streams, o)
    if kind == "reclen":
        streams, o = s["cfb"]
        streams = dict(streams)
        st = streams[op[1]]
        if s["rec"][op[1]] == "biff":
            p, _, ln = S.biff_records(st)[op[2]]
            v = {"0": 0, "len-1": ln - 1, "len+1": ln + 1, "ffff": 0xFFFF}[op[3]]
            st = st[:p + 2] + struct.pack("<H", v & 0xFFFF) + st[p + 4:]
        else:
            p, _, ln, _ = S.ppt_records(st)[op[2]]
            v = {"0": 0, "len-1": ln - 1, "len+1": ln + 1, "ffff": 0xFFFF, "ffffffff": 0xFFFFFFFF}[op[3]]
            st = st[:p + 4] + struct.pack("<I", v & 0xFFFFFFFF) + st[p + 8:]
        streams[op[1]] = st
        return S.cfb.cfb(streams, o)
    if kind == "fatent":
        off = _cfb_tables(data)[op[1]][op[2]]
        return data[:off] + struct.pack("<I", _fatent_value(op[3], op[2])) + data[off + 4:]
    if kind == "brace":
        pos = _rtf_braces(data)[op[2]]
        return data[:pos] + data[pos + 1:] if op[1] == "rm" else data[:pos] + data[pos:pos + 1] + data[pos:]
    if kind == "imgseg":
        ik, img = _seed_image(name)
        return _replace_image(name, img, _img_mutate(img, ik, op[1], op[2]))
    if kind == "tarsize":
        ms, comp = s["tar"]
        ms = [dict(m) for m in ms]
        ms[op[1]]["size_override"] = op[2]
        return S.tarforge.tarforge(ms, compression=comp)
    if kind == "7z":
        ms, o = s["sevenz"]
        ms = [dict(m) for m in ms]
        o = dict(o)
        if op[1] == "phantom":
            ms[op[2]]["data"] = None
        elif op[1] in ("empty_stream_bit", "empty_file_bit"):
            ms[op[2][0]][op[1]] = bool(op[2][1])
        else:
            o[op[1]] = op[2]
        return S.sevenz.sevenz(ms, o)
    if kind == "pdfenc":
        return E.build(s["pdfenc"], op[1:])
    if kind == "mboxvar":
        o = {"separator": op[1]}
        if op[2]:
            o["from_line_in_body"] = op[2]
        return S.mail.mbox([{}, {"structure": "alternative"}], o)
    raise ValueError(f"unknown operator {kind}")


def _rtf_braces(data: bytes) -> list:
    """offsets of the group braces (escaped \\{ \\} are text, not braces)"""
    out = []
    i = 0
    while i < len(data):
        c = data[i]
        if c == 0x5C:
            i += 2
            continue
        if c in (0x7B, 0x7D):
            out.append(i)
        i += 1
    return out


def _even_offsets(n: int, k: int) -> list:
    """k evenly spaced offsets 0 <= o < n (the offsets for k are a subset of those for any multiple of k)"""
    return sorted({(n * i) // k for i in range(k)}) if n > 0 else []


def _cfb_tables(data: bytes):
    """{"fat": [file offset of entry i], "minifat": [file offset of entry j]} of a compound file (only entries in use)"""
    ss = 1 << struct.unpack_from("<H", data, 0x1E)[0]
    per = ss // 4
    fat_sectors = [x for x in struct.unpack_from("<109I", data, 0x4C) if x < 0xFFFFFFFA]

    def fat_off(i):
        return (fat_sectors[i // per] + 1) * ss + (i % per) * 4

    nsect = (len(data) - ss) // ss
    fat = {}
    for i in range(min(nsect, len(fat_sectors) * per)):
        fat[i] = struct.unpack_from("<I", data, fat_off(i))[0]
    out = {"fat": [fat_off(i) for i in sorted(fat) if fat[i] != 0xFFFFFFFF], "minifat": []}
    sct = struct.unpack_from("<I", data, 0x3C)[0]
    seen = set()
    while sct < 0xFFFFFFFA and sct not in seen and sct in fat:
        seen.add(sct)
        base = (sct + 1) * ss
        for j in range(per):
            if struct.unpack_from("<I", data, base + 4 * j)[0] != 0xFFFFFFFF:
                out["minifat"].append(base + 4 * j)
        sct = fat[sct]
    return out


FATENT_VALUES = ["0", "1", "self", "skip", "end", "free", "ffff"]
FATENT_QUICK = ["0", "self", "end", "ffff"]


def _fatent_value(mode: str, index: int) -> int:
    return {"0": 0, "1": 1, "self": index, "skip": index + 2, "end": 0xFFFFFFFE, "free": 0xFFFFFFFF, "ffff": 0xFFFF}[mode]


# ------------------------------------------------------------------------------------------------ routing family
def route_name(style: str, ext: str):
    """the file / member / attachment name of a routing case (None: the carrier gives the payload no name at all)"""
    foreign = "pdf" if ext in PLAIN_EXTS else "txt"
    return {"none": None, "noext": "att", "unknown": "att.bin", "dot": "att.", "own": "att." + ext, "upper": ("att." + ext).upper(),
            "foreign": "att." + foreign, "hidden": "." + ext, "path": "d/att." + ext}[style]


def mime_table() -> list:
    """[(media type, extension of the format it stands for)]: every media type the library registers (read from its table when the
    cases are enumerated, so that a type added later is covered as well) and every one this harness knows (S.CTYPES)"""
    if "mimes" not in _MEMO:
        from sharepoint2text.parsing.mime_types import MIME_TYPE_MAPPING
        t = {v: k for k, v in S.CTYPES.items()}
        t.update({k: str(v) for k, v in MIME_TYPE_MAPPING.items() if isinstance(k, str)})
        _MEMO["mimes"] = sorted(t.items())
    return _MEMO["mimes"]


def payload_src(ext: str) -> str:
    """the seed whose bytes travel in a routing case for format extension `ext`"""
    g = S.build_g()
    for name, s_ in g.items():
        if S.path_ext(name) == ext and "pdfenc" not in s_:
            return f"G:{name}"
    to = S.EXT_TO.get(ext, "archive" if ext.startswith("t") else "plain")
    for name, s_ in g.items():
        if s_["to"] == to and "pdfenc" not in s_ and "shell" not in s_:
            return f"G:{name}"
    own = [r for r in S.fixtures() if S.fixture_to(r) == to and len(S.fixture_bytes(r)) > 0]
    if own:
        return "F:" + min(own, key=lambda r: (len(S.fixture_bytes(r)), r))
    return "G:txt"


def _route_cases(group: str, tier: str) -> list:
    quick = tier == "quick"
    g = S.build_g()
    out = []
    if group == "route:att":
        carriers = ["att-eml", "att-mbox"] if quick else ["att-eml", "att-mbox", "att-eml-file", "att-mbox-file"]
        grid = [(m, e) for m, e in mime_table()] + [(m, e) for m in UNREGISTERED_MIMES for e in ("docx", "pdf", "txt")]
        for mime, ext in grid:
            src = payload_src(ext)
            to = S.EXT_TO.get(ext, "archive" if ext.startswith("t") else "plain")
            spellings = [mime, mime.upper()] + ([] if quick or mime.lower() in (mime, mime.upper()) else [mime.lower()])
            for carrier in carriers:
                for sp in spellings:
                    for pay in (["id", "empty"] if quick else ["id", "empty", "head8"]):
                        if quick and pay != "id" and (sp != mime or carrier != "att-eml"):
                            continue        # quick: the empty payload travels under the registered spelling in an .eml only
                        if quick and carrier != "att-eml" and sp != mime:
                            continue
                        out += [{"src": src, "to": to, "seam": carrier, "via": VIA[carrier], "op": ["route", pay, st, sp, ext]}
                                for st in ATT_STYLES]
    elif group == "route:mem":
        for name, s_ in g.items():
            if s_["to"] == "archive" or "pdfenc" in s_:
                continue
            ext = S.path_ext(name)
            for carrier in (["mem-zip", "mem-tar"] if quick else ["mem-zip", "mem-tar", "mem-tgz"]):
                for pay in (["id"] if quick else ["id", "empty"]):
                    out += [{"src": f"G:{name}", "to": s_["to"], "seam": carrier, "via": VIA[carrier], "op": ["route", pay, st, None, ext]}
                            for st in MEMBER_STYLES]
    elif group == "route:path":
        for name, s_ in g.items():
            if "pdfenc" in s_:
                continue
            ext = S.path_ext(name)
            for seam in (["read_file", "cli"] if quick else ["read_file", "cli", "cli-json", "cli-json-unit"]):
                for pay in (["id"] if quick else ["id", "empty"]):
                    out += [{"src": f"G:{name}", "to": s_["to"], "seam": seam, "via": VIA[seam], "op": ["route", pay, st, None, ext]}
                            for st in FILE_STYLES]
    else:
        raise KeyError(group)
    return out


# ------------------------------------------------------------------------------------------------ enumeration
def groups(tier: str) -> list:
    """names of the case groups (each group is enumerated by group_cases)"""
    g = S.build_g()
    out = []
    for name, s in g.items():
        out.append(f"byte:G:{name}")
        out.append(f"aware:G:{name}")
    for rel in S.fixtures():
        out.append(f"fix:{rel}")
    out += ["cross", "splice", "seams:G", "seams:F", "text", "climodes", "construct"]
    out += [f"variant:{name}" for name, s in S.build_variants().items()
            if s["variant"] in (S.VARIANTS_QUICK if tier == "quick" else S.VARIANTS_THOROUGH)]
    out += ["route:att", "route:mem", "route:path"]
    only = os.environ.get("VERIF_C01_ONLY")         # development aid: run some case groups only (reported in the coverage)
    if only:
        out = [x for x in out if x.startswith(tuple(only.split(",")))]
    return out


def _aware_ops(name: str, tier: str) -> list:
    """container-aware operators of G seed `name`"""
    quick = tier == "quick"
    s = S.seed(name)
    ops = []
    if "zip" in s:
        hostile = S.HOSTILE_QUICK if quick else list(S.hostile_bodies())
        for i, m in enumerate(s["zip"]):
            if m.get("is_dir"):
                continue
            ops.append(["zdrop", i])
            ops.append(["zempty", i])
            if S.is_xml_member(m):
                d = m["data"]
                cuts = [p for p in range(1, len(d)) if d[p - 1:p] == b">" or d[p:p + 1] == b"<"]
                cuts = sorted(set(cuts))
                if quick:
                    cuts = cuts[::4]
                ops += [["ztrunc", i, p] for p in cuts]
                for h in hostile:
                    if h == "root-only" and S.root_only(d) is None:
                        continue
                    ops.append(["zhost", i, h])
            for field in ("file_size", "compress_size", "crc"):
                ops += [["zforge", i, field, v] for v in LATTICE]
            ops += [["zforge", i, "method", v] for v in (0, 1, 8, 12, 14, 99, 65535) if v != m.get("method", 0)]
            ops += [["zforge", i, "flag_bits", v] for v in (1, 8, 0x800, 0xFFFF)]
        ops += [["zforge", -1, "cd_offset_delta", v] for v in (-1, 1, 65535, 1 << 31)]
        ops += [["zforge", -1, "entries_count_override", v] for v in LATTICE[:3]]
    if "shell" in s:
        ops += [["cfb", "sector_shift", None, v] for v in (0, 1, 7, 8, 10, 12, 31, 65535)]
        ops += [["cfb", "fat_cycle", p, None] for p in s["shell"] + ["<dir>", "<minifat>", "<ministream>"]]
        ops.append(["cfb", "dir_cycle", None, None])
        for p in s["shell"] + [""]:
            ops += [["cfb", "size_override", p, v] for v in LATTICE + [2 ** 31 - 1]]
        for off, w in CFB_HEADER_FIELDS:
            ops += [["cfb", "header_patch", [off, w], v] for v in LATTICE if v < (1 << (8 * w))]
    if "cfb" in s:
        streams, _ = s["cfb"]
        ops += [["cfb", "sector_shift", None, v] for v in (0, 1, 7, 8, 10, 12, 31, 65535)]
        ops += [["cfb", "fat_cycle", p, None] for p in sorted(streams) + ["<dir>", "<minifat>", "<ministream>"]]
        ops.append(["cfb", "dir_cycle", None, None])
        for p in sorted(streams) + [""]:
            ops += [["cfb", "size_override", p, v] for v in LATTICE + [2 ** 31 - 1]]
        for off, w in CFB_HEADER_FIELDS:
            ops += [["cfb", "header_patch", [off, w], v] for v in LATTICE if v < (1 << (8 * w))]
        for p in sorted(streams):
            if p.startswith("\x05"):
                ops += [["cfb", "pset", [p, off], v] for off in range(0, len(streams[p]) - 3, 4) for v in LATTICE]
        for st in sorted(s.get("rec", {})):
            if s["rec"][st] == "biff":
                for k, (_, _, ln) in enumerate(S.biff_records(streams[st])):
                    ops += [["reclen", st, k, m] for m in ("0", "len-1", "len+1", "ffff") if not (m in ("0",) and ln == 0) and not (m == "len-1" and ln == 0)]
            else:
                for k, (_, _, ln, _) in enumerate(S.ppt_records(streams[st])):
                    ops += [["reclen", st, k, m] for m in ("0", "len-1", "len+1", "ffff", "ffffffff") if not (m in ("0", "len-1") and ln == 0)]
    if family(s["data"]) == "ole":
        tabs = _cfb_tables(s["data"])
        for which in ("fat", "minifat"):
            for k in range(len(tabs[which])):
                ops += [["fatent", which, k, m] for m in (FATENT_QUICK if quick else FATENT_VALUES)]
    if name == "rtf":
        for k in range(len(_rtf_braces(s["data"]))):
            ops += [["brace", "rm", k], ["brace", "dup", k]]
    im = _seed_image(name)
    if im is not None:
        ik, img = im
        for k in range(len(_img_fields(img, ik))):
            ops += [["imgseg", k, m] for m in _img_modes(ik)]
    if "tar" in s:
        for i in range(len(s["tar"][0])):
            ops += [["tarsize", i, v] for v in LATTICE + [2 ** 33]]
    if "sevenz" in s:
        ops += [["7z", "unpack_size_override", v] for v in LATTICE]
        ops += [["7z", "num_files_override", v] for v in LATTICE[:3] + [3]]
        ops += [["7z", "no_streams", True], ["7z", "aes_folder", 0], ["7z", "phantom", 0], ["7z", "phantom", 1],
                ["7z", "empty_stream_bit", [0, 1]], ["7z", "empty_file_bit", [0, 1]], ["7z", "pack_gap", 7]]
        ops += [["7z", "header", "encoded"], ["7z", "layout", "per_file"], ["7z", "coder", "lzma2"], ["7z", "coder", "copy"]]
    if name == "mbox":
        for sep in ("standard", "no-blank-line", "crlf"):
            for flb in (None, "escaped", "unescaped"):
                ops.append(["mboxvar", sep, flb])
    if "pdfenc" in s:
        ops += [["pdfenc", d] for d in E.deviations(s["pdfenc"])]
        if not quick:               # kept last: the singles' positions in the list (hence the seam sub-grids) are tier independent
            ops += [["pdfenc", a, b] for a, b in E.deviation_pairs(s["pdfenc"])]
    return ops


def _byte_ops(n: int, offsets) -> list:
    ops = []
    for off in offsets:
        ops.append(["trunc", off])
        ops += [["ovw", off, h] for h in OVW]
        ops.append(["del", off])
    return ops


SEAM_PLAN = {   # seam -> (byte stride quick, thorough; container-aware step quick, thorough)
    "read_file": (256, 64, 16, 4), "zipmember": (256, 64, 16, 4), "eml": (256, 64, 16, 4),
    "cli": (128, 32, 8, 2), "cli-json": (64, 8, 4, 1), "cli-json-unit": (128, 32, 8, 2), "nopath": (256, 64, 16, 4),
}


def group_cases(tier: str, group: str) -> list:
    key = (tier, group)
    if key in _MEMO:
        return _MEMO[key]
    quick = tier == "quick"
    g = S.build_g()
    out = []
    if group.startswith("byte:G:"):
        name = group[7:]
        s = g[name]
        n = len(s["data"])
        out = [{"src": f"G:{name}", "to": s["to"], "seam": "direct", "op": op} for op in _byte_ops(n, range(0, n, 8 if quick else 1))]
    elif group.startswith("aware:G:"):
        name = group[8:]
        s = g[name]
        out = [{"src": f"G:{name}", "to": s["to"], "seam": "direct", "op": op} for op in _aware_ops(name, tier)]
    elif group.startswith("fix:"):
        rel = group[4:]
        n = len(S.fixture_bytes(rel))
        to = S.fixture_to(rel)
        for off in _even_offsets(n, 16 if quick else 64):
            out.append({"src": f"F:{rel}", "to": to, "seam": "direct", "op": ["trunc", off]})
            out += [{"src": f"F:{rel}", "to": to, "seam": "direct", "op": ["ovw", off, h]} for h in OVW]
    elif group == "cross":
        srcs = [f"G:{n}" for n in g] + [f"F:{r}" for r in S.fixtures()]
        out = [{"src": src, "to": to, "seam": "direct", "op": ["id"]} for src in srcs for to in EXTRACTOR_KEYS]
    elif group == "splice":
        for name, s in g.items():
            n = len(s["data"])
            ops = [["head", 8], ["headpad", 8, 1000]] + [["head", o] for o in _even_offsets(n, 2 if quick else 8) if o != 8]
            out += [{"src": f"G:{name}", "to": to, "seam": "direct", "op": op} for op in ops for to in EXTRACTOR_KEYS]
    elif group == "seams:G":
        for seam in SEAMS[1:]:
            bq, bt, aq, at = SEAM_PLAN[seam]
            for name, s in g.items():
                if seam == "zipmember" and s["to"] == "archive":
                    continue            # nested archives are skipped by the library by design
                n = len(s["data"])
                qset = {json.dumps(op) for op in _aware_ops(name, "quick")} if quick else None
                aware = [op for k, op in enumerate(_aware_ops(name, "thorough")) if k % (aq if quick else at) == 0
                         and (qset is None or json.dumps(op) in qset)           # quick picks a subset of what thorough picks
                         and not (op[0] == "pdfenc" and len(op) > 2)]           # two-field forgeries: direct seam only
                ops = [["id"]] + _byte_ops(n, range(0, n, bq if quick else bt)) + aware
                out += [{"src": f"G:{name}", "to": s["to"], "seam": seam, "via": VIA[seam], "op": op} for op in ops]
    elif group == "seams:F":
        for seam in SEAMS[1:]:
            for rel in S.fixtures():
                to = S.fixture_to(rel)
                n = len(S.fixture_bytes(rel))
                if seam in ("zipmember", "eml") and ((seam == "zipmember" and to == "archive") or n > 600_000):
                    continue
                ops = [["id"]]
                if seam in ("read_file", "cli", "cli-json", "nopath"):
                    ops += [["trunc", o] for o in _even_offsets(n, 2 if quick else 4)]
                out += [{"src": f"F:{rel}", "to": to, "seam": seam, "via": VIA[seam], "op": op} for op in ops]
    elif group == "text":
        # family T: one character class in the extracted text x how it travels; every CLI mode x every stdout encoding
        stds = STDOUTS_QUICK if quick else STDOUTS_THOROUGH
        for nm in T.names():
            src = f"T:{nm}"
            to = src_own(src)
            out.append({"src": src, "to": to, "seam": "direct", "op": ["id"]})
            out += [{"src": src, "to": to, "seam": seam, "via": VIA[seam], "op": ["id"]} for seam in ("read_file", "zipmember", "eml")]
            for mode in CLI_MODES:
                if mode == "cli-binary":
                    continue
                encs = stds if (not quick or not mode.endswith("-binary")) else [STDOUT_DEFAULT]
                out += [{"src": src, "to": to, "seam": mode, "via": VIA[mode], "stdout": enc, "op": ["id"]} for enc in encs]
            if not quick:
                out += [{"src": src, "to": x, "seam": "direct", "op": ["id"]} for x in EXTRACTOR_KEYS if x != to]
    elif group == "construct":
        # family D: one construct of the format's grammar per document (a cell of each value type; an RTF destination group x
        # nesting depth x length of the text run x closed / open), unmutated, through the extractor and the seams
        for nm in D.names(tier):
            src = f"D:{nm}"
            to = D.to(nm)
            if nm.startswith("cell/") or not quick:
                seams = SEAMS[1:4] + CLI_MODES
            else:
                seams = ["read_file", "cli-json"]
            out.append({"src": src, "to": to, "seam": "direct", "op": ["id"]})
            out += [{"src": src, "to": to, "seam": seam, "via": VIA[seam], "op": ["id"]} for seam in seams]
    elif group == "climodes":
        # the option combinations of the CLI that the seam sub-grids do not use, on every unmutated seed
        srcs = [f"G:{n}" for n in g] + ([] if quick else [f"F:{r}" for r in S.fixtures()])
        for src in srcs:
            to = src_own(src)
            out += [{"src": src, "to": to, "seam": mode, "via": VIA[mode], "op": ["id"]}
                    for mode in ("cli-json-binary", "cli-json-unit-binary", "cli-binary")]
    elif group.startswith("variant:"):
        # another rendering of a G seed's container (entry names respelled, other sector size / directory shape): unmutated through
        # every seam, and every container-level (thorough: every container-aware) operator through the extractor
        name = group[8:]
        s = S.seed(name)
        src = f"G:{name}"
        out.append({"src": src, "to": s["to"], "seam": "direct", "op": ["id"]})
        out += [{"src": src, "to": s["to"], "seam": seam, "via": VIA[seam], "op": ["id"]} for seam in SEAMS[1:]]
        out += [{"src": src, "to": s["to"], "seam": "direct", "op": op} for op in _aware_ops(name, tier)
                if not quick or op[0] in CONTAINER_OPS]
    elif group.startswith("route:"):
        out = _route_cases(group, tier)
    else:
        raise KeyError(group)
    _MEMO[key] = out
    return out


# ------------------------------------------------------------------------------------------------ execution of one case
def _tmpdir() -> str:
    d = _TMP.get("dir")
    if d is None or _TMP.get("pid") != os.getpid():
        base = os.environ.get("VERIF_C01_TMP") or tempfile.gettempdir()
        os.makedirs(base, exist_ok=True)
        d = tempfile.mkdtemp(prefix="c01w_", dir=base)
        _TMP["dir"], _TMP["pid"] = d, os.getpid()
        atexit.register(shutil.rmtree, d, True)
    return d


def _extractor(key: str):
    fn = _MEMO.get(("ex", key))
    if fn is None:
        from sharepoint2text.parsing.router import _get_extractor
        fn = _get_extractor(S.EXTRACTORS[key])
        _MEMO[("ex", key)] = fn
    return fn


def _fmt(case) -> str:
    if case["seam"] == "direct":
        return case["to"]
    enc = case.get("stdout", STDOUT_DEFAULT)
    return f"{case['seam']}>{case['to']}" if enc == STDOUT_DEFAULT else f"{case['seam']}[{enc}]>{case['to']}"


def _short(filename: str) -> str:
    for mark in ("/sharepoint2text/", "/site-packages/", "/lib/python3.12/", "/lib/python3/"):
        if mark in filename:
            tail = filename.split(mark)[-1]
            return ("sharepoint2text/" + tail) if mark == "/sharepoint2text/" else tail
    return os.path.basename(filename)


def _exc_site(e: BaseException):
    """(site, text): site = innermost library function the exception propagated through (the place a wrapper is missing)"""
    t = type(e)
    text = f"{t.__module__}.{t.__qualname__}: {str(e)[:200]}"
    tb = e.__traceback__
    lib = raised = None
    while tb is not None:
        code = tb.tb_frame.f_code
        fn = code.co_filename
        if fn != __file__:
            raised = f"{_short(fn)}:{code.co_name}"
            if "/sharepoint2text/" in fn:
                lib = (f"{_short(fn)}:{code.co_name}", tb.tb_lineno)
        tb = tb.tb_next
    site = lib[0] if lib else (raised or "?")
    return site, text + (f" [raised in {raised}; escaped through {lib[0]} line {lib[1]}]" if lib else f" [raised in {raised}]")


class _Budget:
    """Soft budget in the manner of pool.soft_budget (SIGALRM -> pool.CaseTimeout), measured in CPU seconds of the worker so that
    the verdict does not depend on how loaded the machine is (a call that sleeps instead of computing is caught by the wall clause).
    The stack is sampled every TICK wall seconds after PROBE seconds, so that a breach is reported with the function the call is
    looping in (deepest frame common to all samples), and every 4 s a progress note tells the master that the worker can still be
    interrupted.  If the loop function has already been confirmed - for the same extractor, by a case that ran the full budget -
    further cases looping there are cut after CUT_CPU seconds and attributed to that confirmed hang.
    A call that WAITS instead of computing (a lock nobody releases) is told apart from a call that is merely starved by a loaded
    machine with the scheduler's own accounting (/proc/thread-self/schedstat: time on a CPU, time runnable but waiting for one): once
    BLOCK_WALL seconds have passed, the thread spent more than half of them neither running nor runnable and the last BLOCK_SAME
    stack samples (4 s) are one and the same stack, it is blocked.  The
    library starts no threads and never sleeps, so a correct call is runnable all the time.  Such a verdict leaves the worker process
    suspect (whatever is held stays held): it is marked tainted and replaced before it runs another case (see _recycle_if_tainted)."""
    PROBE, TICK, CUT_CPU, CUT_SAMPLES, WALL_IDLE, BLOCK_WALL, BLOCK_SHARE, BLOCK_SAME = 1.0, 0.25, 1.0, 4, 60.0, 10.0, 0.5, 16

    def __init__(self, limit: float, to: str, early: bool):
        self.limit, self.to, self.early = limit, to, early
        self.samples: list = []
        self.cut = self.deferred = self.claimer = self.breached = self.blocked = False
        self.swallowed = 0
        self.claimed = None
        self.reason = ""

    def _tick(self, signum, frame):
        st = []
        f = frame
        while f is not None:
            code = f.f_code
            if code.co_filename == __file__:
                if code.co_name == "run_seam":
                    break
            else:
                st.append(f"{_short(code.co_filename)}:{code.co_name}")
            f = f.f_back
        st.reverse()
        if not (self.breached or self.cut or self.deferred):
            self.samples.append(st)
        if self.breached or self.cut or self.deferred:
            # the verdict is in; whatever swallowed the first CaseTimeout (an `except BaseException:` somewhere below) gets it again
            # on every tick until the call unwinds. No more progress notes: if it never unwinds, the master kills the worker.
            self.swallowed += 1
            raise P.CaseTimeout()
        cpu = time.process_time() - self.c0
        wall = time.monotonic() - self.t0
        if len(self.samples) % 16 == 0:
            P.note(self.mark)
        if cpu >= self.limit:
            self.reason = f"{cpu:.0f} s of CPU time"
            self.breached = True
            raise P.CaseTimeout()
        if wall >= self.BLOCK_WALL and self.s0 is not None:
            s1 = _schedstat()
            if s1 is not None:
                asleep = wall - (s1 - self.s0)
                if asleep >= self.BLOCK_SHARE * wall and all(x == self.samples[-1] for x in self.samples[-self.BLOCK_SAME:]):
                    self.reason = (f"{wall:.0f} s of wall time of which {asleep:.0f} s neither running nor runnable: blocked "
                                   f"({cpu:.1f} s CPU)")
                    self.breached = self.blocked = True
                    raise P.CaseTimeout()
        if self.s0 is None and wall >= self.WALL_IDLE and cpu < 0.05 * wall:      # kernels without schedstat: the coarse rule
            self.reason = f"{wall:.0f} s of wall time, blocked ({cpu:.1f} s CPU)"
            self.breached = self.blocked = True
            raise P.CaseTimeout()
        if self.early and cpu >= self.CUT_CPU and len(self.samples) >= self.CUT_SAMPLES:
            site = self.site()
            self.reason = f"{cpu:.1f} s of CPU time"
            if _confirmed(self.to, site):
                self.cut = True
                raise P.CaseTimeout()
            if not self.claimer:
                # one worker at a time runs the full budget for a given loop; the others hand their case back to the master,
                # which attributes it once that run has confirmed the loop (or schedules it again if it has not)
                if _claim(self.to, site):
                    self.claimer, self.claimed = True, site
                else:
                    self.deferred = True
                    raise P.CaseTimeout()

    def site(self) -> str:
        if not self.samples:
            return "?"
        pre = self.samples[0]
        for s_ in self.samples[1:]:
            n = 0
            while n < len(pre) and n < len(s_) and pre[n] == s_[n]:
                n += 1
            pre = pre[:n]
        return pre[-1] if pre else "?"

    def __enter__(self):
        import signal
        self.t0 = time.monotonic()
        self.c0 = time.process_time()
        self.s0 = _schedstat()
        self.mark = _TMP.get("mark")
        signal.signal(signal.SIGALRM, self._tick)
        signal.setitimer(signal.ITIMER_REAL, self.PROBE, self.TICK)
        return self

    def __exit__(self, *a):
        import signal
        signal.setitimer(signal.ITIMER_REAL, 0)
        return False


def _schedstat():
    """seconds this thread has spent running + runnable (waiting for a CPU) so far, or None where the kernel does not say"""
    try:
        with open("/proc/thread-self/schedstat") as f:
            run, wait = f.read().split()[:2]
        return (int(run) + int(wait)) / 1e9
    except (OSError, ValueError):
        return None


def _recycle_if_tainted() -> None:
    """A worker in which a call was found blocked is not used again: whatever that call waited for is still held in this process,
    and every later case that needs it would block too (and be blamed for it).  The worker tells the master and leaves; the master
    hands the task to a fresh process (see run() and _map_fresh)."""
    if _TMP.get("tainted"):
        d = _TMP.get("dir")
        if d and _TMP.get("pid") == os.getpid():
            shutil.rmtree(d, ignore_errors=True)
        P.note(RECYCLE)
        os._exit(0)


RECYCLE = "recycle:tainted-worker"


def _recycled(r) -> bool:
    return r[0] == "killed" and r[1] == "worker died" and r[2] == RECYCLE


def _map_fresh(pool, func: str, args: list) -> list:
    """pool.map, re-submitting tasks that met a tainted worker (each such meeting removes one tainted worker)"""
    res = pool.map("verif.props.C01", func, args, hard_timeout=HARD_TIMEOUT)
    for _ in range(4 * pool.n + 4):
        again = [i for i, r in enumerate(res) if _recycled(r)]
        if not again:
            break
        for i, r in zip(again, pool.map("verif.props.C01", func, [args[i] for i in again], hard_timeout=HARD_TIMEOUT)):
            res[i] = r
    return res


def _confirm_path_for(base: str, to: str, site: str):
    import hashlib
    return os.path.join(base, "confirmed_" + hashlib.sha1(f"{to}|{site}".encode()).hexdigest()[:16])


def _confirm_path(to: str, site: str):
    base = os.environ.get("VERIF_C01_TMP")
    if not base:
        return None
    return _confirm_path_for(base, to, site)


def _confirmed(to: str, site: str) -> bool:
    if site == "?":
        return False
    if (to, site) in _TMP.setdefault("confirmed", set()):
        return True
    p = _confirm_path(to, site)
    if p and os.path.exists(p):
        _TMP["confirmed"].add((to, site))
        return True
    return False


def _claim(to: str, site: str) -> bool:
    p = _confirm_path(to, site)
    if not p or site == "?":
        return True
    p = p.replace("confirmed_", "claim%s_" % _TMP.get("round", 0))
    try:
        os.close(os.open(p, os.O_CREAT | os.O_EXCL | os.O_WRONLY))
        return True
    except FileExistsError:
        return False
    except OSError:
        return True


def _unclaim(to: str, site: str) -> None:
    p = _confirm_path(to, site)
    if p:
        with contextlib.suppress(OSError):
            os.unlink(p.replace("confirmed_", "claim%s_" % _TMP.get("round", 0)))


def _confirm(to: str, site: str) -> None:
    _TMP.setdefault("confirmed", set()).add((to, site))
    p = _confirm_path(to, site)
    if p:
        with contextlib.suppress(OSError):
            open(p, "w").close()


def build_input(case, data: bytes):
    """harness side of a seam (wrapping, path names): -> (ext, wrapped bytes or None)"""
    seam, to = case["seam"], case["to"]
    if case["op"][0] == "route":
        _, _, style, mime, ext = case["op"]
        fname = route_name(style, ext)
        if seam.startswith("att-"):
            att = {"filename": fname, "filename_style": "plain", "ctype": mime, "data_hex": data.hex(), "cte": "base64",
                   "disposition": "attachment"}
            spec = {"structure": "mixed-plain-att-att", "attachments": [att]}
            return fname, (S.mail.mbox([spec, {}]) if seam.startswith("att-mbox") else S.mail.eml(spec))
        if seam == "mem-zip":
            return fname, S.zipforge.zipforge([{"name": fname, "data": data, "method": 8}])
        if seam in ("mem-tar", "mem-tgz"):
            return fname, S.tarforge.tarforge([{"name": fname, "data": data}], compression="gz" if seam == "mem-tgz" else None)
        return fname, None
    ext = S.EXTRACTORS[to] if (case["op"][0] in ("id", "head", "headpad") and seam == "direct") else src_ext(case["src"])
    if seam == "zipmember":
        return ext, S.zipforge.zipforge([{"name": "member." + ext, "data": data, "method": 0}])
    if seam == "eml":
        return ext, S.mail.eml({"structure": "mixed-plain-att-att",
                                "attachments": [{"filename": "att." + ext, "filename_style": "plain", "ctype": S.CTYPES.get(ext, S.CTYPE_FALLBACK),
                                                 "data_hex": data.hex(), "cte": "base64"}]})
    return ext, None


def run_seam(case, data: bytes, ext: str, wrapped):
    """-> (outcome class, [(clause, message, site)])   lets pool.CaseTimeout through"""
    from sharepoint2text.parsing.exceptions import ExtractionError
    seam, to = case["seam"], case["to"]
    fails = []
    fname = ext if case["op"][0] == "route" else "case." + ext        # routing cases name the file themselves
    if seam.startswith("cli"):
        import sharepoint2text.cli as cli
        path = os.path.join(_tmpdir(), fname)
        with open(path, "wb") as f:
            f.write(data)
        argv = CLI_ARGV[seam] + [path]
        json_mode = "--json" in argv or "--json-unit" in argv
        # stdout / stderr as the interpreter sets them up: text layers over byte streams, stdout strict, stderr backslashreplace.
        # What counts as "printed" is what reached the byte stream.
        enc = case.get("stdout", STDOUT_DEFAULT)
        bo, be = io.BytesIO(), io.BytesIO()
        so = io.TextIOWrapper(bo, encoding=enc, errors="strict", newline="\n")
        se = io.TextIOWrapper(be, encoding=enc, errors="backslashreplace", newline="\n")
        try:
            with contextlib.redirect_stdout(so), contextlib.redirect_stderr(se):
                rc = cli.main(argv)
            so.flush()
            se.flush()
        except P.CaseTimeout:
            raise
        except BaseException as e:  # noqa
            site, text = _exc_site(e)
            return f"cli-escape:{type(e).__name__}", [(f"cli-escape:{type(e).__name__}@{site}", f"cli.main raised {text}", None)]
        finally:
            with contextlib.suppress(OSError):
                os.unlink(path)
        out, err = bo.getvalue().decode(enc, "replace"), be.getvalue().decode(enc, "replace")
        errn = err.replace(path, "<path>")
        if rc == 0:
            if not out:
                fails.append(("cli-success-empty-stdout", "exit 0 but nothing on stdout", None))
            elif json_mode:
                try:
                    json.loads(out)
                except ValueError as e:
                    fails.append(("cli-success-unparseable", f"exit 0 but stdout is not JSON: {e}; stdout[:120]={out[:120]!r}", None))
            return "cli-exit0", fails
        if rc == 1:
            if out:
                fails.append(("cli-failure-stdout", f"exit 1 but stdout ({enc}) is not empty ({len(out)} chars: {out[:100]!r}); stderr={errn[:200]!r}", None))
            lines = err.split("\n")
            if not (len(lines) == 2 and lines[0] and lines[1] == ""):
                fails.append(("cli-failure-stderr-lines", f"exit 1 with {err.count(chr(10))} line break(s) on stderr instead of exactly one line: {errn[:300]!r}", None))
            return "cli-exit1", fails
        return f"cli-exit{rc}", [("cli-exit-code", f"exit status {rc!r} (neither 0 nor 1); stderr={errn[:200]!r}", None)]
    try:
        if seam == "direct":
            res = list(_extractor(to)(io.BytesIO(data), "case." + ext))
        elif seam == "nopath":
            res = list(_extractor(to)(io.BytesIO(data)))
        elif seam == "read_file":
            import sharepoint2text
            path = os.path.join(_tmpdir(), fname)
            with open(path, "wb") as f:
                f.write(data)
            try:
                res = list(sharepoint2text.read_file(path))
            finally:
                with contextlib.suppress(OSError):
                    os.unlink(path)
        elif seam.startswith("att-"):
            kind = "mbox" if seam.startswith("att-mbox") else "eml"
            if seam.endswith("-file"):
                import sharepoint2text
                path = os.path.join(_tmpdir(), "wrap." + kind)
                with open(path, "wb") as f:
                    f.write(wrapped)
                try:
                    mails = list(sharepoint2text.read_file(path))
                finally:
                    with contextlib.suppress(OSError):
                        os.unlink(path)
            else:
                mails = list(_extractor(kind)(io.BytesIO(wrapped), "wrap." + kind))
            res = []
            for r in mails:
                res.extend(r.iterate_supported_attachments())
        elif seam.startswith("mem-"):
            res = list(_extractor("archive")(io.BytesIO(wrapped), "wrap." + {"mem-zip": "zip", "mem-tar": "tar", "mem-tgz": "tar.gz"}[seam]))
        elif seam == "zipmember":
            res = list(_extractor("archive")(io.BytesIO(wrapped), "wrap.zip"))
        elif seam == "eml":
            mails = list(_extractor("eml")(io.BytesIO(wrapped), "wrap.eml"))
            res = []
            for r in mails:
                res.extend(r.iterate_supported_attachments())
        else:
            raise ValueError(seam)
        return "ok:results" if res else "ok:empty", fails
    except P.CaseTimeout:
        raise
    except ExtractionError as e:
        return f"xerr:{type(e).__name__}", fails
    except BaseException as e:  # noqa
        site, text = _exc_site(e)
        return f"escape:{type(e).__name__}", [(f"escape:{type(e).__name__}@{site}", f"{text}: not an ExtractionError; input {len(data)} bytes", None)]


def evaluate(case, early: bool = False):
    """-> (outcome class, [(clause, message, site)], CPU seconds)"""
    c0 = time.process_time()
    try:
        data = materialize(case)
        ext, wrapped = build_input(case, data)
    except NotImplementedError:
        return "inexpressible", [], 0.0
    b = _Budget(SOFT_BUDGET, case["to"], early and case["src"].startswith(("G:", "D:")))    # fixtures may legitimately need seconds: no attribution
    oc, fails = None, []
    try:
        with b:
            if os.environ.get("VERIF_C01_SELFTEST") == "block" and case["src"] == "G:json" and case["op"] == ["trunc", 8] and case["seam"] == "direct":
                import signal          # harness self-test: an uninterruptible call (exercises the hard-kill path of run())
                signal.pthread_sigmask(signal.SIG_BLOCK, {signal.SIGALRM})
                while True:
                    pass
            oc, fails = run_seam(case, data, ext, wrapped)
    except P.CaseTimeout:
        pass
    finally:
        if b.claimed:
            _unclaim(case["to"], b.claimed)
    dt = time.process_time() - c0
    if b.blocked:
        _TMP["tainted"] = True
    if b.breached or b.cut or b.deferred or oc is None:
        # once the budget is crossed the verdict stands, whatever the call does with the interruption (olefile, for one, catches
        # BaseException per property and carries on)
        site = b.site()
        extra = f"; the interruption was swallowed {b.swallowed} time(s) before the call unwound" if b.swallowed else ""
        if b.deferred:
            return "deferred", [("hang", _cut_msg(b.reason, len(b.samples), site, len(data)) + extra, site)], dt
        if b.cut:
            return "hang", [("hang", _cut_msg(b.reason, len(b.samples), site, len(data)) + extra, site)], dt
        _confirm(case["to"], site)
        msg = (f"no result and no exception after {b.reason or 'the budget'} (budget {SOFT_BUDGET:.0f} s; all {len(b.samples)} stack samples "
               f"inside {site}){extra}; input {len(data)} bytes")
        return "hang", [("hang", msg, site)], dt
    return oc, fails, dt


def _cut_msg(reason, nsamples, site, nbytes):
    return (f"still running after {reason} (normal: milliseconds), all {nsamples} stack samples inside {site} - the loop that a case run "
            f"for the full {SOFT_BUDGET:.0f} s budget did not leave either; input {nbytes} bytes")


def _eval_one(case):
    _recycle_if_tainted()
    oc, fails, dt = evaluate(case, early=False)
    return {"oc": oc, "fails": fails, "dt": dt}


_RX: dict = {}
_HANG_CACHE: dict = {}      # json(case) -> reexec result, for cases whose hang verdict has been confirmed in a fresh worker


def _rx_pool():
    if _RX.get("pid") != os.getpid():
        _RX["pool"] = P.Pool(1)
        _RX["pid"] = os.getpid()
        atexit.register(_RX["pool"].close)
    return _RX["pool"]


def reexec(fmt, case):
    """One case on the real code, in a sandboxed worker (rlimit, hard kill) so that a hanging or crashing case cannot take the
    triage down.  A hang verdict is remembered per case (each confirmation costs the full budget)."""
    case = {k: v for k, v in case.items() if k != "site"}
    key = json.dumps(case, sort_keys=True)
    if key in _HANG_CACHE:
        return _HANG_CACHE[key]
    try:
        pool = _rx_pool()
    except Exception:  # daemonic caller: run inline
        return [(c, m) for c, m, _ in evaluate(case, early=False)[1]]
    out = _rx_result(_map_fresh(pool, "_eval_one", [case])[0])
    if any(c == "hang" for c, _ in out):
        _HANG_CACHE[key] = out
    return out


def _rx_result(r):
    st, res, _ = r
    if st == "done":
        return [(c, m) for c, m, _ in res["fails"]]
    if st == "killed" and res == "hard timeout":
        return [("hang", f"worker had to be killed after {HARD_TIMEOUT:.0f} s: the call neither returned nor could be interrupted")]
    if st == "killed":
        return [("crash", "the worker process died while running this case")]
    raise RuntimeError(f"harness error while re-executing: {res}")


def _confirm_representatives(pool, fails):
    """The triage re-executes the simplest failing case of every shape twice, one after the other; for hangs that is 2 x 20 s
    per shape.  Do exactly these re-executions here, all in parallel on the sweep's workers (full budget, no attribution), and
    remember a verdict only if both runs agree on it."""
    from verif.mc import findings as F
    reps = {}
    for clause, fmt, case, msg in fails:
        if clause != "hang":
            continue
        k = (fmt, case.get("site"))
        sk = (F.size(case), fmt, clause, json.dumps(F.abstract(case), sort_keys=True))
        if k not in reps or sk < reps[k][0]:
            reps[k] = (sk, case)
    cases = [{k: v for k, v in c.items() if k != "site"} for _, c in reps.values()]
    if not cases:
        return 0
    res = _map_fresh(pool, "_eval_one", cases + cases)
    for i, c in enumerate(cases):
        try:
            a, b = _rx_result(res[i]), _rx_result(res[i + len(cases)])
        except RuntimeError:
            continue
        if any(x == "hang" for x, _ in a) and any(x == "hang" for x, _ in b):
            _HANG_CACHE[json.dumps(c, sort_keys=True)] = a
    return len(cases)


# ------------------------------------------------------------------------------------------------ triage hooks
def op_kind(case) -> str:
    k = case["op"][0]
    if k in ("ovw", "del"):
        return "byte"
    if k == "cfb":
        return "cfb:" + case["op"][1]
    if k == "zforge":
        return "zforge:" + case["op"][2]
    if k == "7z":
        return "7z:" + case["op"][1]
    if k == "pdfenc":
        return "pdfenc:" + "+".join(d[0] for d in case["op"][1:])
    if k in ("head", "headpad"):
        return "splice"
    if k == "route":
        return "route:" + case["op"][2]
    if k == "id":
        return "id" if case["to"] == src_own(case["src"]) else "cross"
    return k


def fingerprint_view(case):
    """What identifies a finding besides (seam>extractor, clause).  Escapes: nothing more - the clause names the exception type and
    the library function it escaped through, so one missing / misplaced wrapper is one shape whichever operator reaches it.
    Hangs: the function the call loops in (kept in the failing case as "site").  CLI protocol clauses: the operator kind."""
    if case.get("site"):
        return {"site": case["site"]}
    if case["seam"].startswith("cli"):
        return {"op": op_kind(case)}
    return {}


def embeds(small, big) -> bool:
    if small["to"] != big["to"]:
        return False
    return fingerprint_view(small) == fingerprint_view(big)


def shrinks(case):
    """A case is a single deviation already.  Simplifications tried: the same deviation through the direct seam, a fixture-based
    cross-format case from the generated seed of the same container family, and the plainest deviations of the same seed."""
    if case.get("site"):
        return          # every attempt would cost the full time budget
    if case["src"].startswith("F:") and case["op"][0] == "id":
        fam = family(src_bytes(case["src"]))
        for name, s in S.build_g().items():
            if family(s["data"]) == fam:
                yield dict(case, src=f"G:{name}")
    if case["op"][0] == "route":
        if case["op"][1] != "empty":
            yield dict(case, op=["route", "empty"] + list(case["op"][2:]))
        return
    if case["op"][0] == "pdfenc" and len(case["op"]) == 3:
        yield dict(case, op=["pdfenc", case["op"][1]])
        yield dict(case, op=["pdfenc", case["op"][2]])
    if case["op"][0] not in ("id", "head", "headpad") and case["op"] != ["trunc", 0] and case["src"].startswith("G:"):
        yield dict(case, op=["trunc", 0])


# ------------------------------------------------------------------------------------------------ workers / run
def _failure(case, clause, msg, site):
    c = dict(case)
    if site:
        c["site"] = site
    fmt = case["to"] if clause in ("hang", "crash") else _fmt(case)      # a loop is the same defect through every seam
    return (clause, fmt, c, msg)


def _part(arg):
    tier, group, k, n, start, limit = arg["tier"], arg["group"], arg["k"], arg["n"], arg["start"], arg.get("limit")
    _recycle_if_tainted()
    _TMP["round"] = arg.get("round", 0)
    cases = group_cases(tier, group)
    idx = [i for i in range(k, len(cases), n) if i >= start]
    if limit is not None:
        idx = idx[:limit]
    ev = 0
    fails = []
    outcomes: dict = {}
    samples = []
    slow = []
    deferred = []
    since = NOTE_EVERY
    resume = None
    for pos, i in enumerate(idx):
        if _TMP.get("tainted"):
            resume = {"start": i, "limit": len(idx) - pos}       # the rest of the partition goes to a fresh worker
            break
        if since >= NOTE_EVERY:
            P.note(i)
            _TMP["mark"] = i
            since = 0
        since += 1
        case = cases[i]
        try:
            oc, fl, dt = evaluate(case, early=True)
        except MemoryError:
            oc, fl, dt = "escape:MemoryError", [("escape:MemoryError", "MemoryError under RLIMIT_AS 3 GiB escaped to the harness while running the case", None)], 0.0
        if oc == "inexpressible":
            continue
        if oc == "deferred":
            deferred.append((i, fl[0][2], fl[0][1]))
            since = NOTE_EVERY
            continue
        ev += 1
        key = f"{_fmt(case)}|{op_kind(case)}|{oc}"
        outcomes[key] = outcomes.get(key, 0) + 1
        for clause, msg, site in fl:
            fails.append(_failure(case, clause, msg, site))
        if dt > 1.0:
            slow.append((round(dt, 1), case))
            since = NOTE_EVERY          # re-arm the liveness clock right after a slow case
        if ev in (2, 40) and len(samples) < 2:
            samples.append({"case": case, "outcome": oc})
    return {"ev": ev, "fails": fails, "outcomes": outcomes, "samples": samples, "slow": slow, "deferred": deferred, "resume": resume}


def _partitions(tier, group):
    n_cases = len(group_cases(tier, group))
    if n_cases == 0:
        return []
    per = 300 if group.startswith(("byte:", "aware:", "splice", "cross")) else 150
    if group.startswith("fix:"):
        size = len(S.fixture_bytes(group[4:]))
        per = 400 if size < 50_000 else (80 if size < 500_000 else 20)
    n = max(1, -(-n_cases // per))
    return [{"tier": tier, "group": group, "k": k, "n": n, "start": 0} for k in range(n)]


def run(ctx):
    base = tempfile.mkdtemp(prefix="verif_c01_")
    tasks = []
    per_group = {}
    for grp in groups(ctx.tier):
        per_group[grp] = len(group_cases(ctx.tier, grp))
        tasks += _partitions(ctx.tier, grp)
    # a seed-dependent work order (the set of cases is fixed); fixture partitions (the expensive ones) first
    random.Random(ctx.seed).shuffle(tasks)
    tasks.sort(key=lambda t: 0 if t["group"].startswith(("fix:", "seams:F")) else 1)
    ev = 0
    fails, herr, samples, slow = [], [], [], []
    outcomes: dict = {}
    kills = recycled = 0
    try:
        with P.Pool(ctx.ncpu, env={"VERIF_C01_TMP": base}) as pool:
            todo = tasks
            rnd = 0
            while todo:
                res = pool.map("verif.props.C01", "_part", todo, hard_timeout=HARD_TIMEOUT)
                nxt = []
                rnd += 1
                for (st, r, note), t in zip(res, todo):
                    if st == "done":
                        ev += r["ev"]
                        fails += [tuple(x) for x in r["fails"]]
                        for k_, v in r["outcomes"].items():
                            outcomes[k_] = outcomes.get(k_, 0) + v
                        samples += r["samples"]
                        slow += r["slow"]
                        for i, site, msg in r["deferred"]:
                            case = group_cases(t["tier"], t["group"])[i]
                            p_ = os.path.join(base, os.path.basename(_confirm_path_for(base, case["to"], site)))
                            if os.path.exists(p_):
                                ev += 1
                                fails.append(_failure(case, "hang", msg, site))
                                key = f"{_fmt(case)}|{op_kind(case)}|hang"
                                outcomes[key] = outcomes.get(key, 0) + 1
                            else:
                                nxt.append(dict(t, start=i, limit=1, round=rnd))
                        if r.get("resume"):
                            nxt.append(dict(t, round=rnd, **r["resume"]))
                            recycled += 1
                        continue
                    if _recycled((st, r, note)):
                        nxt.append(dict(t, round=rnd))           # nothing of the task was run: same task, fresh worker
                        continue
                    if st == "error":
                        herr.append(f"partition {t} failed: {str(r)[-800:]}")
                        continue
                    # killed (hard timeout or worker death): find the case. Results of the partition were lost with the worker.
                    kills += 1
                    cases = group_cases(t["tier"], t["group"])
                    idx = [i for i in range(t["k"], len(cases), t["n"]) if i >= t["start"]]
                    if t.get("limit") is not None:
                        idx = idx[:t["limit"]]
                    if not idx:
                        continue
                    if len(idx) == 1:
                        case = cases[idx[0]]
                        ev += 1
                        if r == "hard timeout":
                            fails.append(_failure(case, "hang", f"worker had to be killed after {HARD_TIMEOUT:.0f} s without progress: the call neither "
                                                                 "returned nor could be interrupted", "uninterruptible"))
                            oc = "hang-hard"
                        else:
                            fails.append(_failure(case, "crash", "the worker process died while running this case", "process-death"))
                            oc = "crash"
                        key = f"{_fmt(case)}|{op_kind(case)}|{oc}"
                        outcomes[key] = outcomes.get(key, 0) + 1
                        continue
                    first = note if note is not None else idx[0]
                    before = [i for i in idx if i < first]
                    window = [i for i in idx if i >= first][:NOTE_EVERY]
                    rest = [i for i in idx if window and i > window[-1]]
                    if before:
                        nxt.append(dict(t, start=before[0], limit=len(before), round=rnd))
                    for i in window:
                        nxt.append(dict(t, start=i, limit=1, round=rnd))
                    if rest:
                        nxt.append(dict(t, start=rest[0], limit=len(rest), round=rnd))
                todo = nxt
            confirmed_reps = _confirm_representatives(pool, fails)
    finally:
        shutil.rmtree(base, ignore_errors=True)
    total = sum(per_group.values())
    by_class: dict = {}
    for k_, v in outcomes.items():
        c = k_.split("|", 2)[2]
        by_class[c] = by_class.get(c, 0) + v
    grp_sizes: dict = {}
    for grp, n in per_group.items():
        fam = grp.split(":")[0] if not grp.startswith(("seams", "route")) else grp
        grp_sizes[fam] = grp_sizes.get(fam, 0) + n
    samples = sorted(samples, key=lambda s_: json.dumps(s_, sort_keys=True))[:6]
    slow.sort(key=lambda x: (-x[0], json.dumps(x[1], sort_keys=True)))
    q = ctx.quick
    cov = {"evaluations": ev, "enumerated": total, "distinct_nontrivial": len(outcomes), "outcome_classes": by_class,
           "cases_per_operator_family": grp_sizes, "seeds_G": len(S.build_g()), "seeds_F": len(S.fixtures()), "extractors": len(EXTRACTOR_KEYS),
           "hard_kills": kills, "workers_replaced_after_a_blocked_call": recycled, "hang_shapes_reconfirmed_twice": confirmed_reps, "slowest_cases": [{"seconds": s_, "case": c} for s_, c in slow[:5]],
           "rule": "every single-deviation mutant of every seed: G = %d generated documents (every %sbyte offset x {truncate, 00, FF, ^01, ^80, "
                   "delete}; per ZIP member drop / empty / cut at every %stag boundary / %d hostile XML bodies / forged header fields; CFB "
                   "forged header, FAT, directory and property-set fields; every BIFF / PPT record length field; every RTF brace; every "
                   "JPEG / PNG segment length; forged tar / 7z fields; mbox separator variants; for the 3 encrypted PDFs every %s of "
                   "the %d forged encryption-dictionary / ciphertext values), F = %d fixtures (truncate / overwrite at %d "
                   "evenly spaced offsets), every seed unmutated and every G seed's head splices to each of the 21 extractors, and a stated "
                   "sub-grid through read_file, ZIP member, e-mail attachment and the three CLI modes; T = %d documents (%d carriers x %d "
                   "character classes, expressible ones) through the extractor, read_file, ZIP member, e-mail attachment and every CLI "
                   "mode x stdout encoding %s%s; D = %d construct documents (%d spreadsheet cells: %s x value types %s; %d RTF destination "
                   "groups: %s x nesting depth %s x text run %s x %s) unmutated through %s; "
                   "the remaining CLI option combinations (--binary) on every unmutated G seed%s; "
                   "renderings: every G seed with a CFB / ZIP container re-rendered %s (unmutated through every seam; every container-%s "
                   "operator through the extractor); routing: payload x name style %s x carrier (e-mail attachment of .eml / .mbox under "
                   "each of the %d registered / known media types spelled as registered and upper-case%s + 3 unregistered; ZIP / tar%s member; "
                   "file name given to read_file / CLI); "
                   "executed on the real extractors in "
                   "sandboxed workers; distinct_nontrivial = distinct (seam>extractor, operator kind, outcome class) triples observed"
                   % (len(S.build_g()), "8th " if q else "", "4th " if q else "", len(S.HOSTILE_QUICK) if q else len(S.hostile_bodies()),
                      "one" if q else "one and every two (in different fields)", len(E.deviations("aes")),
                      len(S.fixtures()), 16 if q else 64, len(T.names()), len(T.CARRIERS), len(T.CHARS),
                      STDOUTS_QUICK if q else STDOUTS_THOROUGH, "" if q else ", and to each of the other 20 extractors",
                      len(D.names(ctx.tier)), len([n for n in D.names(ctx.tier) if n.startswith("cell/")]), list(D.CELL_FORMATS),
                      {k: len(v) for k, v in D.CELLS.items()}, len([n for n in D.names(ctx.tier) if n.startswith("rtfgrp/")]),
                      D.RTF_DESTS, D.RTF_DEPTHS_QUICK if q else D.RTF_DEPTHS_THOROUGH, D.RTF_RUNS_QUICK if q else D.RTF_RUNS_THOROUGH,
                      D.RTF_ENDS, "the extractor, read_file, ZIP member, e-mail attachment and every CLI mode" +
                      (" (RTF groups: extractor, read_file, cli-json)" if q else ""),
                      "" if q else " and fixture",
                      S.VARIANTS_QUICK if q else S.VARIANTS_THOROUGH, "level" if q else "aware", NAME_STYLES, len(mime_table()),
                      "" if q else " and lower-case", "" if q else " / tar.gz"),
           "samples": samples, "exhaustive": True,
           "bounds": {"tier": ctx.tier, "soft_budget_s": SOFT_BUDGET, "hard_timeout_s": HARD_TIMEOUT, "blocked_after_wall_s": _Budget.BLOCK_WALL,
                      "stdout_encodings": STDOUTS_QUICK if q else STDOUTS_THOROUGH, "cli_modes": CLI_MODES,
                      "text_character_classes": list(T.CHARS), "text_carriers": list(T.CARRIERS),
                      "construct_cell_formats": list(D.CELL_FORMATS), "construct_cell_values": D.CELLS,
                      "construct_rtf_destinations": D.RTF_DESTS,
                      "construct_rtf_depths": D.RTF_DEPTHS_QUICK if q else D.RTF_DEPTHS_THOROUGH,
                      "construct_rtf_text_runs": D.RTF_RUNS_QUICK if q else D.RTF_RUNS_THOROUGH, "construct_rtf_ends": D.RTF_ENDS,
                      "pdfenc_seeds": list(E.SEEDS), "pdfenc_fields": {k: len(v) for k, v in E.FIELDS.items()},
                      "pdfenc_deviations_per_case": 1 if q else 2,
                      "seed_renderings": S.VARIANTS_QUICK if q else S.VARIANTS_THOROUGH,
                      "rendering_operators": list(CONTAINER_OPS) if q else "all container-aware operators",
                      "route_name_styles": NAME_STYLES, "route_media_types": [m for m, _ in mime_table()] + UNREGISTERED_MIMES,
                      "route_media_type_spellings": ["registered", "upper"] + ([] if q else ["lower"]),
                      "route_payloads": ["id", "empty"] + ([] if q else ["head8"]),
                      "route_carriers": ["att-eml", "att-mbox", "mem-zip", "mem-tar", "read_file", "cli"] +
                                        ([] if q else ["att-eml-file", "att-mbox-file", "mem-tgz", "cli-json", "cli-json-unit"])}}
    if ev != total:
        cov["skipped_inexpressible"] = total - ev
    if os.environ.get("VERIF_C01_ONLY"):
        cov["restricted_to_groups"] = os.environ["VERIF_C01_ONLY"]
        cov["exhaustive"] = False
    return {"coverage": cov, "failures": fails, "harness_errors": herr, "assumptions": ASSUMPTIONS}


ASSUMPTIONS = [
    "'consuming the results' = list(generator); the returned objects' methods (get_full_text, iterate_units, ...) are not called here "
    "(the CLI seams do call them)",
    "any subclass of sharepoint2text.parsing.exceptions.ExtractionError is an acceptable failure, whichever it is (a wrong member of the "
    "family, e.g. 'encrypted' for a corrupt file, is not judged by C01)",
    "log records and Python warnings are switched off in the workers: only what cli.main itself writes to stdout / stderr is judged",
    "CLI text mode: any non-empty stdout counts as 'prints the result'; JSON modes: stdout must be accepted by json.loads (NaN allowed)",
    "the statement quantifies over input files, not over terminals: the CLI contract is checked with the stdout the interpreter gives a "
    "process - a text layer over a byte stream, errors='strict' - under utf-8 (default of every current platform) and, for the "
    "documents of family T, under ascii (C / POSIX locale without coercion, PYTHONIOENCODING) and cp1252 (redirected output on "
    "Windows); 'prints nothing on stdout' is judged on the bytes that reached the stream. Failing to print a result that the encoding "
    "cannot express is a legitimate exit 1; printing half of it first is not",
    "a lone surrogate in the extracted text (HTML / e-mail parts declared utf-7 or unicode_escape return one on the unchanged tree) is "
    "C04's concern; C01 only requires that the CLI then either prints a whole result or nothing",
    "blocked = the scheduler's per-thread accounting (/proc/thread-self/schedstat) shows the calling thread neither running nor "
    "runnable for more than half of >= 10 s: independent of machine load (a starved thread is runnable); the library starts no "
    "threads and never sleeps. Kernels without schedstat: 60 s wall with < 5 % CPU. After such a verdict the worker process is "
    "replaced, so that what the blocked call waited for cannot make later, innocent cases block",
    "whether an accepted mutant's content is right is not judged (C02..C14); exit 1 for an intact file is not a C01 failure either",
    "termination: budget of 20 s CPU time of the worker per call (wall time would make the verdict depend on the load of the machine; a "
    "call that blocks without computing is cut after 60 s wall; a call that cannot be interrupted is killed after 90 s without a "
    "progress note) on inputs <= 2.5 MB whose normal cost is <= 3 s; once a case has run the full budget, further cases found looping "
    "in the same function (every stack sample, >= 1 s CPU; normal cost of those inputs: milliseconds) are attributed to it without "
    "running 20 s each; the simplest case of every hang shape is re-run twice at the full budget; memory blow-ups that end "
    "in an ExtractionError are attributed to C12",
    "seeds are rendered with a fixed token alphabet; VERIF_SEED permutes the work order only (byte offsets must not move with the seed)",
    "e-mail attachment seam (eml): attachments are named att.<ext> and declared with their registered media type; formats without a "
    "registered media type travel as application/pdf.  The routing family (att-eml / att-mbox) varies name and declared type "
    "independently; an attachment the library skips (no result) is a legitimate outcome, only the exception type and termination are judged",
    "seed renderings: a respelled ZIP package is a valid OPC package only as far as the reader treats part names case-insensitively; "
    "for C01 it is simply another byte string (result or ExtractionError are both acceptable)",
]
