"""C14 - images are returned bit-exact, numbered, on the right unit; unit views and document views agree.

Space I (input shapes). A case is plain JSON
    {"units": [[img, ...], ...], "ref": reference shape, "var": "text" | "bare" | "tbl"}     img = [format, "WxH", id] or
                                                                                            [format, "WxH", id, file layout]
`units` are the 1..2 units (page / slide / sheet / chapter) of the document and the images anchored in each, in
document order; two anchors with the same id are the SAME image (same kind, same bytes): an image used by several
anchors.  Different ids have different payload bytes (the id is part of the payload).  `var`: every unit also
holds a paragraph ("text", default) / nothing but the images ("bare") / a paragraph and a 1x2 table ("tbl").
`ref` is the reference shape of the container format:
    docx/pptx/xlsx  relative | parent | absolute | shared | dup_rid_parts | missing | external    (verif.gen.ooxml image_ref)
    odt/odp/ods/odg plain | dot | missing | external           (a repeated id is one Pictures/ part referenced twice)
                    ods also "cell": frames inside cell A1 instead of the sheet's table:shapes
    epub            relative | dot | parent | missing | external   (img/@src forms; a repeated id is one manifest item)
    pdf             own | shared                               (one XObject per anchor / per image key; JPEG only)
                    arr1 | flate | a85 | ahx | rl | <f>+<g>     (one XObject per anchor whose /Filter is an ARRAY: [/DCTDecode] alone, or
                                                                the JPEG file additionally deflated / ASCII-85 / ASCII-hex / run-length
                                                                wrapped, the filters listed in decoding order in front of /DCTDecode;
                                                                <f>+<g> = two wrappers, e.g. a85+flate = [/ASCII85Decode /FlateDecode
                                                                /DCTDecode]; verif.gen.pdfw image_filters)
    rtf             hex | hex64 | shppict                      (\\pict hex on one line / wrapped every 64 bytes / in \\*\\shppict)
    ppt/xls         blip                                       (OfficeArt BLIP; PNG, JPEG, BMP-as-DIB)
`linked` (odt/odp/ods/odg only; goes with a `ref` of LINK_REFS) - links that LEAVE the package next to embedded pictures:
    {"ref": "link_parent" | "link_root" | "link_parent2" | "link_dotparent" | "link_file" | "link_http", "linked": "01"}
    `linked` has one character per anchor in document order; "1" = this draw:image does not reference the package member
    Pictures/k<id>.<ext> but an IRI that resolves OUTSIDE the package and merely ends in that member name (ODF 1.2 part 3, 3.7: a
    relative path starting with "../", an absolute path "/..", or an absolute IRI): ../Pictures/k0.png (what LibreOffice writes for a
    linked picture) | /Pictures/k0.png | ../../Pictures/k0.png | ./../Pictures/k0.png | file:///Pictures/k0.png |
    http://verif.invalid/Pictures/k0.png.  "0" = an ordinary embedded picture (plain href).  The member Pictures/k<id>.<ext> of
    EVERY id is stored in the package and listed in the manifest, whether an embedded anchor uses it or not, so every link has a
    like-named member.  Ground truth: the embedded anchors only; a linked anchor must not produce an image (same as "external").
    Enumerated: every layout of 1..2 anchors (kinds: png 1x1, jpeg 640x480; thorough: + gif 3x2 and 1..3 anchors), every identity
    pattern, every split over 1..2 units, every non-empty set of linked anchors, per link form (quick: link_parent, link_root,
    link_dotparent; thorough: all six).
`gone` (docx/pptx/xlsx/odt/odp/ods/odg/epub; goes with the default reference shape of the container) - pictures whose file is
not in the package NEXT TO pictures that are:  {"ref": "relative" | "plain", "gone": "010"}
    `gone` has one character per anchor in document order; "1" = this anchor references (relationship / xlink:href / manifest item
    + img/@src, spelled exactly like an intact reference) an image part of its own that is NOT stored in the container - a dangling
    reference, what "missing" is for the whole document; "0" = an ordinary embedded picture.  Ground truth: the embedded anchors
    only, in document order, numbered 1..n without gaps, on their units; a dangling anchor produces nothing and consumes nothing.
    Enumerated: every layout of 2..K anchors (every identity pattern, every split over 1..2 units) and every set of dangling anchors
    that leaves at least one embedded and one dangling anchor; quick: K = 2 over png 1x1 / jpeg 640x480 plus K = 3 over png 1x1;
    thorough: K = 3 over png 1x1 / jpeg 640x480 / gif 3x2.
`env` (docx/pptx/xlsx only, optional; absent = the package exactly as the reference writer emits it) is the relationship
neighbourhood of the pictures, see verif/props/c14_pkg.py:
    {"neigh": 1}                  the parts that reference pictures also carry what such parts usually carry: xlsx sheets a cell
                                  comment (vmlDrawing + comments relationships, legacyDrawing) and an external cell hyperlink, docx
                                  a theme part, pptx slides speaker notes and review comments; every picture an external hlinkClick
                                  whose URL looks like an image part name
    {"rels": "nfirst" | "rev"}    order of the Relationship elements in every .rels part: non-picture relationships first
                                  (pictures keep their order) / whole list reversed
    {"ids": "swap"}               relationship ids are opaque: the k-th and the (n+1-k)-th id of every .rels part change places
All 9 combinations other than the writer's own are enumerated over every layout of 0..K anchors of ENV_KINDS (quick: png 1x1,
jpeg 640x480; thorough: + gif 3x2), every identity pattern and split, for the reference shapes relative / shared /
dup_rid_parts (thorough: + parent, absolute; + the "bare" variant for <= 1 anchor).  None of it changes document order, the
picture bytes or the anchoring, so the oracle below applies unchanged.
`file layout` (4th element of an img, absent = the minimal file) is how the image FILE itself is written, see c14_images.LAYOUTS:
    jpeg  prog (SOF2, two scans) | sof1 | fill (X'FF' fill bytes in front of markers) | exif (APP1 with a 160x120 JPEG thumbnail that has
          its own frame header) | meta64k / meta300k / meta1m (Exif + multi-segment ICC profile: the frame header lies beyond 64 KiB /
          256 KiB / 1 MiB of metadata, every segment < 64 KiB)
    png   meta64k (pHYs + 70000-byte iTXt/XMP between IHDR and IDAT) | rgba          gif   87a (no extension blocks)
    bmp   topdown (negative biHeight; declared height = |biHeight|) | v5 (BITMAPV5HEADER)
The declared pixel size, the pixels and the content type are those of the plain file; only where / how the file says so differs, so
the oracle applies unchanged (size is judged against an independent header reader, c14_images.sniff).  Enumerated per container
format and image format it can hold: for every layout L (quick: jpeg prog, fill, exif, meta64k; png meta64k; gif 87a; bmp topdown,
v5; thorough: all), every layout of 1..2 anchors over {640x480 image in layout L, plain 1x1 companion} that uses L (every identity
pattern), in one unit with the default reference shape (thorough: every split over 1..2 units, and in one unit for every other
image-producing reference shape).
Enumerated: every image sequence of length 0..K over formats x dimensions, every identity pattern (set partition of
the anchors, same id => same kind), every split over 1..2 units, per (document format, reference shape); the
"bare" / "tbl" variants for sequences of length <= 2 with the default reference shape.  Fixtures: every file of the
library's test resources, inclusion clauses only.

Oracle (ground truth E = anchors in document order with the bytes written by the harness):
    raises        extraction raised / returned no result object
    missing       an embedded image is not returned (or fewer times than required, see assumptions)
    bytes         an image is returned whose bytes differ from the embedded file (foreign byte strings came back while embedded files did not)
    extra         returned bytes that are not an embedded image of the document, or more often than it is placed
    order         returned byte sequence is not in document order (not a subsequence of E)
    ctype         get_content_type() (and a non-empty metadata content_type) differs from the type of the file
    size          metadata width/height differ from the dimensions declared in the file header
    number        image_number of iterate_images() is not 1..n
    unit          page/slide formats: metadata unit_number is not a unit that anchors these bytes (sheet formats: None is
                  accepted, documented); unit view: get_images() of the unit numbered u holds an embedded image that is not anchored on u
    reach         an image / table reachable from a unit is not reachable from iterate_images() / iterate_tables()
    views         page/slide/sheet formats: concatenated unit views != document iterators as sequences
"""
from __future__ import annotations

import io
import itertools
import os
import random

from verif.gen.tokens import Tokens
from verif.mc import pool as P
from verif.props import c14_images as IMG
from verif.props import c14_pkg as PKG

LEVEL = "exploration"

DIMS_ALL = ["1x1", "3x2", "640x480"]
DIMS_QUICK = ["1x1", "640x480"]
# PDF: /Filter arrays of the image XObject = the wrappers that are undone before /DCTDecode, in decoding order (pdfw image_filters)
_PDF_WRAP = {"flate": "FlateDecode", "a85": "ASCII85Decode", "ahx": "ASCIIHexDecode", "rl": "RunLengthDecode"}
PDF_CHAINS = {"arr1": []}
PDF_CHAINS.update({a: [_PDF_WRAP[a]] for a in _PDF_WRAP})
PDF_CHAINS.update({a + "+" + b: [_PDF_WRAP[a], _PDF_WRAP[b]] for a in _PDF_WRAP for b in _PDF_WRAP})
PDF_CHAINS_QUICK = ["arr1", "flate", "a85", "ahx", "rl", "a85+flate"]
PDF_CHAINS_LAY = ["arr1", "flate"]          # chains that are also combined with every file layout of the JPEG (thorough; the ASCII wrappers
                                            # of a 1 MiB file cost seconds per case in pypdf's pure-Python decoders and add nothing)
# ODF: IRIs that leave the package but end in the name of a package member (prefix in front of Pictures/k<id>.<ext>)
LINK_REFS = {"link_parent": "../", "link_root": "/", "link_parent2": "../../", "link_dotparent": "./../", "link_file": "file:///",
             "link_http": "http://verif.invalid/"}
LINK_REFS_QUICK = ["link_parent", "link_root", "link_dotparent"]
LINK_FORMATS = ("odt", "odp", "ods", "odg")
LINK_KINDS_QUICK = [("png", "1x1"), ("jpeg", "640x480")]
LINK_KINDS_ALL = [("png", "1x1"), ("jpeg", "640x480"), ("gif", "3x2")]
# dangling references next to intact ones: containers that can reference a part that is not stored (those with a "missing" shape)
GONE_FORMATS = ("docx", "pptx", "xlsx", "odt", "odp", "ods", "odg", "epub")
GONE_KINDS_QUICK = [("png", "1x1"), ("jpeg", "640x480")]
GONE_KINDS_ALL = [("png", "1x1"), ("jpeg", "640x480"), ("gif", "3x2")]
NOREL_FORMATS = ("pptx", "xlsx")                        # one relationship part per unit (slide / sheet drawing), ids numbered per part:
#   {"gone": mask, "how": "norel"} - the dangling anchor's r:embed id has NO relationship in the relationship part of its own slide /
#   drawing (and its part is not stored), while the relationship parts of the other units define ids of the same spelling (rId1 ...).
#   A relationship id means something only inside its own source part: the anchor is dangling, whatever other parts define.
GONE_UID = 16                                           # payload id offset of the part a dangling anchor names (never stored)
IMG_FORMATS = {"docx": ["png", "jpeg", "gif", "bmp"], "pptx": ["png", "jpeg", "gif", "bmp"], "xlsx": ["png", "jpeg", "gif", "bmp"],
               "odt": ["png", "jpeg", "gif", "bmp"], "odp": ["png", "jpeg", "gif", "bmp"], "ods": ["png", "jpeg", "gif", "bmp"],
               "odg": ["png", "jpeg", "gif", "bmp"], "epub": ["png", "jpeg", "gif", "bmp"], "pdf": ["jpeg"],
               "rtf": ["png", "jpeg"], "ppt": ["png", "jpeg", "bmp"], "xls": ["png", "jpeg", "bmp"]}
REFS = {"docx": ["relative", "parent", "absolute", "shared", "dup_rid_parts", "missing", "external"],
        "pptx": ["relative", "parent", "absolute", "shared", "dup_rid_parts", "missing", "external"],
        "xlsx": ["relative", "parent", "absolute", "shared", "dup_rid_parts", "missing", "external"],
        "odt": ["plain", "dot", "missing", "external"], "odp": ["plain", "dot", "missing", "external"],
        "ods": ["plain", "dot", "cell", "missing", "external"], "odg": ["plain", "dot", "missing", "external"],
        "epub": ["relative", "dot", "parent", "missing", "external"],
        "pdf": ["own", "shared"] + list(PDF_CHAINS), "rtf": ["hex", "hex64", "shppict"], "ppt": ["blip"], "xls": ["blip"]}
DOC_FORMATS = list(REFS)
NO_IMAGE_REFS = {"missing", "external"}                 # references that must simply not produce an image
ONLY_REPEATS = {"shared", "dup_rid_parts"}              # identical to "relative" unless an id repeats
PAGE_FORMATS = {"pdf", "pptx", "ppt", "odp"}            # unit_number must name the page / slide
SHEET_FORMATS = {"xlsx", "ods", "xls"}                  # unit_number None is documented; unit views are judged
FLOW_FORMATS = {"docx", "odt", "rtf", "epub", "odg"}    # no page / slide / sheet units in the library: attribution not judged
ENV_FORMATS = ("docx", "pptx", "xlsx")                  # OPC packages: relationship neighbourhoods (c14_pkg) are explored
ENV_KINDS_QUICK = [("png", "1x1"), ("jpeg", "640x480")]
ENV_KINDS_ALL = [("png", "1x1"), ("jpeg", "640x480"), ("gif", "3x2")]
ENV_REFS_QUICK = ["relative", "shared", "dup_rid_parts"]
ENV_REFS_ALL = ["relative", "parent", "absolute", "shared", "dup_rid_parts"]
# file layouts of the embedded image itself (c14_images.LAYOUTS): what precedes / surrounds / encodes the declaration of the pixel size
LAY_QUICK = {"jpeg": ["prog", "fill", "exif", "meta64k"], "png": ["meta64k"], "gif": ["87a"], "bmp": ["topdown", "v5"]}
LAY_ALL = {"jpeg": ["prog", "sof1", "fill", "exif", "meta64k", "meta300k", "meta1m"], "png": ["meta64k", "rgba"], "gif": ["87a"],
           "bmp": ["topdown", "v5"]}
LAY_DIM = "640x480"                                     # both sides > 255 and different: byte order and field order are visible
FIXTURE_DIR = "/repo/sharepoint2text/tests/resources"
FIXTURE_MAX_BYTES = 6_000_000


# ------------------------------------------------------------------------------------------------ enumeration

def _rgs(k):
    """restricted growth strings of length k = set partitions of k anchors (identity patterns)"""
    def go(prefix, mx):
        if len(prefix) == k:
            yield list(prefix)
            return
        for v in range(mx + 2):
            yield from go(prefix + [v], max(mx, v))
    if k == 0:
        yield []
    else:
        yield from go([0], 0)


def layouts(kinds, kmax, max_units=2):
    """all (units) with 0..kmax anchors over `kinds` = [(fmt, dim)], every identity pattern, every split over 1..2 units"""
    for k in range(kmax + 1):
        for pat in _rgs(k):
            nid = (max(pat) + 1) if pat else 0
            for assign in itertools.product(kinds, repeat=nid):
                # kind = (format, dimension) or (format, dimension, file layout); the layout is spelled only when it is not the plain one
                seq = [[assign[i][0], assign[i][1], i] + [x for x in assign[i][2:3] if x] for i in pat]
                yield [seq]
                if max_units >= 2:
                    for s in range(k + 1):
                        yield [seq[:s], seq[s:]]


def has_repeat(units):
    ids = [im[2] for u in units for im in u]
    return len(ids) != len(set(ids))


def cases_for(tier, fmt):
    quick = tier == "quick"
    dims = DIMS_QUICK if quick else DIMS_ALL
    kmax = 2 if quick else 3
    kinds = [(f, d) for f in IMG_FORMATS[fmt] for d in dims]
    for ref in REFS[fmt]:
        if quick and ref in PDF_CHAINS and ref not in PDF_CHAINS_QUICK:
            continue
        km = min(kmax, 2) if ref in NO_IMAGE_REFS else kmax
        for units in layouts(kinds, km):
            if ref in ONLY_REPEATS and not has_repeat(units):
                continue
            yield {"units": units, "ref": ref, "var": "text"}
    ref0 = REFS[fmt][0]
    for var in ("bare", "tbl"):
        for units in layouts(kinds, 2 if not quick else 1):
            yield {"units": units, "ref": ref0, "var": var}
    # relationship neighbourhoods of OPC packages (c14_pkg): what else the .rels parts hold, in which order, under which ids
    if fmt in ENV_FORMATS:
        ekinds = ENV_KINDS_QUICK if quick else ENV_KINDS_ALL
        for ref in (ENV_REFS_QUICK if quick else ENV_REFS_ALL):
            for units in layouts(ekinds, kmax):
                if ref in ONLY_REPEATS and not has_repeat(units):
                    continue
                for env in PKG.envs():
                    yield {"units": units, "ref": ref, "var": "text", "env": env}
        if not quick:
            for units in layouts(ekinds, 1):
                for env in PKG.envs():
                    yield {"units": units, "ref": ref0, "var": "bare", "env": env}
    # links that leave the package, next to embedded pictures and like-named members (ODF)
    if fmt in LINK_FORMATS:
        for ref in (LINK_REFS_QUICK if quick else list(LINK_REFS)):
            for units in layouts(LINK_KINDS_QUICK if quick else LINK_KINDS_ALL, kmax):
                n = sum(len(u) for u in units)
                for mask in itertools.product("01", repeat=n):
                    if "1" in mask:
                        yield {"units": units, "ref": ref, "var": "text", "linked": "".join(mask)}
    # dangling references next to intact ones: every set of anchors that leaves >= 1 embedded and >= 1 dangling anchor
    if fmt in GONE_FORMATS:
        fams = [(GONE_KINDS_QUICK, 2), (GONE_KINDS_QUICK[:1], 3)] if quick else [(GONE_KINDS_ALL, 3)]
        done = set()
        for gkinds, gk in fams:
            for units in layouts(gkinds, gk):
                n = sum(len(u) for u in units)
                if n < 2 or repr(units) in done:
                    continue
                done.add(repr(units))
                for mask in itertools.product("01", repeat=n):
                    if "1" in mask and "0" in mask:
                        yield {"units": units, "ref": ref0, "var": "text", "gone": "".join(mask)}
                        if fmt in NOREL_FORMATS:
                            # ... and the same anchors dangling one step earlier: the relationship itself is missing
                            yield {"units": units, "ref": ref0, "var": "text", "gone": "".join(mask), "how": "norel"}
    # file layouts of the image itself: every layout of 1..2 anchors over {the image in layout L, a plain 1x1 companion} that uses L
    companion = (IMG_FORMATS[fmt][0], "1x1")
    lays = LAY_QUICK if quick else LAY_ALL
    for f in IMG_FORMATS[fmt]:
        for lay in lays[f]:
            for ref in ([ref0] if quick else [r for r in REFS[fmt] if r not in NO_IMAGE_REFS and (r not in PDF_CHAINS or r in PDF_CHAINS_LAY)]):
                for units in layouts([(f, LAY_DIM, lay), companion], 2, max_units=(2 if (ref == ref0 and not quick) else 1)):
                    if not any(lay_of(im) == lay for u in units for im in u):
                        continue
                    if ref in ONLY_REPEATS and not has_repeat(units):
                        continue
                    yield {"units": units, "ref": ref, "var": "text"}


# ------------------------------------------------------------------------------------------------ rendering

def lay_of(im):
    return im[3] if len(im) > 3 else ""


def image_bytes(im):
    w, h = (int(x) for x in im[1].split("x"))
    return IMG.make(im[0], w, h, im[2] + 1, lay_of(im))


def embedded_units(case):
    """the units with the anchors that EMBED their picture (linked anchors removed)"""
    mask = case.get("linked") or case.get("gone")
    if not mask:
        return case["units"]
    it = iter(mask)
    return [[im for im in u if next(it) == "0"] for u in case["units"]]


def _valid_case(fmt, case):
    if fmt not in REFS or case.get("var", "text") not in ("text", "bare", "tbl"):
        return False
    if "linked" in case:
        mask = case["linked"]
        if fmt not in LINK_FORMATS or case.get("ref") not in LINK_REFS or not isinstance(mask, str) or "1" not in mask or set(mask) - set("01"):
            return False
        if not isinstance(case.get("units"), list) or len(mask) != sum(len(u) for u in case["units"]) or "env" in case:
            return False
    elif case.get("ref") not in REFS[fmt]:
        return False
    if "gone" in case:
        mask = case["gone"]
        if fmt not in GONE_FORMATS or case.get("ref") != REFS[fmt][0] or not isinstance(mask, str) or "1" not in mask or set(mask) - set("01"):
            return False
        if not isinstance(case.get("units"), list) or len(mask) != sum(len(u) for u in case["units"]) or "env" in case or "linked" in case:
            return False
        if case.get("var", "text") != "text":
            return False
    if "env" in case:
        # only the canonical spelling (non-default components) of a neighbourhood is a case
        try:
            if fmt not in ENV_FORMATS or not case["env"] or PKG.compact(case["env"]) != case["env"]:
                return False
        except (ValueError, TypeError, AttributeError):
            return False
    units = case.get("units")
    if not isinstance(units, list) or not 1 <= len(units) <= 2:
        return False
    kind = {}
    for u in units:
        for im in u:
            if len(im) not in (3, 4) or im[0] not in IMG_FORMATS[fmt] or im[1] not in DIMS_ALL:
                return False
            if len(im) == 4 and (not im[3] or im[3] not in IMG.LAYOUTS[im[0]]):      # the plain layout is spelled by omission
                return False
            if kind.setdefault(im[2], (im[0], im[1], lay_of(im))) != (im[0], im[1], lay_of(im)):
                return False
    return True


def render(fmt, case, tk):
    """-> bytes of the document. Raises NotImplementedError when the container cannot express the case."""
    if case.get("gone"):
        return _render_gone(fmt, case, tk)
    units, ref, var = case["units"], case["ref"], case.get("var", "text")
    keyof = lambda im: "k%d" % im[2]   # noqa
    imgs = {}
    for u in units:
        for im in u:
            imgs[keyof(im)] = (image_bytes(im), im[0])

    def text_blocks(heading=False):
        if var == "bare":
            return []
        b = [["h", 1, [["t", tk.new("H")]]]] if heading else [["p", [["t", tk.new("B")]]]]
        return b

    def tbl_blocks():
        if var != "tbl":
            return []
        return [["tbl", [[[["p", [["t", tk.new("C")]]]], [["p", [["t", tk.new("C")]]]]]]]]

    env = case.get("env")
    if fmt in ("docx", "pptx"):
        from verif.gen import ooxml

        def extras():
            # neighbours the writer can express itself: speaker notes and review comments of a slide
            if fmt == "pptx" and env and env.get("neigh"):
                return {"notes": [tk.new("Z")], "comments": [tk.new("Z")]}
            return {}
        doc = ["doc", {}, [["unit", text_blocks() + [["img", keyof(im)] for im in u] + tbl_blocks(), extras()] for u in units]]
        data = getattr(ooxml, fmt)(doc, imgs, {"image_ref": ref})
        return PKG.apply(fmt, data, env) if env else data
    if fmt == "xlsx":
        from verif.gen import ooxml
        if var == "tbl":
            raise NotImplementedError("a sheet is its own table")
        grid = [] if var == "bare" else None
        doc = ["doc", {}, [["sheet", tk.new("N"), (grid if grid is not None else [[["s", tk.new("C")], ["i", 5]], [["s", tk.new("C")], ["i", 7]]]),
                            {"images": [keyof(im) for im in u]}] for u in units]]
        data = ooxml.xlsx(doc, imgs, {"image_ref": ref})
        return PKG.apply(fmt, data, env) if env else data
    if fmt in ("odt", "odp", "odg", "ods"):
        from verif.gen import odf
        oi = {}
        for k, (data, ext) in imgs.items():
            if ref == "external":
                oi[k] = ("http://verif.invalid/%s.%s" % (k, ext), ext)
            else:
                oi[k] = (data, ext, {"href": "plain" if (ref == "cell" or ref in LINK_REFS) else ref})
        if ref in LINK_REFS:
            return _render_odf_links(fmt, case, tk, imgs, oi, text_blocks, tbl_blocks)
        if fmt == "ods":
            if var == "tbl":
                raise NotImplementedError("a sheet is its own table")
            doc = ["doc", {}, [["sheet", tk.new("N"), ([] if var == "bare" else [[["s", tk.new("C")], ["i", 5]], [["s", tk.new("C")], ["i", 7]]])]
                               for u in units]]
            if ref == "cell":
                if var == "bare":
                    raise NotImplementedError("no cell to anchor the image in")
                at = [[si, 0, 0, keyof(im)] for si, u in enumerate(units) for im in u]      # draw:frame inside cell A1
            else:
                at = [[si, keyof(im)] for si, u in enumerate(units) for im in u]            # table:shapes of the sheet
            return odf.ods(doc, oi, {"images_at": at})
        doc = ["doc", {}, [["unit", text_blocks(heading=(fmt == "odp")) + [["img", keyof(im)] for im in u] + tbl_blocks(), {}] for u in units]]
        return getattr(odf, fmt)(doc, oi, None)
    if fmt == "epub":
        from verif.gen import htmlfam
        items, seen, chapters = [], set(), []
        for u in units:
            body = "" if var == "bare" else "<p>%s</p>" % tk.new("B")
            for im in u:
                k = keyof(im)
                href = "img/%s.%s" % (k, im[0])
                src = {"relative": href, "dot": "./" + href, "parent": "../OEBPS/" + href, "missing": href,
                       "external": "http://verif.invalid/" + href}[ref]
                body += '<p><img src="%s" alt=""/></p>' % src
                if k not in seen and ref != "external":
                    seen.add(k)
                    items.append((k, href, IMG.CTYPE[im[0]], imgs[k][0]))
            if var == "tbl":
                body += "<table><tr><td>%s</td><td>%s</td></tr></table>" % (tk.new("C"), tk.new("C"))
            chapters.append(htmlfam.xhtml_page(body, "t"))
        data = htmlfam.epub(chapters, {"title": "t"}, extra_items=items)
        if ref == "missing" and items:
            # the manifest lists the items, the files are not in the container
            import zipfile
            src = zipfile.ZipFile(io.BytesIO(data))
            out = io.BytesIO()
            drop = {"OEBPS/" + it[1] for it in items}
            with zipfile.ZipFile(out, "w") as z:
                for zi in src.infolist():
                    if zi.filename in drop:
                        continue
                    z.writestr(zi, src.read(zi), compress_type=zi.compress_type)
            data = out.getvalue()
        return data
    if fmt == "pdf":
        from verif.gen import pdfw
        if var == "tbl":
            raise NotImplementedError("no tables in the PDF writer")
        doc = ["doc", {}, [["unit", text_blocks() + [["img", keyof(im)] for im in u], {}] for u in units]]
        if ref in PDF_CHAINS:
            return pdfw.pdf(doc, imgs, {"image_filters": list(PDF_CHAINS[ref])})
        return pdfw.pdf(doc, imgs, {"shared_images": ref == "shared"})
    if fmt == "rtf":
        from verif.gen import rtf
        doc = ["doc", {}, [["unit", text_blocks() + [["img", keyof(im)] for im in u] + tbl_blocks(), {}] for u in units]]
        opts = {"hex": {}, "hex64": {"hex_wrap": 64, "eol": "\r\n"}, "shppict": {"pict_wrap": "shppict"}}[ref]
        return rtf.rtf(doc, imgs, opts)
    if fmt == "ppt":
        from verif.gen import pptbin
        if var == "tbl":
            raise NotImplementedError("no tables in the PPT writer")
        doc = ["doc", {}, [["unit", text_blocks() + [["img", keyof(im)] for im in u], {}] for u in units]]
        return pptbin.ppt(doc, {k: v[0] for k, v in imgs.items()}, None)
    if fmt == "xls":
        from verif.gen import biff8
        if var == "tbl":
            raise NotImplementedError("a sheet is its own table")
        doc = ["doc", {}, [["sheet", tk.new("N"), ([] if var == "bare" else [[["s", tk.new("C")], ["i", 5]], [["s", tk.new("C")], ["i", 7]]])]
                           for u in units]]
        pics = [[si, keyof(im)] for si, u in enumerate(units) for im in u]
        return biff8.xls(doc, {k: v[0] for k, v in imgs.items()}, {"pictures": pics})
    raise ValueError(fmt)


def _drop_members(data, payloads, norel=False):
    """the zip container without the members whose content is one of `payloads`; every payload must have been stored.
    norel: the Relationship elements that target a removed member are removed from every relationship part as well"""
    import re
    import zipfile
    src = zipfile.ZipFile(io.BytesIO(data))
    out = io.BytesIO()
    hit = set()
    gone_names = {zi.filename.rsplit("/", 1)[-1] for zi in src.infolist() if src.read(zi) in payloads}
    cut = 0
    with zipfile.ZipFile(out, "w") as z:
        for zi in src.infolist():
            body = src.read(zi)
            if body in payloads:
                hit.add(body)
                continue
            if norel and zi.filename.endswith(".rels"):
                for nm in gone_names:
                    body, k = re.subn(rb'<Relationship\b[^>]*Target="[^"]*/%s"[^>]*/>' % re.escape(nm).encode(), b"", body)
                    cut += k
            z.writestr(zi, body, compress_type=zi.compress_type)
    if hit != set(payloads):
        raise RuntimeError("reference writer did not store %d of the parts that were to be removed" % (len(set(payloads)) - len(hit)))
    if norel and cut < len(gone_names):
        raise RuntimeError("no relationship found for %d of the removed parts" % (len(gone_names) - cut))
    return out.getvalue()


def _render_gone(fmt, case, tk):
    """the container in its default reference shape in which the anchors marked in case["gone"] reference a part of their own
    (k<id>G: same kind, different payload) that is not stored; everything else is what the reference writer emits"""
    units = case["units"]
    imgs, ghosts = {}, {}
    it = iter(case["gone"])
    keys = []                       # per unit: the image key of every anchor (k<id> embedded, k<id>G dangling)
    for u in units:
        row = []
        for im in u:
            k = "k%d" % im[2]
            if next(it) == "1":
                k += "G"
                w, h = (int(x) for x in im[1].split("x"))
                ghosts[k] = IMG.make(im[0], w, h, im[2] + 1 + GONE_UID, lay_of(im))
                imgs[k] = (ghosts[k], im[0])
            else:
                imgs[k] = (image_bytes(im), im[0])
            row.append(k)
        keys.append(row)
    real = {v[0] for k, v in imgs.items() if k not in ghosts}
    if real & set(ghosts.values()):
        raise RuntimeError("payload of a dangling part equals an embedded file")
    para = lambda: [["p", [["t", tk.new("B")]]]]   # noqa
    if fmt in ("docx", "pptx"):
        from verif.gen import ooxml
        doc = ["doc", {}, [["unit", para() + [["img", k] for k in row], {}] for row in keys]]
        return _drop_members(getattr(ooxml, fmt)(doc, imgs, {"image_ref": "relative"}), set(ghosts.values()), case.get("how") == "norel")
    if fmt == "xlsx":
        from verif.gen import ooxml
        doc = ["doc", {}, [["sheet", tk.new("N"), [[["s", tk.new("C")], ["i", 5]], [["s", tk.new("C")], ["i", 7]]], {"images": list(row)}]
                           for row in keys]]
        return _drop_members(ooxml.xlsx(doc, imgs, {"image_ref": "relative"}), set(ghosts.values()), case.get("how") == "norel")
    if fmt in ("odt", "odp", "odg", "ods"):
        import zipfile
        from verif.gen import odf
        oi = {k: (d, ext, {"href": "missing" if k in ghosts else "plain"}) for k, (d, ext) in imgs.items()}
        if fmt == "ods":
            doc = ["doc", {}, [["sheet", tk.new("N"), [[["s", tk.new("C")], ["i", 5]], [["s", tk.new("C")], ["i", 7]]]] for _ in keys]]
            data = odf.ods(doc, oi, {"images_at": [[si, k] for si, row in enumerate(keys) for k in row]})
        else:
            blocks = (lambda: [["h", 1, [["t", tk.new("H")]]]]) if fmt == "odp" else para
            doc = ["doc", {}, [["unit", blocks() + [["img", k] for k in row], {}] for row in keys]]
            data = getattr(odf, fmt)(doc, oi, None)
        z = zipfile.ZipFile(io.BytesIO(data))
        stored = {z.read(n) for n in z.namelist()}
        if (stored & set(ghosts.values())) or not real <= stored:
            raise RuntimeError("reference writer stored a dangling part / did not store an embedded one")
        return data
    if fmt == "epub":
        from verif.gen import htmlfam
        items, seen, chapters = [], set(), []
        for row in keys:
            body = "<p>%s</p>" % tk.new("B")
            for k in row:
                href = "img/%s.%s" % (k, imgs[k][1])
                body += '<p><img src="%s" alt=""/></p>' % href
                if k not in seen:
                    seen.add(k)
                    items.append((k, href, IMG.CTYPE[imgs[k][1]], imgs[k][0]))
            chapters.append(htmlfam.xhtml_page(body, "t"))
        return _drop_members(htmlfam.epub(chapters, {"title": "t"}, extra_items=items), set(ghosts.values()))
    raise NotImplementedError("no dangling references in %s" % fmt)


def _render_odf_links(fmt, case, tk, imgs, oi, text_blocks, tbl_blocks):
    """ODF package in which the anchors marked in case["linked"] reference <prefix>Pictures/k<id>.<ext> (an IRI outside the package)
    while the member Pictures/k<id>.<ext> of every id is stored: referenced by the embedded anchors, or as an unreferenced member"""
    import zipfile
    from verif.gen import odf
    units, var, prefix = case["units"], case.get("var", "text"), LINK_REFS[case["ref"]]
    keyof = lambda im: "k%d" % im[2]   # noqa
    member = {k: "Pictures/%s.%s" % (k, ext) for k, (_, ext) in imgs.items()}
    it = iter(case["linked"])
    keys = []                       # per unit: the image key of every anchor (k<id> embedded, k<id>L linked)
    embedded = set()
    for u in units:
        row = []
        for im in u:
            k = keyof(im)
            if next(it) == "1":
                oi[k + "L"] = (prefix + member[k], imgs[k][1])
                row.append(k + "L")
            else:
                embedded.add(k)
                row.append(k)
        keys.append(row)
    extra = {member[k]: (imgs[k][0], IMG.CTYPE[imgs[k][1]]) for k in imgs if k not in embedded}
    opts = {"extra_files": extra} if extra else {}
    if fmt == "ods":
        if var != "text":
            raise NotImplementedError("link cases use the text variant")
        doc = ["doc", {}, [["sheet", tk.new("N"), [[["s", tk.new("C")], ["i", 5]], [["s", tk.new("C")], ["i", 7]]]] for u in units]]
        opts["images_at"] = [[si, k] for si, row in enumerate(keys) for k in row]
        data = odf.ods(doc, oi, opts)
    else:
        doc = ["doc", {}, [["unit", text_blocks(heading=(fmt == "odp")) + [["img", k] for k in row] + tbl_blocks(), {}] for row in keys]]
        data = getattr(odf, fmt)(doc, oi, opts or None)
    names = set(zipfile.ZipFile(io.BytesIO(data)).namelist())
    if not set(member.values()) <= names:
        raise RuntimeError("reference writer did not store %s" % sorted(set(member.values()) - names))
    return data


# ------------------------------------------------------------------------------------------------ observation

def _img_view(im):
    try:
        b = im.get_bytes()
        data = b.read() if b is not None else None
    except Exception as e:  # noqa
        data = "raises %s: %s" % (type(e).__name__, e)
    try:
        ct = im.get_content_type()
    except Exception as e:  # noqa
        ct = "raises %s" % type(e).__name__
    try:
        md = dict(im.get_metadata())
    except Exception as e:  # noqa
        md = {"error": "raises %s: %s" % (type(e).__name__, e)}
    return {"data": data, "ctype": ct, "meta": md}


def _tbl_view(t):
    try:
        return repr([[None if c is None else str(c) for c in row] for row in t.get_table()])
    except Exception as e:  # noqa
        return "raises %s: %s" % (type(e).__name__, e)


def observe(results):
    """results: list of extraction result objects -> observation dict"""
    obs = {"doc_images": [], "doc_tables": [], "units": []}
    for r in results:
        obs["doc_images"] += [_img_view(i) for i in r.iterate_images()]
        obs["doc_tables"] += [_tbl_view(t) for t in r.iterate_tables()]
        for u in r.iterate_units():
            try:
                un = u.get_metadata().unit_number
            except Exception:  # noqa
                un = None
            obs["units"].append({"number": un, "images": [_img_view(i) for i in u.get_images()],
                                 "tables": [_tbl_view(t) for t in u.get_tables()]})
    return obs


def _extract(fmt, data):
    import sharepoint2text
    name = "a." + fmt
    return list(sharepoint2text.get_extractor(name)(io.BytesIO(data), name))


def _multiset_sub(small, big):
    """items of `small` not covered by `big` (multiset difference)"""
    rest = list(big)
    missing = []
    for x in small:
        if x in rest:
            rest.remove(x)
        else:
            missing.append(x)
    return missing


def _is_subseq(a, b):
    it = iter(b)
    return all(any(x == y for y in it) for x in a)


def _short(b):
    if isinstance(b, (bytes, bytearray)):
        s = IMG.sniff(bytes(b))
        return "<%d bytes %s>" % (len(b), "%s %dx%d" % s if s else bytes(b[:8]).hex())
    return repr(b)[:80]


def inclusion_fails(obs, unit_kind):
    """reach + views clauses (the only clauses applied to fixtures)."""
    fails = []
    doc_imgs = [(i["data"], i["ctype"]) for i in obs["doc_images"]]
    unit_imgs = [(i["data"], i["ctype"]) for u in obs["units"] for i in u["images"]]
    miss = _multiset_sub(unit_imgs, doc_imgs)
    if miss:
        fails.append(("reach", "%d unit-level image(s) not reachable from iterate_images(): %s; document level has %d, units have %d"
                      % (len(miss), [_short(m[0]) for m in miss[:3]], len(doc_imgs), len(unit_imgs))))
    doc_tbls = [t for t in obs["doc_tables"] if t not in ("[]", "[[]]")]
    unit_tbls = [t for u in obs["units"] for t in u["tables"] if t not in ("[]", "[[]]")]
    misst = _multiset_sub(unit_tbls, doc_tbls)
    if misst:
        fails.append(("reach", "%d unit-level table(s) not reachable from iterate_tables(): %s; document level has %d, units have %d"
                      % (len(misst), [m[:80] for m in misst[:2]], len(doc_tbls), len(unit_tbls))))
    if unit_kind in ("page", "sheet"):
        full_doc = [(i["data"], i["ctype"], i["meta"].get("image_number"), i["meta"].get("unit_number")) for i in obs["doc_images"]]
        full_unit = [(i["data"], i["ctype"], i["meta"].get("image_number"), i["meta"].get("unit_number")) for u in obs["units"] for i in u["images"]]
        if not miss and full_doc != full_unit:
            fails.append(("views", "images: unit views %s != iterate_images() %s"
                          % ([(_short(x[0]), x[1], x[2], x[3]) for x in full_unit[:4]], [(_short(x[0]), x[1], x[2], x[3]) for x in full_doc[:4]])))
        if not misst and doc_tbls != unit_tbls:
            fails.append(("views", "tables: unit views (%d) %s != iterate_tables() (%d) %s"
                          % (len(unit_tbls), [t[:60] for t in unit_tbls[:3]], len(doc_tbls), [t[:60] for t in doc_tbls[:3]])))
    return fails


def judge(fmt, case, obs):
    units, ref = embedded_units(case), case["ref"]         # ground truth: the anchors that embed a picture (links produce nothing)
    fails = []
    kind = "page" if fmt in PAGE_FORMATS else ("sheet" if fmt in SHEET_FORMATS else "flow")
    # ---- ground truth
    E = []            # (unit number 1-based, bytes, image spec) per anchor, document order
    if ref not in NO_IMAGE_REFS:
        for ui, u in enumerate(units, 1):
            for im in u:
                E.append((ui, image_bytes(im), im))
    spec_of = {}
    for _, b, im in E:
        spec_of[b] = im
    alt = {}          # accepted alternative byte strings (BMP stored as DIB in OfficeArt containers)
    if fmt in ("ppt", "xls"):
        for b, im in list(spec_of.items()):
            if im[0] == "bmp":
                alt[b[14:]] = b
    G = obs["doc_images"]
    gbytes = []
    for g in G:
        d = g["data"]
        if isinstance(d, (bytes, bytearray)) and bytes(d) in alt:
            d = alt[bytes(d)]
        gbytes.append(bytes(d) if isinstance(d, (bytes, bytearray)) else d)
    ebytes = [b for _, b, _ in E]
    # placed: how often each byte string is anchored; required: how often it must come back at least
    placed = {}
    for b in ebytes:
        placed[b] = placed.get(b, 0) + 1
    required = {}
    ids_of = {}
    for ui, b, im in E:
        ids_of.setdefault(b, []).append((ui, im[2]))
    shared_part = _shares_parts(fmt, ref)
    for b, lst in ids_of.items():
        if shared_part:
            required[b] = 1           # one embedded file used by several anchors: at least once
        else:
            required[b] = len(lst)
    got = {}
    for b in gbytes:
        if isinstance(b, bytes):
            got[b] = got.get(b, 0) + 1
    extra = [b for b in gbytes if not isinstance(b, bytes) or b not in placed]
    over = [b for b in placed if got.get(b, 0) > placed[b]]
    lacking = [b for b in placed if got.get(b, 0) < required[b]]
    if lacking and extra:
        # embedded files did not come back while foreign byte strings did: the files were returned altered
        x, b = extra[0], lacking[0]
        if isinstance(x, bytes):
            n = min(len(x), len(b))
            first = next((i for i in range(n) if x[i] != b[i]), n)
            how = "%d bytes returned, %d embedded, first difference at offset %d" % (len(x), len(b), first)
        else:
            how = "get_bytes() gave %s" % _short(x)
        fails.append(("bytes", "%d image(s) returned with bytes that differ from the embedded file: %s (%s)" % (len(extra), _short(b), how)))
    else:
        if lacking:
            fails.append(("missing", "%d of %d embedded image(s) not returned (or fewer times than embedded): %s; returned %s"
                          % (len(lacking), len(placed), [(_short(b), "want>=%d got %d" % (required[b], got.get(b, 0))) for b in lacking[:3]],
                             [_short(b) for b in gbytes[:4]])))
        if extra or over:
            fails.append(("extra", "returned image(s) the document does not contain: %s; more often than placed: %s; embedded %s"
                          % ([_short(b) for b in extra[:3]], [(_short(b), got[b], placed[b]) for b in over[:3]], [_short(b) for b in ebytes[:4]])))
    if not lacking and not extra and not over and not _is_subseq(gbytes, ebytes):
        pos = {}
        for i, b in enumerate(ebytes, 1):
            pos.setdefault(b, i)
        fails.append(("order", "returned order %s is not the document order %s (anchors, numbered in document order, came back as %s)"
                      % ([_short(b) for b in gbytes], [_short(b) for b in ebytes], [pos[b] for b in gbytes])))
    # ---- per returned image: content type, size, unit number
    for n, (g, b) in enumerate(zip(G, gbytes)):
        if not isinstance(b, bytes) or b not in spec_of:
            continue
        im = spec_of[b]
        want_ct = IMG.CTYPE[im[0]]
        md = g["meta"]
        if g["ctype"] != want_ct:
            fails.append(("ctype", "image %d (%s): get_content_type() %r, file is %s" % (n + 1, _short(b), g["ctype"], want_ct)))
        elif md.get("content_type") and md.get("content_type") != want_ct:
            fails.append(("ctype", "image %d (%s): metadata content_type %r, file is %s" % (n + 1, _short(b), md.get("content_type"), want_ct)))
        w, h = (int(x) for x in im[1].split("x"))
        if (md.get("width"), md.get("height")) != (w, h):
            fails.append(("size", "image %d (%s): metadata width x height = %r x %r, header declares %d x %d"
                          % (n + 1, _short(b), md.get("width"), md.get("height"), w, h)))
        un = md.get("unit_number")
        ok_units = {ui for ui, _ in ids_of[b]}
        if kind == "page" and un not in ok_units:
            fails.append(("unit", "image %d (%s): unit_number %r, it is anchored on unit(s) %s" % (n + 1, _short(b), un, sorted(ok_units))))
        if kind == "sheet" and un is not None and un not in ok_units:
            fails.append(("unit", "image %d (%s): unit_number %r, it is anchored on sheet(s) %s" % (n + 1, _short(b), un, sorted(ok_units))))
    nums = [g["meta"].get("image_number") for g in G]
    if nums != list(range(1, len(G) + 1)):
        fails.append(("number", "image numbers of iterate_images() are %r, expected 1..%d" % (nums, len(G))))
    # ---- unit views (attribution through unit.get_images())
    if kind in ("page", "sheet"):
        for ou in obs["units"]:
            ui = ou["number"]
            want = [image_bytes(im) for im in units[ui - 1]] if (ref not in NO_IMAGE_REFS and isinstance(ui, int) and 1 <= ui <= len(units)) else []
            have = []
            for i in ou["images"]:
                d = i["data"]
                d = bytes(d) if isinstance(d, (bytes, bytearray)) else d
                have.append(alt.get(d, d) if isinstance(d, bytes) else d)
            # an image handed out by page/slide k must say that it sits on k (also when the same part is drawn on several pages)
            if kind == "page" and isinstance(ui, int):
                stale = [i["meta"].get("unit_number") for i in ou["images"] if i["meta"].get("unit_number") not in (ui,)]
                if stale:
                    fails.append(("unit", "unit number %r: its get_images() returns image(s) whose metadata says unit_number %r" % (ui, stale[:3])))
                    break
            foreign = [b for b in have if b in placed and b not in want]     # bytes embedded elsewhere in the document
            if foreign:
                fails.append(("unit", "unit number %r: get_images() holds %s which is not anchored on that %s (anchored there: %s)"
                              % (ui, [_short(b) for b in foreign[:3]], kind, [_short(b) for b in want[:3]])))
                break
    fails += inclusion_fails(obs, kind)
    # one message per clause is enough
    seen = set()
    out = []
    for c, m in fails:
        if c not in seen:
            seen.add(c)
            out.append((c, m))
    return out


def _shares_parts(fmt, ref):
    """True when a repeated id is ONE embedded file referenced by several anchors (not several equal files)."""
    if fmt in ("docx", "pptx", "xlsx"):
        return ref in ("shared", "dup_rid_parts")
    if fmt == "pdf":
        return ref == "shared"
    if fmt == "rtf":
        return False
    return True       # odf (one Pictures/ part per key), epub (one manifest item), ppt/xls (one BLIP per key)


def outcome_class(fmt, case, obs, fails):
    if obs is None:
        return "raises"
    n = sum(len(u) for u in case["units"])
    if case.get("gone"):
        return "%s/%s+gone%s n=%d gone=%d got=%d units=%d fails=%s" % (fmt, case["ref"], "-" + case["how"] if case.get("how") else "", n, case["gone"].count("1"), len(obs["doc_images"]),
                                                                     len(obs["units"]), ",".join(sorted(c for c, _ in fails)))
    return "%s/%s n=%d got=%d units=%d tbl=%d fails=%s" % (fmt, case["ref"], n, len(obs["doc_images"]), len(obs["units"]), len(obs["doc_tables"]),
                                                         ",".join(sorted(c for c, _ in fails)))


def evaluate(fmt, case, seed=0):
    """-> (fails, outcome class) ; fails None = case not expressible in this container (skipped)"""
    if fmt == "fixture":
        return evaluate_fixture(case)
    tk = Tokens(seed)
    try:
        data = render(fmt, case, tk)
    except NotImplementedError as e:
        return None, "inexpressible: " + str(e)[:60]
    try:
        res = _extract(fmt, data)
        if not res:
            return [("raises", "extractor returned no result")], "raises"
        obs = observe(res)
    except Exception as e:  # noqa
        return [("raises", "%s: %s" % (type(e).__name__, str(e)[:300]))], "raises"
    fails = judge(fmt, case, obs)
    return fails, outcome_class(fmt, case, obs, fails)


# ------------------------------------------------------------------------------------------------ fixtures

def fixture_list():
    import sharepoint2text
    out = []
    for root, _, files in sorted(os.walk(FIXTURE_DIR)):
        for f in sorted(files):
            p = os.path.join(root, f)
            try:
                if os.path.getsize(p) > FIXTURE_MAX_BYTES:
                    continue
                if not sharepoint2text.is_supported_file(p):
                    continue
            except Exception:  # noqa
                continue
            out.append(os.path.relpath(p, FIXTURE_DIR))
    return out


_EXT_KIND = {"pdf": "page", "pptx": "page", "ppt": "page", "odp": "page", "pptm": "page",
             "xlsx": "sheet", "xls": "sheet", "ods": "sheet", "xlsm": "sheet", "xlsb": "sheet"}


def evaluate_fixture(case):
    import sharepoint2text
    from sharepoint2text.parsing.exceptions import ExtractionError
    rel = case["fixture"]
    p = os.path.join(FIXTURE_DIR, rel)
    ext = rel.rsplit(".", 1)[-1].lower()
    try:
        res = list(sharepoint2text.read_file(p))
    except ExtractionError as e:
        return None, "fixture refused: " + type(e).__name__       # encrypted / unsupported fixtures: nothing to compare
    except Exception as e:  # noqa
        return None, "fixture raises: " + type(e).__name__         # not this property's business (C01)
    fails = []
    nimg = ntbl = 0
    for r in res:
        try:
            obs = observe([r])
        except Exception as e:  # noqa
            fails.append(("raises", "%s while iterating images/tables/units: %s" % (type(e).__name__, str(e)[:200])))
            continue
        nimg += len(obs["doc_images"])
        ntbl += len(obs["doc_tables"])
        fails += inclusion_fails(obs, _EXT_KIND.get(ext, "flow"))
    seen, out = set(), []
    for c, m in fails:
        if c not in seen:
            seen.add(c)
            out.append((c, m))
    return out, "fixture/%s img=%s tbl=%s fails=%s" % (ext, min(nimg, 3), min(ntbl, 3), ",".join(sorted(c for c, _ in out)))


# ------------------------------------------------------------------------------------------------ triage hooks

def reexec(fmt, case):
    if fmt != "fixture" and not _valid_case(fmt, case):
        return []
    f, _ = evaluate(fmt, case, int(os.environ.get("VERIF_SEED", "0") or 0))
    return f or []


def _renumber(units):
    m = {}
    out = []
    for u in units:
        nu = []
        for im in u:
            if im[2] not in m:
                m[im[2]] = len(m)
            nu.append([im[0], im[1], m[im[2]]] + list(im[3:]))
        out.append(nu)
    return out


def _shrinks_linked(case, mk="linked"):
    """towards the package without links (the embedded anchors alone, plain hrefs), then fewer units / anchors / links, simpler kinds;
    mk = "gone": the same for dangling references (towards the package in which every picture is stored)"""
    units, mask, ref, var = case["units"], case[mk], case["ref"], case.get("var", "text")
    yield {"units": _renumber(embedded_units(case)), "ref": ("plain" if mk == "linked" else ref), "var": var}
    flat = []                                     # (unit index, image, link bit) per anchor
    it = iter(mask)
    for ui, u in enumerate(units):
        flat += [(ui, list(im), next(it)) for im in u]

    def build(anchors, nunits):
        m = "".join(a[2] for a in anchors)
        if "1" not in m:
            return None
        d = {"units": _renumber([[a[1] for a in anchors if a[0] == ui] for ui in range(nunits)]), "ref": ref, "var": var, mk: m}
        if case.get("how"):
            d["how"] = case["how"]
        return d
    cands = []
    if len(units) == 2:
        for keep in (0, 1):
            cands.append(build([(0, im, bit) for ui, im, bit in flat if ui == keep], 1))
        cands.append(build([(0, im, bit) for _, im, bit in flat], 1))
    for i in range(len(flat)):
        cands.append(build(flat[:i] + flat[i + 1:], len(units)))
    for i, (ui, im, bit) in enumerate(flat):
        if bit == "1":
            cands.append(build(flat[:i] + [(ui, im, "0")] + flat[i + 1:], len(units)))
    # a shared identity becomes two images
    ids = [a[1][2] for a in flat]
    for i, a in enumerate(flat):
        if a[1][2] in ids[:i]:
            cands.append(build(flat[:i] + [(a[0], [a[1][0], a[1][1], max(ids) + 1] + a[1][3:], a[2])] + flat[i + 1:], len(units)))
            break
    # simplest kind per identity (png 1x1)
    for ident in sorted(set(ids)):
        f, d = next((a[1][0], a[1][1]) for a in flat if a[1][2] == ident)
        for nf, nd in ([("png", "1x1")] if (f, d) != ("png", "1x1") else []) + ([(f, "1x1")] if d != "1x1" and f != "png" else []):
            cands.append(build([(a[0], [nf, nd, ident] if a[1][2] == ident else a[1], a[2]) for a in flat], len(units)))
    # the form LibreOffice writes
    if mk == "linked" and ref != "link_parent":
        cands.append(dict(case, ref="link_parent"))
    for c in cands:
        if c is not None and c != case:
            yield c


def shrinks(case):
    if "fixture" in case:
        return
    if "linked" in case:
        yield from _shrinks_linked(case)
        return
    if "gone" in case:
        yield from _shrinks_linked(case, "gone")
        return
    if "env" in case:
        # towards the writer's own package: no neighbourhood at all, then one component at a time (rev -> nfirst -> writer)
        base = {k: v for k, v in case.items() if k != "env"}
        yield base
        e = PKG.norm(case["env"])
        cands = []
        if e["neigh"]:
            cands.append(dict(e, neigh=0, rels=("writer" if e["rels"] == "nfirst" else e["rels"])))
        if e["rels"] == "rev":
            cands.append(dict(e, rels="nfirst"))
        if e["rels"] != "writer":
            cands.append(dict(e, rels="writer"))
        if e["ids"] != "seq":
            cands.append(dict(e, ids="seq"))
        for c in cands:
            c = PKG.compact(c)
            if c and c != case["env"]:
                yield dict(base, env=c)
        for sc in shrinks(base):
            yield dict(sc, env=case["env"])
        return
    units = case["units"]
    var = case.get("var", "text")
    if case["ref"] not in NO_IMAGE_REFS:
        # the default reference shape of the container (the candidates of other containers are not valid cases and never fail)
        for d in sorted({r[0] for r in REFS.values() if case["ref"] in r and r[0] != case["ref"]}):
            yield {"units": units, "ref": d, "var": var}
        if case["ref"] in PDF_CHAINS:
            # less of the same construction: the bare array, then the most common wrapper alone, then each wrapper of a chain alone
            for d in ["arr1", "flate"] + case["ref"].split("+"):
                if d != case["ref"] and not (d == "arr1" and not PDF_CHAINS[case["ref"]]):
                    yield {"units": units, "ref": d, "var": var}
    # fewer units
    if len(units) == 2:
        for keep in (0, 1):
            yield {"units": _renumber([units[keep]]), "ref": case["ref"], "var": var}
        yield {"units": _renumber([units[0] + units[1]]), "ref": case["ref"], "var": var}
    # drop one anchor
    for ui, u in enumerate(units):
        for i in range(len(u)):
            nu = [list(x) for x in units]
            nu[ui] = u[:i] + u[i + 1:]
            yield {"units": _renumber(nu), "ref": case["ref"], "var": var}
    if var != "text":
        yield {"units": units, "ref": case["ref"], "var": "text"}
    # split a shared identity into two images
    ids = [im[2] for u in units for im in u]
    if len(ids) != len(set(ids)):
        seen = set()
        nu = []
        nxt = max(ids) + 1
        done = False
        for u in units:
            x = []
            for im in u:
                if im[2] in seen and not done:
                    x.append([im[0], im[1], nxt] + list(im[3:]))
                    done = True
                else:
                    x.append(list(im))
                    seen.add(im[2])
            nu.append(x)
        yield {"units": _renumber(nu), "ref": case["ref"], "var": var}
    # smaller dimensions / simpler format (simplest first: png, 1x1)
    kinds_by_id = {}
    for u in units:
        for im in u:
            kinds_by_id[im[2]] = (im[0], im[1], lay_of(im))

    def swap(i, f, d, lay):
        return {"units": [[([f, d, im[2]] + ([lay] if lay else [])) if im[2] == i else list(im) for im in u] for u in units],
                "ref": case["ref"], "var": var}
    for i, (f, d, lay) in sorted(kinds_by_id.items()):
        # the plain file layout first, then less of the same construction (never another construction: it may fail for its own reasons)
        if lay:
            yield swap(i, f, d, "")
            for nl in (IMG.SIMPLER.get(lay, ()) if f == "jpeg" else ()):
                yield swap(i, f, d, nl)
        for nd in DIMS_ALL[:DIMS_ALL.index(d)]:
            yield swap(i, f, nd, lay)
        if not lay:
            for nf in IMG.FORMATS[:IMG.FORMATS.index(f)]:
                yield swap(i, nf, d, "")


def _default_refs(ref):
    return {r[0] for r in REFS.values() if ref in r}


def embeds(small, big):
    """`big` is explained by the minimal shape `small`: same reference shape (the default shape explains every image-producing
    shape), the anchors of small embed in those of big unit by unit, where the simplest image format / dimension (what the
    shrinker falls back to when they do not matter) match any."""
    if "fixture" in small or "fixture" in big:
        return small == big
    if "linked" in small:
        return "linked" in big and small["ref"] == big["ref"] and _embeds_linked(small, big)
    if "gone" in small:
        return "gone" in big and small["ref"] == big["ref"] and small.get("how") == big.get("how") and _embeds_linked(small, big, "gone")
    if "linked" in big:
        # a shape without links explains a package with links through its embedded anchors alone
        big = {"units": embedded_units(big), "ref": "plain", "var": big.get("var", "text")}
    if "gone" in big:
        # a shape without dangling references explains a package with some through its embedded anchors alone
        big = {"units": embedded_units(big), "ref": big["ref"], "var": big.get("var", "text")}
    if small["ref"] != big["ref"]:
        if not (small["ref"] in _default_refs(big["ref"]) and big["ref"] not in NO_IMAGE_REFS):
            return False
    if small.get("var", "text") != "text" and small.get("var") != big.get("var", "text"):
        return False
    if "env" in small:
        # a shape that needs a neighbourhood is only explained by a case with the same non-default components
        be = big.get("env") or {}
        if any(be.get(k) != v for k, v in small["env"].items()):
            return False
    su, bu = small["units"], big["units"]
    if len(su) > len(bu):
        return False

    def kmatch(a, b):
        # a minimal shape that needs a file layout is only explained by an image of that format in that layout
        if lay_of(a):
            return a[0] == b[0] and lay_of(a) == lay_of(b) and (a[1] == "1x1" or a[1] == b[1])
        return (a[0] == "png" or a[0] == b[0]) and (a[1] == "1x1" or a[1] == b[1])

    def sub(a, b):
        it = iter(b)
        return all(any(kmatch(x, y) for y in it) for x in a)
    if len(su) == 1:
        flat = [im for u in bu for im in u]
        cands = [flat] if len(bu) == 1 else [bu[0], bu[1], flat]
        ok = any(sub(su[0], c) for c in cands)
    else:
        ok = all(sub(a, b) for a, b in zip(su, bu))
    if not ok:
        return False
    # a minimal shape that needs a repeated identity is only explained by a case that has one
    return (not has_repeat(su)) or has_repeat(bu)


def _embeds_linked(small, big, mk="linked"):
    """anchors of small (with their link bits) embed in those of big unit by unit (one unit of small: in one unit of big or in the
    flattened document); simplest kind (png 1x1) matches any; a repeated identity needs a repeated identity"""
    def ann(case):
        it = iter(case[mk])
        return [[(im, next(it)) for im in u] for u in case["units"]]

    def kmatch(a, b):
        return a[1] == b[1] and (a[0][0] == "png" or a[0][0] == b[0][0]) and (a[0][1] == "1x1" or a[0][1] == b[0][1])

    def sub(a, b):
        it = iter(b)
        return all(any(kmatch(x, y) for y in it) for x in a)
    su, bu = ann(small), ann(big)
    if len(su) > len(bu):
        return False
    if len(su) == 1:
        flat = [x for u in bu for x in u]
        ok = any(sub(su[0], c) for c in ([flat] if len(bu) == 1 else [bu[0], bu[1], flat]))
    else:
        ok = all(sub(a, b) for a, b in zip(su, bu))
    return ok and ((not has_repeat(small["units"])) or has_repeat(big["units"]))


def fingerprint_view(case):
    return case


# ------------------------------------------------------------------------------------------------ runner

def _part(arg):
    tier, fmt, k, n, seed = arg
    ev = skipped = 0
    fails, outcomes, samples = [], {}, []
    if fmt == "fixture":
        it = ({"fixture": f} for f in fixture_list())
    else:
        it = cases_for(tier, fmt)
    for i, case in enumerate(it):
        if i % n != k:
            continue
        P.note((fmt, case))
        f, oc = evaluate(fmt, case, seed)
        if f is None:
            skipped += 1
            outcomes["skip:" + oc.split(":")[0]] = outcomes.get("skip:" + oc.split(":")[0], 0) + 1
            continue
        ev += 1
        outcomes[oc] = outcomes.get(oc, 0) + 1
        for clause, msg in f:
            fails.append((clause, fmt, case, msg))
        if ev in (2, 40) and len(samples) < 2 and k == 0:
            samples.append({"fmt": fmt, "case": case, "outcome": oc})
    return {"ev": ev, "skipped": skipped, "fails": fails, "outcomes": outcomes, "samples": samples}


def run(ctx):
    args = []
    for fmt in DOC_FORMATS + ["fixture"]:
        n = 16 if fmt in ("docx", "pptx", "xlsx", "odt", "odp", "ods", "odg", "epub", "pdf", "fixture") else 8
        if ctx.quick:
            n = max(4, n // 2)
        args += [(ctx.tier, fmt, k, n, ctx.seed) for k in range(n)]
    random.Random(ctx.seed).shuffle(args)
    res = P.run_all("verif.props.C14", "_part", args, n=ctx.ncpu, hard_timeout=900)
    ev = skipped = 0
    fails, outcomes, samples, per_fmt, herr = [], {}, [], {}, []
    for (st, r, note), a in zip(res, args):
        if st != "done":
            herr.append("partition %r failed: %s: %s (last case %r)" % (a, st, str(r)[-600:], note))
            continue
        ev += r["ev"]
        skipped += r["skipped"]
        per_fmt[a[1]] = per_fmt.get(a[1], 0) + r["ev"]
        fails += [tuple(x) for x in r["fails"]]
        for k_, v in r["outcomes"].items():
            outcomes[k_] = outcomes.get(k_, 0) + v
        samples += r["samples"]
    samples = sorted(samples, key=lambda s: (s["fmt"], str(s["case"])))[:6]
    cov = {"evaluations": ev, "distinct_nontrivial": len(outcomes), "skipped_inexpressible": skipped,
           "rule": "every sequence of 0..K image anchors (K = 2 quick / 3 thorough) over image format x dimension (quick: 1x1, 640x480; "
                   "thorough: + 3x2), every identity pattern (same image used by several anchors), every split over 1..2 units, per "
                   "(document format, reference shape) for 12 container formats; 'bare' and 'tbl' unit variants for <= 1 (quick) / 2 anchors; "
                   "docx/pptx/xlsx additionally under every relationship neighbourhood of c14_pkg (neighbour relationships x order of the "
                   ".rels parts x id assignment, 9 combinations) for every layout of 0..K anchors over ENV kinds and reference shapes; "
                   "every container additionally with every file layout of the embedded image itself (c14_images.LAYOUTS: progressive / "
                   "fill bytes / Exif thumbnail / frame header behind > 64 KiB of metadata segments for JPEG, large ancillary chunks for "
                   "PNG, GIF87a, top-down and V5-header BMP; thorough: + SOF1, 256 KiB, 1 MiB, RGBA): every layout of 1..2 anchors over "
                   "{640x480 image in that layout, plain 1x1 companion} that uses it; "
                   "pdf additionally with the image XObject's /Filter written as an array: [/DCTDecode] alone and the JPEG file wrapped in "
                   "Flate / ASCII85 / ASCIIHex / RunLength (+ a85+flate; thorough: all 16 two-wrapper chains) in front of /DCTDecode, over the "
                   "same 0..K anchor layouts; odt/odp/ods/odg additionally with links that leave the package (../ , / , ./../ ; thorough: + "
                   "../../ , file:/// , http://) but end in the name of a stored package member: every layout of 1..K anchors over LINK kinds, "
                   "every identity pattern and split, every non-empty set of linked anchors (the rest embed the like-named member; the member "
                   "of every id is stored); docx/pptx/xlsx/odt/odp/ods/odg/epub additionally with dangling references next to intact ones "
                   "(default reference shape): every layout of 2..K anchors (quick: K = 2 over png 1x1 / jpeg 640x480 and K = 3 over png 1x1; "
                   "thorough: K = 3 over png / jpeg / gif), every identity pattern and split, every set of anchors whose part is not stored "
                   "that leaves >= 1 embedded and >= 1 dangling anchor; "
                   "every supported fixture file (inclusion clauses only); each package written by the reference writers, extracted by "
                   "the real extractor and judged against the bytes the harness embedded; distinct_nontrivial = distinct "
                   "(format, reference shape, anchors, images returned, units, tables, failing clauses) classes",
           "per_format": per_fmt, "outcomes": dict(sorted(outcomes.items(), key=lambda kv: -kv[1])[:150]), "samples": samples,
           "exhaustive": True, "bounds": {"tier": ctx.tier, "K": 2 if ctx.quick else 3, "dims": DIMS_QUICK if ctx.quick else DIMS_ALL,
                                          "units": "1..2", "refs": REFS,
                                          "image_file_layouts": {"layouts": LAY_QUICK if ctx.quick else LAY_ALL, "dim": LAY_DIM, "anchors": "1..2",
                                                                 "units": "1" if ctx.quick else "1..2 (default reference shape), 1 (others)",
                                                                 "refs": "default" if ctx.quick else "every image-producing shape"},
                                          "pdf_filter_chains": {k: PDF_CHAINS[k] + ["DCTDecode"] for k in (PDF_CHAINS_QUICK if ctx.quick else PDF_CHAINS)},
                                          "odf_links": {"formats": list(LINK_FORMATS), "anchors": "1..%d" % (2 if ctx.quick else 3),
                                                        "forms": {k: LINK_REFS[k] + "Pictures/k<id>.<ext>" for k in (LINK_REFS_QUICK if ctx.quick else LINK_REFS)},
                                                        "kinds": LINK_KINDS_QUICK if ctx.quick else LINK_KINDS_ALL,
                                                        "linked_sets": "every non-empty subset of the anchors", "members": "one per id, always stored"},
                                          "dangling_refs": {"formats": list(GONE_FORMATS), "anchors": "2..2 (kinds) + 3 (png 1x1)" if ctx.quick else "2..3",
                                                            "kinds": GONE_KINDS_QUICK if ctx.quick else GONE_KINDS_ALL,
                                                            "dangling_sets": "every subset of the anchors that leaves >= 1 embedded and >= 1 dangling",
                                                            "ref": "default reference shape; the dangling anchor names a part of its own that is not stored"},
                                          "env": {"formats": list(ENV_FORMATS), "neighbourhoods": PKG.envs(),
                                                  "kinds": ENV_KINDS_QUICK if ctx.quick else ENV_KINDS_ALL,
                                                  "refs": ENV_REFS_QUICK if ctx.quick else ENV_REFS_ALL}}}
    return {"coverage": cov, "failures": fails, "harness_errors": herr, "assumptions": ASSUMPTIONS}


ASSUMPTIONS = [
    "an image file referenced by several anchors (shared relationship, two relationships to one part, one ODF Pictures/ part, one PDF "
    "XObject, one BLIP) may be returned once per anchor or once: required at least once per document, at most once per anchor, each "
    "time attributed to a unit that anchors it; two separate parts with equal bytes must both be returned",
    "order is judged as 'returned byte sequence is a subsequence of the anchor sequence'",
    "unit_number None is accepted for sheet formats (documented in ImageMetadata); docx/odt/rtf/epub have no page/slide/sheet units and "
    "the README is silent about odg units (the library yields one unit per drawing): attribution and view equality are not judged "
    "there, only reachability; the number of units returned is not judged (units are matched by their unit_number)",
    "BMP in ppt/xls is stored as DIB (no file header): the DIB payload or the original BMP file are both accepted as 'identical bytes'",
    "tables without rows are ignored and cells are compared as str(cell) when unit and document table views are compared (xls unit "
    "tables are stringified copies by design)",
    "'its pixel size when the file declares one': a JPEG declares it in its frame header (SOF0..SOF15 except DHT/JPG/DAC) wherever that "
    "segment lies in the file and whatever metadata segments, fill bytes (ITU T.81 B.1.1.2) or embedded thumbnails precede it; a BMP "
    "in biWidth x |biHeight| of any BITMAPINFOHEADER-compatible header (40 / 108 / 124 bytes); a GIF in its logical screen descriptor "
    "(87a and 89a); a PNG in IHDR.  The thumbnail inside an Exif segment is not an image of the document",
    "odf: the draw:frame is 1cm x 1cm whatever the pixel size of the file; 'pixel size' is judged against the image file header",
    "missing / external references: no image may be returned for them (an entry with empty bytes counts as an image) and nothing may raise",
    "dangling references next to intact ones: a picture whose part is not stored is not an image of the document; it must not be "
    "returned, must not raise and must not consume a number: the images that ARE embedded are numbered 1..n in document order on "
    "their own units exactly as if the dangling anchors were absent",
    "odf links: an xlink:href that is a relative path starting with '../' (after removing './' segments), an absolute path '/...' or an "
    "absolute IRI (file:, http:) does not name a member of the package (ODF 1.2 part 3, 3.7) even when its tail equals the name of a "
    "stored member; such a draw:image is a link to a file outside the document and, like 'external', must not produce an image; a "
    "stored Pictures/ member that no anchor embeds is not 'placed in the body' and must not be returned either",
    "pdf: a /Filter array lists the filters in decoding order (ISO 32000-1 7.4.1, table 5); the embedded file is what remains after "
    "the wrappers in front of /DCTDecode are undone, and its content type is that of the last filter (image/jpeg)",
    "epub: the manifest lists the images in anchor order (document order of an EPUB is not settled between manifest and spine)",
    "OPC packages: the order of the Relationship elements of a .rels part, the spelling of relationship ids and the presence of "
    "relationships of other types (comments, vmlDrawing, hyperlink, theme, notesSlide) do not change which pictures a document "
    "places, nor their order (ECMA-376 part 2: ids are opaque, element order carries no meaning); an external hyperlink whose URL "
    "ends in .png is not a picture of the document",
    "ppt/xls are not named in the statement's quantifier; they are included because the statement is universal over documents",
    "fixtures that the library refuses or fails on are skipped here (C01 judges them)",
]
