"""C04 helper: the PROPERTY-NAME family of the results corpus.

The other generated documents of C04 store the document properties a format defines (title, author, ...) under the names the
format defines.  Most formats, however, also have an OPEN property namespace: a place where the FILE chooses the name of a
property (HTML meta elements, Dublin-Core / user-defined / custom properties of packages, RTF user properties, e-mail header
fields).  A reader that maps such names onto its metadata object generically lets the document's content reach attributes that
must come from elsewhere - the file name, extension and folder (derived from the path argument), counters, the real title.
This family enumerates, for every format whose reference writer output has such a namespace, the document [one paragraph, every
storable property with a plain value] plus ONE extra property described by

    key = {"name": K, "form": F, "sp": S}        (value: a fresh class-Z token)

K (the name)  every attribute name of every metadata class of the library - discovered by reflection: the dataclass fields of
    FileMetadataInterface and of all its subclasses in data_types.py (filename, file_extension, file_path, folder_path,
    detected_encoding, title, ..., 49 names on the pinned tree) - and SPECIALS: names of methods / dunder attributes of the
    metadata object and names no reader knows (to_dict, populate_from_path, __class__, __dict__, __doc__, generator, viewport,
    x-verif-none).
S (the spelling)  asis, upper (K.upper()), hyphen (every "_" written "-"; only for names with "_").
F (the slot that carries name and value)
    html, mhtml:  name / property / httpequiv / itemprop: <meta F="K" content="V"> in the head;  bodyname: <meta name> in the body
    epub:         opfmeta <meta name="K" content="V"/>, opfprop <meta property="K">V</meta>, dc <dc:K>V</dc:K> in the package
                  document's metadata;  chname: <meta name="K" content="V"/> in the chapter's head
    odt odp odg ods:  userdef <meta:user-defined meta:name="K">V</..>, metaelem <meta:K>V</meta:K>, dcelem <dc:K>V</dc:K> in office:meta
    docx pptx xlsx:   custom (docProps/custom.xml property name="K", with relationship and content type), coredc <dc:K>, corecp <cp:K>
                      in docProps/core.xml, app (docProps/app.xml <K>V</K>, with relationship and content type)
    rtf:          userprops {\\*\\userprops{\\propname K}\\proptype30{\\staticval V}}, info {\\K V} inside {\\info} (names that
                  are lower-case letters only: an RTF control word)
    eml, mbox:    header "K: V", xheader "X-K: V" (names that the message already has as a header field are skipped)
  A name that IS one of the format's own property names in the slot where the format defines it (html name=author, epub dc:title,
  ODF dc:title, OOXML dc:title, RTF \\title ...) is not part of the family: that is the property itself (meta group of C04), and a
  second element of the same name would make "the stored value" ambiguous.  Names that are no XML name are skipped in element forms.

Nothing here shares code with the library (the key alphabet is reflected from it, like the accessor alphabet).
"""
from __future__ import annotations

import io
import re
import zipfile

from verif.props import c04_corpus as K

SPECIALS = ["to_dict", "populate_from_path", "__class__", "__dict__", "__doc__", "generator", "viewport", "x-verif-none"]
SPELLINGS = ("asis", "upper", "hyphen")
FORMS = {"html": ("name", "property", "httpequiv", "itemprop", "bodyname"), "mhtml": ("name", "property", "httpequiv", "itemprop", "bodyname"),
         "epub": ("opfmeta", "opfprop", "dc", "chname"),
         "odt": ("userdef", "metaelem", "dcelem"), "odp": ("userdef", "metaelem", "dcelem"), "odg": ("userdef", "metaelem", "dcelem"),
         "ods": ("userdef", "metaelem", "dcelem"),
         "docx": ("custom", "coredc", "corecp", "app"), "pptx": ("custom", "coredc", "corecp", "app"), "xlsx": ("custom", "coredc", "corecp", "app"),
         "rtf": ("userprops", "info"), "eml": ("header", "xheader"), "mbox": ("header", "xheader")}
KEY_FORMATS = tuple(FORMS)
QUICK_ALL_SPELLINGS = ("html", "mhtml")        # quick: the other formats with the spelling "asis" only
KEY_BODY = ["text"]
DEFAULT = {"sp": "asis"}
# forms in which the format defines property names of its own -> the names it defines there (lower case, "-" and "_" alike)
_NATIVE = {"name": {"author", "keywords", "description", "title"}, "bodyname": {"author", "keywords", "description", "title"},
           "chname": {"author", "keywords", "description", "title"},
           "dc": {"title", "creator", "subject", "description", "identifier", "language", "publisher", "date", "rights", "contributor",
                  "author", "keywords"},
           "opfmeta": set(), "opfprop": set(),
           "dcelem": {"title", "description", "subject", "creator", "date", "language", "keywords", "author"},
           "metaelem": {"generator", "keyword", "keywords", "initial_creator", "creation_date", "editing_cycles", "editing_duration",
                        "title", "description", "subject", "creator", "date", "language", "author"},
           "coredc": {"title", "subject", "creator", "description", "language", "identifier", "author", "keywords", "comments"},
           "corecp": {"keywords", "category", "last_modified_by", "lastmodifiedby", "revision", "title", "subject", "creator",
                      "description", "author", "comments", "language"},
           "app": {"company", "manager", "application", "pages", "words", "characters", "slides", "notes", "hiddenslides", "title"},
           "info": {"title", "subject", "author", "keywords", "comment", "comments", "operator", "category", "manager", "company",
                    "doccomm", "version", "revision", "created", "modified", "creatim", "revtim", "vern", "nofpages", "nofwords",
                    "nofchars", "nofcharsws", "edmins", "id", "printim", "buptim", "hlinkbase"},
           "header": {"from", "to", "cc", "bcc", "subject", "date", "message_id", "mime_version", "content_type",
                      "content_transfer_encoding", "sender", "reply_to", "received", "return_path"},
           "xheader": set(), "userdef": set(), "custom": set(), "userprops": set(), "property": set(), "httpequiv": {"content_type", "refresh",
                                                                                                                   "content_language",
                                                                                                                   "default_style", "charset"},
           "itemprop": set()}
_ELEMENT_FORMS = ("dc", "metaelem", "dcelem", "coredc", "corecp", "app")
_XML_NAME = re.compile(r"[A-Za-z_][A-Za-z0-9_.-]*\Z")
_KEY_SHAPE = re.compile(r"[A-Za-z_][A-Za-z0-9_.-]{0,63}\Z")
_RTF_WORD = re.compile(r"[a-z]{1,32}\Z")

_NAMES = None


def names():
    """the key alphabet: reflected attribute names of all metadata classes (sorted) + SPECIALS"""
    global _NAMES
    if _NAMES is None:
        import dataclasses
        import inspect
        from sharepoint2text.parsing.extractors import data_types as D
        found = set()
        for v in vars(D).values():
            if inspect.isclass(v) and issubclass(v, D.FileMetadataInterface) and dataclasses.is_dataclass(v):
                found.update(f.name for f in dataclasses.fields(v))
        _NAMES = sorted(found) + [s for s in SPECIALS if s not in found]
    return _NAMES


def spelled(name, sp):
    if sp == "upper":
        return name.upper()
    if sp == "hyphen":
        return name.replace("_", "-")
    return name


def valid(fmt, key):
    if not isinstance(key, dict) or set(key) - {"name", "form", "sp"} or not {"name", "form"} <= set(key):
        return False
    name, form, sp = key["name"], key["form"], key.get("sp", "asis")
    if fmt not in FORMS or form not in FORMS[fmt] or sp not in SPELLINGS or not isinstance(name, str) or not _KEY_SHAPE.match(name):
        return False
    if sp == "hyphen" and "_" not in name:
        return False
    if sp == "upper" and name.upper() == name:
        return False
    if name.lower().replace("-", "_") in _NATIVE[form]:
        return False
    written = spelled(name, sp)
    if form in _ELEMENT_FORMS and (not _XML_NAME.match(written) or written.lower().startswith("xml")):
        return False
    if form == "info" and not _RTF_WORD.match(written):
        return False
    return True


# ------------------------------------------------------------------------------------------------ builders

def _sub_once(text, pattern, repl, what):
    out, n = re.subn(pattern, lambda m: repl, text, flags=re.S)
    if n != 1:
        raise ValueError(f"property-name patch: {what} found {n} times, expected once")
    return out


def _zip_edit(data: bytes, edits: dict, adds: dict) -> bytes:
    """edits: {part: fn(text) -> text}; adds: {new part: text}"""
    src = zipfile.ZipFile(io.BytesIO(data))
    missing = [p for p in edits if p not in src.namelist()]
    if missing or any(p in src.namelist() for p in adds):
        raise ValueError("property-name patch: parts %r missing / %r present" % (missing, [p for p in adds if p in src.namelist()]))
    out = io.BytesIO()
    with zipfile.ZipFile(out, "w") as z:
        for zi in src.infolist():
            raw = src.read(zi)
            if zi.filename in edits:
                raw = edits[zi.filename](raw.decode("utf-8")).encode("utf-8")
            z.writestr(zi, raw, compress_type=zi.compress_type)
        for p, text in adds.items():
            z.writestr(p, text.encode("utf-8"), compress_type=zipfile.ZIP_DEFLATED)
    return out.getvalue()


def _html_page(m, tk, extra_head, extra_body):
    head = "".join('<meta name="%s" content="%s">' % (k, K._xa(m[k])) for k in ("author", "keywords", "description") if k in m)
    title = "<title>%s</title>" % K._x(m["title"]) if "title" in m else ""
    return ('<!DOCTYPE html><html lang="en"><head><meta charset="utf-8">%s%s%s</head><body>%s<p>%s %s</p></body></html>'
            % (title, head, extra_head, extra_body, tk.new("B"), tk.new("B")))


_OOXML_MAIN = {"docx": "word/document.xml", "pptx": "ppt/presentation.xml", "xlsx": "xl/workbook.xml"}


def build(fmt, key, tk):
    """-> {"data", "props", "members": [], "used": ["text"]}"""
    from verif.gen import htmlfam
    name, form, sp = key["name"], key["form"], key.get("sp", "asis")
    k = spelled(name, sp)
    meta = {p: [] for p in K.META_CAPS.get(fmt, ())}
    if fmt in ("html", "mhtml"):
        props = {}
        m = K._meta(fmt, meta, tk, props)
        v = tk.new("Z")
        attr = {"name": "name", "bodyname": "name", "property": "property", "httpequiv": "http-equiv", "itemprop": "itemprop"}[form]
        el = '<meta %s="%s" content="%s">' % (attr, K._xa(k), v)
        page = _html_page(m, tk, "" if form == "bodyname" else el, el if form == "bodyname" else "")
        data = page.encode("utf-8") if fmt == "html" else htmlfam.mhtml(page, "quoted-printable", None)
        return {"data": data, "props": props, "members": [], "used": ["text"]}
    base = _base(fmt, meta, tk)
    data, props = base["data"], base["props"]
    v = tk.new("Z")
    if fmt == "epub":
        if form == "chname":
            data = _zip_edit(data, {"OEBPS/ch1.xhtml": lambda x: _sub_once(x, r"</head>", '<meta name="%s" content="%s"/></head>' % (K._xa(k), v),
                                                                           "head end")}, {})
        else:
            el = {"opfmeta": '<meta name="%s" content="%s"/>' % (K._xa(k), v), "opfprop": '<meta property="%s">%s</meta>' % (K._xa(k), v),
                  "dc": "<dc:%s>%s</dc:%s>" % (k, v, k)}[form]
            data = _zip_edit(data, {"OEBPS/content.opf": lambda x: _sub_once(x, r"</metadata>", el + "</metadata>", "metadata end")}, {})
    elif fmt in ("odt", "odp", "odg", "ods"):
        el = {"userdef": '<meta:user-defined meta:name="%s" meta:value-type="string">%s</meta:user-defined>' % (K._xa(k), v),
              "metaelem": "<meta:%s>%s</meta:%s>" % (k, v, k), "dcelem": "<dc:%s>%s</dc:%s>" % (k, v, k)}[form]
        data = _zip_edit(data, {"meta.xml": lambda x: _sub_once(x, r"</office:meta>", el + "</office:meta>", "office:meta end")}, {})
    elif fmt in ("docx", "pptx", "xlsx"):
        if form in ("coredc", "corecp"):
            el = "<%s:%s>%s</%s:%s>" % (form[4:], k, v, form[4:], k)
            data = _zip_edit(data, {"docProps/core.xml": lambda x: _sub_once(x, r"</cp:coreProperties>", el + "</cp:coreProperties>",
                                                                             "core properties end")}, {})
        else:
            if form == "custom":
                part, ct = "docProps/custom.xml", "application/vnd.openxmlformats-officedocument.custom-properties+xml"
                rt = "http://schemas.openxmlformats.org/officeDocument/2006/relationships/custom-properties"
                text = ('<?xml version="1.0" encoding="UTF-8" standalone="yes"?>\n<Properties '
                        'xmlns="http://schemas.openxmlformats.org/officeDocument/2006/custom-properties" '
                        'xmlns:vt="http://schemas.openxmlformats.org/officeDocument/2006/docPropsVTypes">'
                        '<property fmtid="{D5CDD505-2E9C-101B-9397-08002B2CF9AE}" pid="2" name="%s"><vt:lpwstr>%s</vt:lpwstr></property>'
                        '</Properties>' % (K._xa(k), v))
            else:
                part, ct = "docProps/app.xml", "application/vnd.openxmlformats-officedocument.extended-properties+xml"
                rt = "http://schemas.openxmlformats.org/officeDocument/2006/relationships/extended-properties"
                text = ('<?xml version="1.0" encoding="UTF-8" standalone="yes"?>\n<Properties '
                        'xmlns="http://schemas.openxmlformats.org/officeDocument/2006/extended-properties">'
                        '<Application>verif</Application><%s>%s</%s></Properties>' % (k, v, k))
            rel = '<Relationship Id="rIdVerifKey" Type="%s" Target="%s"/></Relationships>' % (rt, part)
            ovr = '<Override PartName="/%s" ContentType="%s"/></Types>' % (part, ct)
            data = _zip_edit(data, {"_rels/.rels": lambda x: _sub_once(x, r"</Relationships>", rel, "relationships end"),
                                    "[Content_Types].xml": lambda x: _sub_once(x, r"</Types>", ovr, "content types end")}, {part: text})
    elif fmt == "rtf":
        text = data.decode("ascii")
        if form == "info":
            text = _sub_once(text, r"\{\\info", "{\\info{\\%s %s}" % (k, v), "info group")
        else:
            m = re.findall(r"\{\\info(?:\{[^{}]*\})*\}", text)
            if len(m) != 1:
                raise ValueError("property-name patch: info group found %d times" % len(m))
            text = text.replace(m[0], m[0] + "{\\*\\userprops{\\propname %s}\\proptype30{\\staticval %s}}" % (k, v))
        data = text.encode("ascii")
    elif fmt in ("eml", "mbox"):
        line = ("%s: %s" % (k if form == "header" else "X-" + k, v)).encode("ascii")
        nl = b"\r\n" if fmt == "eml" else b"\n"
        marker = b"MIME-Version:"
        if data.count(marker) != 1:
            raise ValueError("property-name patch: MIME-Version header found %d times" % data.count(marker))
        data = data.replace(marker, line + nl + marker)
    else:
        raise ValueError(fmt)
    return {"data": data, "props": props, "members": [], "used": ["text"]}


def _base(fmt, meta, tk):
    """the ordinary document of the family, built by the corpus builders with the family's token source"""
    if fmt in K.ADM_FORMATS:
        return K.build_adm(fmt, list(KEY_BODY), meta, tk)
    if fmt in K.SHEET_FORMATS:
        return K.build_sheet(fmt, list(KEY_BODY), meta, tk)
    if fmt in K.HTML_FORMATS:
        return K.build_html(fmt, list(KEY_BODY), meta, tk)
    if fmt in K.MAIL_FORMATS:
        return K.build_mail(fmt, list(KEY_BODY), meta, tk)
    raise ValueError(fmt)


# ------------------------------------------------------------------------------------------------ enumeration

def cases(tier, fmt):
    """quick:    every form x every name, spelling asis (html, mhtml: every spelling);
       thorough: every form x every name x every spelling."""
    out = []
    for form in FORMS.get(fmt, ()):
        for sp in (SPELLINGS if (tier != "quick" or fmt in QUICK_ALL_SPELLINGS) else SPELLINGS[:1]):
            for name in names():
                key = {"name": name, "form": form} if sp == "asis" else {"name": name, "form": form, "sp": sp}
                if valid(fmt, key):
                    out.append(key)
    return out
