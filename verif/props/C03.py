"""C03 - units mirror pages / slides / sheets / chapters / messages.

Space I (bounded-exhaustive, no sampling). Six parts:

(vec)   unit-kind vectors: every vector of length 1..N (quick N=3, thorough N=4; mbox also length 0) over the unit kinds the
        format's reference writer can express - text, empty, whitespace-only, image-only, table-only (plus "titled" = title +
        body for slide formats and "svg" = non-XHTML spine item for EPUB) - rendered to pdf, pptx, odp, odg, ppt, rtf
        (\\page and \\sect\\sbkpage), xlsx, ods, xls, epub, mbox, each with the writer option variants listed in VEC_OPTS.
(single) the one-unit formats html, mhtml, txt, md, eml, odf: every expressible unit kind (count = 1, number = 1, join).
(head)  heading structures for the flowing-text formats docx and odt: every sequence of <= L sections (quick L=3, thorough
        L=4; thorough bodies at L=4 restricted to HEAD_BODIES_LONG) over heading level 1..3 x section body in
        {paragraph, empty, page break only, page break + paragraph, paragraph + page break, table}, with / without a
        preamble paragraph in front of the first heading.
(cells)  sheet units whose body is not only token text: xlsx, ods, xls sheets holding typed scalar cells (numbers and booleans,
        among them the values that are falsy in Python: 0, 0.0, False; thorough also -0.0, -1 and a date) next to token string
        cells. A sheet is a full r x c rectangle (gaps and ragged ranges are C13's space) whose cells are "C" (a fresh token
        string) or a typed ADM cell, every typed value class at most once per sheet (so "the value is in its unit" is decidable
        without counting). (a) single sheet: EVERY such rectangle of the shapes CELL_SHAPES[tier] over "C" + the four values of
        each value set in CELL_VALUE_SETS[tier] (so a typed value stands at every position: first / inner / last row and
        column, alone in a row or column or next to text or to another typed value); (b) workbooks: every vector of length 2
        (thorough: 2..3) over the sheet alphabet cell_sheet_alphabet(value set) = {one token, empty sheet, a lone falsy value,
        a text row followed by a falsy row, a text column followed by a falsy column, truthy next to falsy, a text row followed
        by an all-falsy row}. Writer options: xls additionally with RK-encoded integers when the sheet holds an integer.
(open)  units that END INSIDE AN OPEN CONSTRUCT, followed / preceded by ordinary units: EPUB books whose chapters are taken from
        the ordinary kinds OPEN_REGULAR = {text, tbl} (thorough: + empty) and the 19 open kinds OPEN_KINDS - a content document
        that stops inside, or never closes, a paragraph, list item, div, pre, table cell, table row, table, nested table,
        object, script, style, textarea, comment, CDATA section, processing instruction, start tag, character reference or
        title ("-omit": end tags left out, document otherwise complete; "-trunc": the document is cut there). quick: every
        vector of length 2 and every vector [a, b, ordinary] of length 3 with at least one open kind; thorough: every vector of
        length 2..3 with at least one open kind; each in the XHTML spelling (.xhtml, application/xhtml+xml) and the HTML
        spelling (.html, text/html, <!DOCTYPE html>) of all content documents (OPEN_OPTS). What is demanded: the ORDINARY
        chapters keep every clause (count, number, order, cover, join) whatever stands next to them - a unit is a function of
        its own chapter; the text of an open chapter ("soft" tokens, class S) is not demanded (the statement does not say how
        tag soup is read) but must not be returned twice or in the unit of another chapter (cover:dup / cover:mixed).
(fix)   every file under /repo/sharepoint2text/tests/resources through read_file: numbering / uniqueness / join only.

Accessor options (all parts, join clause): when get_full_text() and iterate_units() of a content class share boolean keyword
options (found by inspect.signature, at most MAX_ACCESSOR_OPTIONS; today: PptxContent.include_image_captions), the join
equation is asked of ONE content object for every assignment of the options, forwards and then backwards, and for the plain
call last (option_walk). The pptx vectors therefore also run with the writer option {"alt": True} (pictures carry alt text, so
that the option changes the text).

A case is plain JSON: {"kinds": [...], "opts": {...}} (open kinds are spelled "o:<construct>-omit|trunc") | {"sheets": [grid, ...], "opts": {...}} (grid = rows of "C" | ADM typed
cell such as ["i", 0]) | {"pre": 0|1, "secs": [[level, body], ...]} | {"file": name}.
All tokens are allocated from Tokens(seed) in source order, so the case alone determines the document.

Oracle clauses (each demands only what the statement says; the part after the colon names the way it failed):
  count:missing / count:extra / count:none
          one unit per page / slide / sheet / chapter / message (mbox: one result per message with exactly one unit each);
          flowing formats: exactly one unit, or between (#heading sections with content) and (#sections) units, never zero
  number:invalid / number:repeat / number:position
          unit numbers are ints >= 1, strictly increasing (no repeats); a unit that holds text of source unit i only is
          numbered i; when the count is right the numbers are 1..n (mbox: judged per result, every unit is number 1)
  order   units come in source order
  cover:lost / cover:dup / cover:mixed (/ cover:spread / cover:path for flowing formats)
          every body token is found (get_text(), a cell of get_tables(), heading path / location / title) in exactly one
          unit, and no unit mixes text of two source units; flowing formats with more than one unit: a unit does not mix
          two sections, a section's text is not spread over several units, a unit's heading path names its own heading.
          (cells) part, judged when the unit count is right (unit i <-> sheet i): cover:lost = a typed cell value of sheet i is
          shown by no table cell and no white-space separated word of the text of unit i; cover:mixed = unit i shows a typed
          value that sheet i does not hold but another sheet of the workbook does. "Shows" is wide: a number is shown by an
          equal int / float or by a string that reads as an equal number ("0", "0.0"), a boolean by the bool or by
          true/false in any letter case, a date by an equal date / midnight datetime or its ISO spelling
  cover-heading:lost / cover-heading:misplaced  (flowing formats)
          every heading text is found in the text or heading path of at least one unit and only in units of its own
          section or of sections nested below it
  join    pdf, pptx, odp, xlsx, ods, epub, html, mhtml, plain, e-mail, odg, odf: get_full_text() equals
          "\\n".join(unit texts).strip() - also when asked again after calls with accessor options
  join:options  get_full_text(**options) equals the trimmed newline-join of the texts of iterate_units(**options), for every
          assignment of the shared boolean accessor options, on one content object (see "Accessor options")
  raises  the extractor raised on a valid generated document (no units at all)
"""
from __future__ import annotations

import inspect
import io
import itertools
import json
import os
import random
import re
import struct
import zipfile

from verif.gen.tokens import Tokens, find_tokens
from verif.mc import pool as P

LEVEL = "exploration"
RES_DIR = "/repo/sharepoint2text/tests/resources"

# ---------------------------------------------------------------------------------------------------------------- spaces

KIND_RANK = {"text": 0, "empty": 1, "ws": 2, "img": 3, "tbl": 4, "titled": 5, "svg": 6}
SLIDE_KINDS = ["text", "titled", "empty", "ws", "img", "tbl"]
VEC_KINDS = {
    "pdf": ["text", "empty", "ws", "img"],                     # the PDF writer has no table construct
    "pptx": SLIDE_KINDS, "odp": SLIDE_KINDS, "odg": SLIDE_KINDS,
    "ppt": ["text", "titled", "empty", "ws", "img"],           # the PPT writer has no table construct
    "rtf": ["text", "empty", "ws", "img", "tbl"],
    "xlsx": ["text", "empty", "ws", "img", "tbl"], "ods": ["text", "empty", "ws", "img", "tbl"],
    "xls": ["text", "empty", "ws", "img", "tbl"],
    "epub": ["text", "empty", "ws", "img", "tbl", "svg"],
    "mbox": ["text", "empty", "ws", "img", "tbl"],
}
VEC_OPTS = {
    "pdf": [{}, {"empty_page": "emptystream"}],
    "pptx": [{}, {"slide_part_numbers": "reversed"}, {"slide_part_numbers": "gapped"}, {"alt": True}],   # alt: pictures carry alt text
    "odp": [{}, {"class_style_names": True}],
    "odg": [{}, {"custom_shape": True}],
    "ppt": [{}, {"layout": "lo"}, {"p_mode": "textbox"}, {"p_mode": "slwt_other"}],
    "rtf": [{}, {"page_break": "sbkpage"}],
    "xlsx": [{}, {"inline_strings": True}],
    "ods": [{}],
    "xls": [{}],
    "epub": [{}],
    "mbox": [{}, {"separator": "no-blank-line"}, {"separator": "crlf"}, {"envelope": "daemon"}, {"envelope": "dash"},
             {"envelope": "daemon", "envelope_first": "address"}],
}
VEC_FORMATS = list(VEC_KINDS)
SINGLE_KINDS = {"html": ["text", "empty", "ws", "img", "tbl"], "mhtml": ["text", "empty", "ws", "img", "tbl"],
                "txt": ["text", "empty", "ws"], "md": ["text", "empty"], "eml": ["text", "empty", "ws", "img", "tbl"],
                "odf": ["text", "empty"]}
SHEET_FORMATS = ("xlsx", "ods", "xls")
JOIN_FORMATS = {"pdf", "pptx", "odp", "xlsx", "ods", "epub", "html", "mhtml", "txt", "md", "eml", "mbox", "odg", "odf"}
JOIN_CLASSES = {"PdfContent", "PptxContent", "OdpContent", "XlsxContent", "OdsContent", "EpubContent", "HtmlContent",
                "PlainTextContent", "EmailContent", "OdgContent", "OdfContent"}
HEAD_FORMATS = ["docx", "odt"]
HEAD_BODIES = ["t", "e", "pb", "pt", "tp", "tbl"]
HEAD_BODIES_LONG = ["t", "e", "pb", "tbl"]
BODY_RANK = {"t": 0, "e": 1, "pb": 2, "pt": 3, "tp": 4, "tbl": 5}


def vec_cases(fmt, tier):
    n_max = 3 if tier == "quick" else 4
    kinds = VEC_KINDS[fmt]
    for n in range(0 if fmt == "mbox" else 1, n_max + 1):
        for vec in itertools.product(kinds, repeat=n):
            for o in VEC_OPTS[fmt]:
                yield {"kinds": list(vec), "opts": dict(o)}


def single_cases(fmt):
    for k in SINGLE_KINDS[fmt]:
        yield {"kinds": [k], "opts": {}}
    if fmt == "mhtml":
        for k in ("text", "tbl"):
            for enc in ("base64", "7bit"):
                yield {"kinds": [k], "opts": {"encoding": enc}}


def head_cases(tier):
    lmax = 3 if tier == "quick" else 4
    for n in range(0, lmax + 1):
        bodies = HEAD_BODIES if n <= 3 else HEAD_BODIES_LONG
        alpha = [(lv, b) for lv in (1, 2, 3) for b in bodies]
        for secs in itertools.product(alpha, repeat=n):
            for pre in (0, 1):
                if n == 0 and not pre:
                    continue
                yield {"pre": pre, "secs": [list(s) for s in secs]}


# (cells) part: typed scalar cells in sheet units. A value set is (falsy 1, falsy 2, truthy 1, truthy 2), pairwise of different
# value classes (see cell_class); quick's sets are a prefix of thorough's.
CELL_FORMATS = ["xlsx", "ods", "xls"]
_VS_INT = [["i", 0], ["b", False], ["i", 7], ["b", True]]
_VS_FLOAT = [["f", 0.0], ["b", False], ["f", 2.5], ["b", True]]
_VS_MORE = [["f", -0.0], ["b", False], ["i", -1], ["d", "2020-02-03"]]
CELL_VALUE_SETS = {"quick": [_VS_INT, _VS_FLOAT], "thorough": [_VS_INT, _VS_FLOAT, _VS_MORE]}
# (rows, columns, max number of typed cells); quick's shapes are a prefix of thorough's
_SHAPES_Q = [(1, 1, 1), (1, 2, 2), (2, 1, 2), (2, 2, 4), (1, 3, 3), (3, 1, 3)]
CELL_SHAPES = {"quick": _SHAPES_Q, "thorough": _SHAPES_Q + [(2, 3, 2), (3, 2, 2), (3, 3, 2)]}
CELL_VEC_LEN = {"quick": (2,), "thorough": (2, 3)}


def cell_class(cell):
    """Value class of a typed ADM cell: two cells of one class are shown the same way (int 0 and float 0.0 are one class)."""
    k = cell[0]
    if k in ("i", "f"):
        return ("num", float(cell[1]))
    if k == "b":
        return ("bool", bool(cell[1]))
    if k == "d":
        return ("date", cell[1])
    raise ValueError("cell %r" % (cell,))


def cell_grids(r, c, kmax, values):
    """every r x c rectangle over "C" + values with <= kmax typed cells, each value at most once; canonical order."""
    n = r * c
    for k in range(0, min(kmax, n, len(values)) + 1):
        for pos in itertools.combinations(range(n), k):
            for vals in itertools.permutations(values, k):
                flat = ["C"] * n
                for p_, v in zip(pos, vals):
                    flat[p_] = list(v)
                yield [flat[i * c:(i + 1) * c] for i in range(r)]


def cell_sheet_alphabet(values):
    z1, z2, t1 = values[0], values[1], values[2]
    return [[["C"]], [], [[z1]], [[z2]], [["C"], [z1]], [["C", z2]], [[t1, z1]], [["C", "C"], [z2, z1]]]


def _cell_opts(fmt, sheets):
    yield {}
    if fmt == "xls" and any(isinstance(x, list) and x[0] == "i" for g in sheets for row in g for x in row):
        yield {"rk": True}


def cells_cases(fmt, tier):
    seen = set()
    def emit(sheets):
        key = json.dumps(sheets)
        if key in seen:
            return
        seen.add(key)
        for o in _cell_opts(fmt, sheets):
            yield {"sheets": sheets, "opts": o}
    for values in CELL_VALUE_SETS[tier]:
        for r, c, kmax in CELL_SHAPES[tier]:
            for g in cell_grids(r, c, kmax, values):
                yield from emit([g])
    for values in CELL_VALUE_SETS[tier]:
        alpha = cell_sheet_alphabet(values)
        for n in CELL_VEC_LEN[tier]:
            for vec in itertools.product(alpha, repeat=n):
                yield from emit([[list(row) for row in g] for g in vec])


# (open) part: EPUB chapters whose content document ENDS INSIDE AN OPEN CONSTRUCT. name -> (markup after <body> (or, for
# "head:", after <head>), is the rest of the document (closing tags of body / html) still written?). {0} {1} {2} are fresh
# tokens of class S ("soft": text of a tag-soup chapter - where it must be returned is not judged, only that it stays out of
# the units of the OTHER chapters). "-omit": end tags left out the way the HTML syntax allows or tolerates, document complete;
# "-trunc": the document stops right there (a truncated download / a chapter cut in the middle).
OPEN_KINDS = {
    "o:p-omit": ("<p>{0}<p>{1}", True),
    "o:li-omit": ("<ul><li>{0}<li>{1}</ul>", True),
    "o:div-omit": ("<div><p>{0}</p><div>{1}", True),
    "o:pre-omit": ("<p>{0}</p><pre>{1}", True),
    "o:cell-omit": ("<p>{0}</p><table><tr><td>{1}<td>{2}</table>", True),
    "o:row-omit": ("<table><tr><td>{0}</td><td>{1}</td><tr><td>{2}</td></table>", True),
    "o:table-omit": ("<p>{0}</p><table><tr><td>{1}</td></tr>", True),
    "o:object-omit": ("<p>{0}</p><object data=\"x.bin\"><p>{1}</p>", True),
    "o:cell-trunc": ("<p>{0}</p><table><tr><td>{1}</td><td>{2}", False),
    "o:nested-trunc": ("<table><tr><td>{0}<table><tr><td>{1}", False),
    "o:script-trunc": ("<p>{0}</p><script>var a = \"{1}\";", False),
    "o:style-trunc": ("<p>{0}</p><style>p:before {{ content: \"{1}\" }}", False),
    "o:textarea-trunc": ("<p>{0}</p><textarea>{1}", False),
    "o:comment-trunc": ("<p>{0}</p><!-- {1}", False),
    "o:cdata-trunc": ("<p>{0}</p><![CDATA[ {1}", False),
    "o:pi-trunc": ("<p>{0}</p><?x {1}", False),
    "o:tag-trunc": ("<p>{0}</p><p class=\"{1}", False),
    "o:entity-trunc": ("<p>{0}</p><p>{1} &am", False),
    "o:title-trunc": ("head:<title>{0}", False),
}
OPEN_REGULAR = ["text", "tbl"]
OPEN_OPTS = [{}, {"ctype": "html"}]
for _i, _k in enumerate(OPEN_KINDS):
    KIND_RANK[_k] = 10 + _i


def open_cases(tier):
    """quick: every vector of length 2 over OPEN_KINDS + OPEN_REGULAR and every vector [a, b, regular] of length 3, each with at
    least one open kind; thorough: every vector of length 2..3 with at least one open kind (+ "empty" among the regular kinds)."""
    reg = OPEN_REGULAR if tier == "quick" else OPEN_REGULAR + ["empty"]
    alpha = reg + list(OPEN_KINDS)
    for n in (2, 3):
        for vec in itertools.product(alpha, repeat=n):
            if not any(k in OPEN_KINDS for k in vec):
                continue
            if tier == "quick" and n == 3 and vec[-1] in OPEN_KINDS:
                continue
            for o in OPEN_OPTS:
                yield {"kinds": list(vec), "opts": dict(o)}


def fixture_files():
    out = []
    for root, _, files in os.walk(RES_DIR):
        for f in files:
            out.append(os.path.relpath(os.path.join(root, f), RES_DIR))
    return sorted(out)


# -------------------------------------------------------------------------------------------------------------- rendering

def make_jpeg(w=16, h=8):
    """Baseline grey JPEG (every 8x8 block: DC difference 0, end-of-block)."""
    out = bytearray(b"\xff\xd8")
    out += b"\xff\xe0" + struct.pack(">H", 16) + b"JFIF\x00\x01\x01\x00\x00\x01\x00\x01\x00\x00"
    out += b"\xff\xdb" + struct.pack(">H", 67) + b"\x00" + bytes([1] * 64)
    out += b"\xff\xc0" + struct.pack(">HBHHB", 11, 8, h, w, 1) + bytes([1, 0x11, 0])
    for tc in (0x00, 0x10):
        out += b"\xff\xc4" + struct.pack(">H", 20) + bytes([tc, 1] + [0] * 15 + [0])
    out += b"\xff\xda" + struct.pack(">HB", 8, 1) + bytes([1, 0x00]) + b"\x00\x3f\x00"
    nbits = 2 * ((w + 7) // 8) * ((h + 7) // 8)
    bits = "0" * nbits + "1" * (-nbits % 8)
    out += bytes(int(bits[i:i + 8], 2) for i in range(0, len(bits), 8)).replace(b"\xff", b"\xff\x00")
    out += b"\xff\xd9"
    return bytes(out)


JPEG = make_jpeg()


def _p(tok):
    return ["p", [["t", tok]]]


def adm_unit(kind, tk, body, ident):
    """ADM blocks of one page / slide; appends the unit's body tokens to `body`."""
    if kind == "text":
        t = tk.new("B"); body.append(t)
        return [_p(t)]
    if kind == "titled":
        h = tk.new("H"); t = tk.new("B"); body += [h, t]
        return [["h", 1, [["t", h]]], _p(t)]
    if kind == "empty":
        return []
    if kind == "ws":
        return [_p("   ")]
    if kind == "img":
        return [["img", "k"]]
    if kind == "tbl":
        c = [tk.new("C") for _ in range(4)]; body += c
        return [["tbl", [[[_p(c[0])], [_p(c[1])]], [[_p(c[2])], [_p(c[3])]]]]]
    raise ValueError(kind)


def sheet_unit(kind, tk, body, ident):
    name = tk.new("N"); ident.append(name)
    if kind == "text":
        c = tk.new("C"); body.append(c)
        return ["sheet", name, [[["s", c]]]]
    if kind in ("empty", "img"):
        return ["sheet", name, []]
    if kind == "ws":
        return ["sheet", name, [[["s", "  "]]]]
    if kind == "tbl":
        c = [tk.new("C") for _ in range(4)]; body += c
        return ["sheet", name, [[["s", c[0]], ["s", c[1]]], [["s", c[2]], ["s", c[3]]]]]
    raise ValueError(kind)


def xhtml_body(kind, tk, body, ident, img_src="k.jpg"):
    if kind == "text":
        t = tk.new("B"); body.append(t)
        return f"<p>{t}</p>"
    if kind == "empty":
        return ""
    if kind == "ws":
        return "<p>   </p>"
    if kind == "img":
        return f'<p><img src="{img_src}" alt="{tk.new("Z")}"/></p>'
    if kind == "tbl":
        c = [tk.new("C") for _ in range(4)]; body += c
        return f"<table><tr><td>{c[0]}</td><td>{c[1]}</td></tr><tr><td>{c[2]}</td><td>{c[3]}</td></tr></table>"
    raise ValueError(kind)


def open_document(kind, tk, soft, ctype):
    """Content document of an open kind (see OPEN_KINDS), in the XHTML or the HTML spelling of the document frame."""
    markup, complete = OPEN_KINDS[kind]
    in_head = markup.startswith("head:")
    markup = markup[5:] if in_head else markup
    toks = [tk.new("S") for _ in range(3 if "{2}" in markup else 2 if "{1}" in markup else 1)]
    soft += toks
    frame = "<!DOCTYPE html><html><head>" if ctype == "html" else '<?xml version="1.0" encoding="utf-8"?><html xmlns="http://www.w3.org/1999/xhtml"><head>'
    doc = frame + (markup.format(*toks) if in_head else "<title></title></head><body>" + markup.format(*toks))
    return doc + ("</body></html>" if complete else "")


def build_epub(kinds, tk, truth, opts=None):
    """EPUB 3 package written from the specification: one spine item per kind (XHTML content documents; "svg" = an SVG
    content document, which EPUB 3 allows in the spine and the library documents as not being a chapter). opts["ctype"] = "html":
    every content document is an .html item of media type text/html in the HTML spelling (EPUB 2 out-of-spec, but a spelling
    the library accepts as a chapter); open kinds: see OPEN_KINDS."""
    from verif.gen import htmlfam
    items, spine, files = [], [], {}
    ctype = (opts or {}).get("ctype", "xhtml")
    ext, mt = ("html", "text/html") if ctype == "html" else ("xhtml", "application/xhtml+xml")
    for i, k in enumerate(kinds, 1):
        body, ident = [], []
        if k in OPEN_KINDS or ctype == "html":
            soft = []
            if k in OPEN_KINDS:
                files[f"OEBPS/ch{i}.{ext}"] = open_document(k, tk, soft, ctype)
            else:
                files[f"OEBPS/ch{i}.{ext}"] = htmlfam.html_page(xhtml_body(k, tk, body, ident), "")
            items.append(f'<item id="it{i}" href="ch{i}.{ext}" media-type="{mt}"/>')
            spine.append(f'<itemref idref="it{i}"/>')
            truth.append({"body": body, "ident": ident, "soft": soft, "kind": k})
            continue
        if k == "svg":
            z = tk.new("Z")
            files[f"OEBPS/v{i}.svg"] = f'<svg xmlns="http://www.w3.org/2000/svg" viewBox="0 0 10 10"><text x="1" y="5">{z}</text></svg>'
            items.append(f'<item id="it{i}" href="v{i}.svg" media-type="image/svg+xml"/>')
        else:
            files[f"OEBPS/ch{i}.xhtml"] = htmlfam.xhtml_page(xhtml_body(k, tk, body, ident), "")
            items.append(f'<item id="it{i}" href="ch{i}.xhtml" media-type="application/xhtml+xml"/>')
        spine.append(f'<itemref idref="it{i}"/>')
        truth.append({"body": body, "ident": ident, "kind": k})
    if "img" in kinds:
        items.append('<item id="img1" href="k.jpg" media-type="image/jpeg"/>')
        files["OEBPS/k.jpg"] = JPEG
    opf = ('<?xml version="1.0" encoding="utf-8"?><package xmlns="http://www.idpf.org/2007/opf" version="3.0" unique-identifier="id">'
           '<metadata xmlns:dc="http://purl.org/dc/elements/1.1/"><dc:identifier id="id">urn:verif:c03</dc:identifier>'
           '<dc:title>Zttttt</dc:title><dc:language>en</dc:language></metadata>'
           f'<manifest>{"".join(items)}</manifest><spine>{"".join(spine)}</spine></package>')
    bio = io.BytesIO()
    with zipfile.ZipFile(bio, "w") as z:
        z.writestr(zipfile.ZipInfo("mimetype"), "application/epub+zip", compress_type=zipfile.ZIP_STORED)
        z.writestr(zipfile.ZipInfo("META-INF/container.xml"), htmlfam.CONTAINER_XML, compress_type=zipfile.ZIP_DEFLATED)
        z.writestr(zipfile.ZipInfo("OEBPS/content.opf"), opf, compress_type=zipfile.ZIP_DEFLATED)
        for path, data in files.items():
            z.writestr(zipfile.ZipInfo(path), data, compress_type=zipfile.ZIP_DEFLATED)
    return bio.getvalue()


def mail_spec(kind, tk, body, ident, i):
    from verif.gen import mail
    base = {"charset": "us-ascii", "cte": "7bit", "subject": ["ascii", tk.new("Z")], "message_id": f"<c03.{i}@verif.example>"}
    if kind == "text":
        t = tk.new("B"); body.append(t)
        return dict(base, structure="plain", body_plain=t + "\n")
    if kind == "empty":
        return dict(base, structure="plain", body_plain="")
    if kind == "ws":
        return dict(base, structure="plain", body_plain="  \n")
    if kind == "img":
        return dict(base, structure="related-html-img", body_html=f'<html><body><img src="cid:{mail.INLINE_CID}"></body></html>\n')
    if kind == "tbl":
        return dict(base, structure="html", body_html="<html><body>" + xhtml_body("tbl", tk, body, ident) + "</body></html>\n")
    raise ValueError(kind)


def render_vec(fmt, case, seed):
    """-> (bytes, truth) ; truth = list per source unit of {"body": [...], "ident": [...], "kind": k}."""
    tk = Tokens(seed)
    kinds, opts = case["kinds"], dict(case.get("opts") or {})
    truth = []
    if fmt == "epub":
        return build_epub(kinds, tk, truth, opts), truth
    if fmt in ("mbox", "eml"):
        from verif.gen import mail
        specs = []
        for i, k in enumerate(kinds):
            body, ident = [], []
            specs.append(mail_spec(k, tk, body, ident, i))
            truth.append({"body": body, "ident": ident, "kind": k})
        return (mail.eml(specs[0]) if fmt == "eml" else mail.mbox(specs, opts)), truth
    if fmt in ("html", "mhtml"):
        from verif.gen import htmlfam
        body, ident = [], []
        page = htmlfam.html_page(xhtml_body(kinds[0], tk, body, ident, img_src="http://h/k.jpg"), "")
        truth.append({"body": body, "ident": ident, "kind": kinds[0]})
        if fmt == "html":
            return page.encode("utf-8"), truth
        extra = [("image/jpeg", "http://h/k.jpg", JPEG)] if kinds[0] == "img" else None
        return htmlfam.mhtml(page, opts.get("encoding", "quoted-printable"), extra), truth
    if fmt in SHEET_FORMATS:
        sheets = []
        for k in kinds:
            body, ident = [], []
            sheets.append(sheet_unit(k, tk, body, ident))
            truth.append({"body": body, "ident": ident, "kind": k})
        doc = ["doc", {}, sheets]
        imgs = [i for i, k in enumerate(kinds) if k == "img"]
        if fmt == "xlsx":
            from verif.gen import ooxml
            if imgs:
                opts["sheet_images"] = {i: ["k"] for i in imgs}
            return ooxml.xlsx(doc, {"k": (JPEG, "jpeg")}, opts), truth
        if fmt == "ods":
            from verif.gen import odf
            if imgs:
                opts["images_at"] = [[i, "k"] for i in imgs]
            return odf.ods(doc, {"k": (JPEG, "jpeg")}, opts), truth
        from verif.gen import biff8
        if imgs:
            opts["pictures"] = [[i, "k"] for i in imgs]
        return biff8.xls(doc, {"k": JPEG}, opts), truth
    units = []
    for k in kinds:
        body, ident = [], []
        units.append(["unit", adm_unit(k, tk, body, ident), {}])
        truth.append({"body": body, "ident": ident, "kind": k})
    doc = ["doc", {}, units]
    images = {"k": (JPEG, "jpeg")}
    if fmt == "pdf":
        from verif.gen import pdfw
        return pdfw.pdf(doc, images, opts), truth
    if fmt == "pptx":
        from verif.gen import ooxml
        if opts.get("alt"):
            opts["alt"] = {"k": "alt " + tk.new("Z")}
        return ooxml.pptx(doc, images, opts), truth
    if fmt in ("odp", "odg", "odf"):
        from verif.gen import odf
        return getattr(odf, fmt)(doc, images, opts), truth
    if fmt == "ppt":
        from verif.gen import pptbin
        return pptbin.ppt(doc, {"k": JPEG}, opts), truth
    if fmt == "rtf":
        from verif.gen import rtf
        return rtf.rtf(doc, images, opts), truth
    if fmt in ("txt", "md"):
        from verif.gen import plain
        return getattr(plain, fmt)(doc, opts), truth
    raise ValueError(fmt)


def grid_desc(grid):
    return "/".join(",".join("C" if x == "C" else repr(x[1]) for x in row) for row in grid) or "empty"


def render_cells(fmt, case, seed):
    """-> (bytes, truth); truth as in render_vec plus "typed": [(ADM cell, row, column)] per sheet."""
    tk = Tokens(seed)
    opts = dict(case.get("opts") or {})
    sheets, truth = [], []
    for grid in case["sheets"]:
        name = tk.new("N")
        body, typed, rows = [], [], []
        for r, row in enumerate(grid):
            out = []
            for c, x in enumerate(row):
                if x == "C":
                    t = tk.new("C"); body.append(t)
                    out.append(["s", t])
                else:
                    cell_class(x)
                    typed.append((list(x), r, c))
                    out.append(list(x))
            rows.append(out)
        sheets.append(["sheet", name, rows])
        truth.append({"body": body, "ident": [name], "kind": grid_desc(grid), "typed": typed})
    doc = ["doc", {}, sheets]
    if fmt == "xlsx":
        from verif.gen import ooxml
        return ooxml.xlsx(doc, {}, opts), truth
    if fmt == "ods":
        from verif.gen import odf
        return odf.ods(doc, {}, opts), truth
    if fmt == "xls":
        from verif.gen import biff8
        return biff8.xls(doc, {}, opts), truth
    raise ValueError(fmt)


def render_head(fmt, case, seed):
    """-> (bytes, sections); sections[0] is the preamble (heading None); every section = {"h": tok|None, "level": n,
    "body": [tokens], "present": bool}."""
    tk = Tokens(seed)
    blocks = []
    secs = [{"h": None, "level": 0, "body": [], "present": bool(case["pre"])}]
    if case["pre"]:
        t = tk.new("B"); secs[0]["body"].append(t); blocks.append(_p(t))
    for lv, b in case["secs"]:
        h = tk.new("H")
        s = {"h": h, "level": lv, "body": [], "present": True}
        blocks.append(["h", lv, [["t", h]]])
        for part in {"t": "t", "e": "", "pb": "|", "pt": "|t", "tp": "t|", "tbl": "T"}[b]:
            if part == "t":
                t = tk.new("B"); s["body"].append(t); blocks.append(_p(t))
            elif part == "|":
                blocks.append(["pb"])
            else:
                c = [tk.new("C"), tk.new("C")]; s["body"] += c
                blocks.append(["tbl", [[[_p(c[0])], [_p(c[1])]]]])
        secs.append(s)
    doc = ["doc", {}, [["unit", blocks, {}]]]
    if fmt == "docx":
        from verif.gen import ooxml
        return ooxml.docx(doc), secs
    from verif.gen import odf
    return odf.odt(doc), secs


# ------------------------------------------------------------------------------------------------------------ observation

_EXT = {"mhtml": "mhtml", "eml": "eml", "mbox": "mbox"}


def extract(fmt, data):
    from sharepoint2text.parsing.router import get_extractor
    name = "c03." + _EXT.get(fmt, fmt)
    return list(get_extractor(name)(io.BytesIO(data), name))


def _strs(x, out):
    if isinstance(x, str):
        out.append(x)
    elif isinstance(x, (list, tuple)):
        for y in x:
            _strs(y, out)


_OPT_NAMES: dict = {}
MAX_ACCESSOR_OPTIONS = 3


def accessor_options(r):
    """Names of the boolean keyword options that get_full_text() and iterate_units() of this content class share."""
    cls = type(r)
    if cls not in _OPT_NAMES:
        try:
            a = inspect.signature(cls.get_full_text).parameters
            b = inspect.signature(cls.iterate_units).parameters
            names = [n for n, p_ in a.items() if n != "self" and isinstance(p_.default, bool) and n in b and isinstance(b[n].default, bool)]
        except (TypeError, ValueError):
            names = []
        _OPT_NAMES[cls] = names[:MAX_ACCESSOR_OPTIONS]
    return _OPT_NAMES[cls]


def option_walk(r):
    """The join equation under the accessor options, asked of ONE content object (so that an answer kept from an earlier call
    shows): every assignment of the shared boolean options, forwards and then backwards, and the plain call last.
    -> [(options, get_full_text(**options), [unit texts of iterate_units(**options)])]; empty for classes without options."""
    names = accessor_options(r)
    if not names:
        return []
    assigns = [dict(zip(names, v)) for v in itertools.product([False, True], repeat=len(names))]
    out = []
    for o in assigns + assigns[::-1] + [{}]:
        full = r.get_full_text(**o)
        out.append((o, full, [u.get_text() for u in r.iterate_units(**o)]))
    return out


def observe(results):
    """-> list (per result) of {"cls", "full", "units": [{"num", "text", "toks": set, "path": set}], "walk": option_walk}"""
    obs = []
    for r in results:
        us = []
        for u in r.iterate_units():
            text = u.get_text()
            md = u.get_metadata()
            toks = set(find_tokens(text if isinstance(text, str) else ""))
            cells = []
            for t in u.get_tables():
                for row in t.get_table():
                    for c in row:
                        if c is not None:
                            toks.update(find_tokens(str(c)))
                            cells.append(c)
            meta = []
            for a in ("heading_path", "location", "title", "sheet_name"):
                _strs(getattr(md, a, None), meta)
            path = set()
            for s in meta:
                path.update(find_tokens(s))
            us.append({"num": getattr(md, "unit_number", None), "text": text, "toks": toks, "path": path, "cells": cells})
        obs.append({"cls": type(r).__name__, "full": r.get_full_text(), "units": us, "walk": option_walk(r)})
    return obs


def _is_int(x):
    return isinstance(x, int) and not isinstance(x, bool)


def check_join(o, fails, where=""):
    texts = [u["text"] for u in o["units"]]
    if not all(isinstance(t, str) for t in texts) or not isinstance(o["full"], str):
        fails.append(("join", f"{where}unit text / full text is not a str"))
        return False
    exp = "\n".join(texts).strip()
    if o["full"] != exp:
        fails.append(("join", f"{where}get_full_text() {o['full']!r} != trimmed newline-join of the unit texts {exp!r}"))
        return False
    asked = ["get_full_text()"]
    for opts, full, utexts in o.get("walk") or []:
        call = "get_full_text(%s)" % ", ".join(f"{k}={v}" for k, v in opts.items())
        asked.append(call)
        if not isinstance(full, str) or not all(isinstance(t, str) for t in utexts):
            fails.append(("join:options", f"{where}{call}: unit text / full text is not a str"))
            return False
        exp = "\n".join(utexts).strip()
        if full != exp:
            fails.append(("join:options" if opts else "join", f"{where}call {len(asked)} on one content object ({' ; '.join(asked)}): {call} {full!r} != trimmed newline-join "
                                                              f"of the unit texts of iterate_units({call[14:-1]}) {exp!r}"))
            return False
    return True


def check_numbers_basic(nums, fails, where=""):
    if not all(_is_int(n) and n >= 1 for n in nums):
        fails.append(("number:invalid", f"{where}unit numbers {nums} are not all ints >= 1"))
        return False
    if any(b <= a for a, b in zip(nums, nums[1:])):
        fails.append(("number:repeat", f"{where}unit numbers {nums} are not strictly increasing (repeat or disorder)"))
        return False
    return True


# --------------------------------------------------------------------------------------------------------------- oracles

def evaluate_vec(fmt, case, seed):
    try:
        data, truth = render_vec(fmt, case, seed)
    except NotImplementedError:
        return None, None          # not expressible by the reference writer
    return judge_vec(fmt, case["kinds"], truth, data)


def judge_vec(fmt, kinds, truth, data, extra=None):
    """The oracle of the (vec) / (single) / (cells) parts. `extra(units, fails)` adds the clauses of a part that has more ground
    truth than tokens (it sees the units after the count clause was judged)."""
    n = len(kinds)
    try:
        obs = observe(extract(fmt, data))
    except Exception as e:  # noqa
        return [("raises", f"{type(e).__name__}: {str(e)[:300]} on a valid {fmt} with units {kinds}")], "raises:" + type(e).__name__
    fails = []
    owner = {}
    for i, t in enumerate(truth):
        for tok in t["body"] + t["ident"] + t.get("soft", []):
            owner[tok] = i
    body_toks = [tok for t in truth for tok in t["body"]]
    # text that must not be returned in two units or in a unit of another source unit: the body text plus the "soft" text of
    # tag-soup units (which is not demanded, see OPEN_KINDS)
    excl_toks = body_toks + [tok for t in truth for tok in t.get("soft", [])]
    if fmt == "mbox":
        # one result per message, each with one unit numbered 1 (README table)
        units = []
        if len(obs) != n:
            fails.append(("count:missing" if len(obs) < n else "count:extra", f"{n} messages {kinds} -> {len(obs)} results"))
        for ri, o in enumerate(obs):
            if len(o["units"]) != 1:
                fails.append(("count:missing" if not o["units"] else "count:extra", f"result {ri + 1} of the mailbox has {len(o['units'])} units, expected 1"))
            nums = [u["num"] for u in o["units"]]
            if check_numbers_basic(nums, fails, f"result {ri + 1}: ") and len(nums) == 1 and nums != [1]:
                fails.append(("number:position", f"result {ri + 1}: the only unit of a message is numbered {nums}"))
            check_join(o, fails, f"result {ri + 1}: ")
            merged = {"num": ri + 1, "toks": set(), "path": set(), "text": ""}
            for u in o["units"]:
                merged["toks"] |= u["toks"] | u["path"]
            units.append(merged)
        nums_for_identity = False
    else:
        if len(obs) != 1:
            fails.append(("count:missing" if not obs else "count:extra", f"{len(obs)} results for one {fmt} document"))
        units = [dict(u, toks=u["toks"] | u["path"]) for o in obs for u in o["units"]]
        xh = [i for i, k in enumerate(kinds) if k != "svg"]
        ok_counts = {n, len(xh)}
        if fmt == "rtf" and n == 1 and not truth[0]["body"]:
            ok_counts.add(0)       # no explicit page and no text: flowing document without content, "no unit" is not judged
        if len(units) not in ok_counts:
            fails.append(("count:missing" if len(units) < min(ok_counts) else "count:extra", f"{n} source units {kinds} -> {len(units)} units (texts {[u['text'] for u in units]})"))
        nums = [u["num"] for u in units]
        nums_ok = check_numbers_basic(nums, fails)
        if nums_ok and len(units) in ok_counts and "svg" not in kinds and nums != list(range(1, len(units) + 1)):
            fails.append(("number:position", f"{n} source units {kinds} -> unit numbers {nums}, expected 1..{len(units)}"))
        nums_for_identity = nums_ok
        if fmt in JOIN_FORMATS:
            for o in obs:
                check_join(o, fails)
    # cover / order / identity
    src_of = []
    for u in units:
        src_of.append(sorted({owner[t] for t in u["toks"] if t in owner}))
    for tok in body_toks:
        holders = [k for k, u in enumerate(units) if tok in u["toks"]]
        if not holders:
            fails.append(("cover:lost", f"text of source unit {owner[tok] + 1} ({kinds[owner[tok]]}) is in no unit; units {[u['text'] for u in units]}"))
            break
    for tok in excl_toks:
        holders = [k for k, u in enumerate(units) if tok in u["toks"]]
        if len(holders) > 1:
            fails.append(("cover:dup", f"text of source unit {owner[tok] + 1} is returned in {len(holders)} units (positions {[h + 1 for h in holders]})"))
            break
    n_holders = {tok: sum(1 for u in units if tok in u["toks"]) for tok in excl_toks}
    for k, s in enumerate(src_of):
        # text returned twice is reported as cover:dup; 'mixed' is judged on the text that has exactly one holder
        bs = sorted({owner[t] for t in units[k]["toks"] if n_holders.get(t) == 1})
        if len(bs) > 1:
            fails.append(("cover:mixed", f"unit {k + 1} (number {units[k]['num']}) mixes the text of source units {[b + 1 for b in bs]} of {kinds}"))
            break
    firsts = [s[0] for s in src_of if s]
    if any(b < a for a, b in zip(firsts, firsts[1:])):
        fails.append(("order", f"units are not in source order: source units per unit {[[x + 1 for x in s] for s in src_of]}"))
    if nums_for_identity:
        xh_pos = {i: j + 1 for j, i in enumerate(i for i, k in enumerate(kinds) if k != "svg")}
        for k, s in enumerate(src_of):
            if len(s) == 1:
                ok = {s[0] + 1, xh_pos.get(s[0])} if "svg" in kinds else {s[0] + 1}
                if units[k]["num"] not in ok:
                    fails.append(("number:position", f"the unit holding source unit {s[0] + 1} of {kinds} is numbered {units[k]['num']}"))
                    break
    if extra is not None:
        extra(units, fails)
    outcome = (len(obs), tuple(u["num"] for u in units), tuple(tuple(s) for s in src_of), tuple(sorted({c for c, _ in fails})))
    return _dedup(fails), str(outcome)


_NUM_RX = re.compile(r"^[+-]?(\d+(\.\d*)?|\.\d+)([eE][+-]?\d+)?$")


def shows(cls, item):
    """Does a returned table cell / a word of the unit text show a typed value of class `cls`? (wide on purpose)"""
    kind, v = cls
    if kind == "num":
        if isinstance(item, bool):
            return False
        if isinstance(item, (int, float)):
            return float(item) == v
        return isinstance(item, str) and _NUM_RX.match(item.strip()) is not None and float(item.strip()) == v
    if kind == "bool":
        if isinstance(item, bool):
            return item == v
        return isinstance(item, str) and item.strip().lower() == ("true" if v else "false")
    if kind == "date":
        import datetime as _dt
        if isinstance(item, _dt.datetime):
            return item.tzinfo is None and item == _dt.datetime.fromisoformat(v)
        if isinstance(item, _dt.date):
            return item.isoformat() == v
        return isinstance(item, str) and item.strip() in (v, v + "T00:00:00", v + " 00:00:00")
    raise ValueError(cls)


def unit_items(u):
    return list(u.get("cells") or []) + (u["text"].split() if isinstance(u["text"], str) else [])


def judge_typed(truth, units, fails):
    """cover:lost / cover:mixed for typed cell values (unit i <-> sheet i; only judged when the count is right)."""
    if len(units) != len(truth):
        return
    items = [unit_items(u) for u in units]
    have = [{cell_class(cell): (cell, r, c) for cell, r, c in t["typed"]} for t in truth]
    kinds = [t["kind"] for t in truth]
    for i, h in enumerate(have):
        lost = [(cell, r, c) for cls, (cell, r, c) in h.items() if not any(shows(cls, it) for it in items[i])]
        if lost:
            cell, r, c = lost[0]
            fails.append(("cover:lost", f"the value {cell[1]!r} ({cell[0]}) of cell (row {r + 1}, column {c + 1}) of source unit {i + 1} (sheet {kinds[i]}) of {kinds} "
                                        f"is shown by no table cell and no word of the text of its unit: text {units[i]['text']!r}, table cells {units[i].get('cells')!r}"))
            break
    everywhere = {}
    for i, h in enumerate(have):
        for cls, (cell, _, _) in h.items():
            everywhere.setdefault(cls, (cell, i))
    for i, h in enumerate(have):
        foreign = [(cell, j) for cls, (cell, j) in everywhere.items() if cls not in h and any(shows(cls, it) for it in items[i])]
        if foreign:
            cell, j = foreign[0]
            fails.append(("cover:mixed", f"unit {i + 1} (number {units[i]['num']}, sheet {kinds[i]}) shows the value {cell[1]!r} ({cell[0]}), which only source unit {j + 1} "
                                         f"of {kinds} holds: text {units[i]['text']!r}, table cells {units[i].get('cells')!r}"))
            break


def evaluate_cells(fmt, case, seed):
    data, truth = render_cells(fmt, case, seed)
    return judge_vec(fmt, [t["kind"] for t in truth], truth, data, extra=lambda units, fails: judge_typed(truth, units, fails))


def _dedup(fails):
    seen, out = set(), []
    for c, m in fails:
        if c not in seen:
            seen.add(c)
            out.append((c, m))
    return out


def evaluate_head(fmt, case, seed):
    data, secs = render_head(fmt, case, seed)
    try:
        obs = observe(extract(fmt, data))
    except Exception as e:  # noqa
        return [("raises", f"{type(e).__name__}: {str(e)[:300]} on a valid {fmt} with heading structure {case}")], "raises:" + type(e).__name__
    fails = []
    if len(obs) != 1:
        fails.append(("count:missing" if not obs else "count:extra", f"{len(obs)} results for one {fmt} document"))
    units = [u for o in obs for u in o["units"]]
    nums = [u["num"] for u in units]
    present = [i for i, s in enumerate(secs) if s["present"]]
    nonempty = [i for i in present if secs[i]["body"]]
    hsecs = [i for i in present if i > 0]
    lo_units = max(1, len([i for i in hsecs if secs[i]["body"]]))
    shape = [(s["level"], len(s["body"])) for s in secs if s["present"]]
    desc = f"sections (level, #body pieces; level 0 = preamble) {shape}"
    if len(units) == 0:
        fails.append(("count:none", f"no unit at all for a document with {desc}; full text {obs[0]['full'] if obs else None!r}"))
    elif len(units) != 1 and not (lo_units <= len(units) <= len(present)):
        fails.append(("count:missing" if len(units) < lo_units else "count:extra", f"{len(units)} units for {desc}: neither one unit nor one per heading section"))
    if check_numbers_basic(nums, fails) and nums and nums != list(range(1, len(nums) + 1)):
        fails.append(("number:position", f"unit numbers {nums} are not the 1-based positions 1..{len(nums)}"))
    owner = {}
    for i, s in enumerate(secs):
        for t in s["body"]:
            owner[t] = i
    hsec = {s["h"]: i for i, s in enumerate(secs) if s["h"]}
    # descendants: section j is nested below i when every section i+1..j has a deeper level than i
    def below(i, j):
        return i == j or (i < j and i > 0 and all(secs[x]["level"] > secs[i]["level"] for x in range(i + 1, j + 1)))
    body_in = [sorted({owner[t] for t in u["toks"] if t in owner}) for u in units]
    if True:
        for tok, i in owner.items():
            holders = [k for k, u in enumerate(units) if tok in u["toks"]]
            if not holders:
                fails.append(("cover:lost", f"body text of section {i} ({'preamble' if i == 0 else 'level %d' % secs[i]['level']}) is in no unit; {desc}; units {[(u['text'], sorted(u['path'])) for u in units]}"))
                break
        for tok, i in owner.items():
            holders = [k for k, u in enumerate(units) if tok in u["toks"]]
            if len(holders) > 1:
                fails.append(("cover:dup", f"body text of section {i} is returned in units {[h + 1 for h in holders]}; {desc}"))
                break
    if len(units) > 1:
        n_holders = {tok: sum(1 for u in units if tok in u["toks"]) for tok in owner}
        for k, u in enumerate(units):
            s = sorted({owner[t] for t in u["toks"] if n_holders.get(t) == 1})
            if len(s) > 1:
                fails.append(("cover:mixed", f"unit {k + 1} mixes the body text of sections {s}; {desc}"))
                break
        for i in nonempty:
            hs = [k for k, s in enumerate(body_in) if i in s]
            if len(hs) > 1:
                fails.append(("cover:spread", f"the body text of section {i} is spread over units {[h + 1 for h in hs]}; {desc}"))
                break
        for k, s in enumerate(body_in):
            if len(s) == 1 and s[0] > 0:
                h = secs[s[0]]["h"]
                if h not in units[k]["path"] and h not in find_tokens(units[k]["text"] or ""):
                    fails.append(("cover:path", f"unit {k + 1} holds the body of section {s[0]} but neither its heading path {sorted(units[k]['path'])} nor its text names that section's heading; {desc}"))
                    break
        firsts = [s[0] for s in body_in if s]
        if any(b < a for a, b in zip(firsts, firsts[1:])):
            fails.append(("order", f"units are not in source order: sections per unit {body_in}; {desc}"))
    if True:
        for h, i in hsec.items():
            holders = [k for k, u in enumerate(units) if h in u["path"] or h in find_tokens(u["text"] or "")]
            if not holders:
                fails.append(("cover-heading:lost", f"heading text of section {i} (level {secs[i]['level']}) is in no unit's text or heading path; {desc}; units {[(u['text'], sorted(u['path'])) for u in units]}"))
                break
        if len(units) > 1:
            for h, i in hsec.items():
                bad = [k for k, u in enumerate(units) if h in u["path"] and len(body_in[k]) == 1 and not below(i, body_in[k][0])]
                if bad:
                    fails.append(("cover-heading:misplaced", f"heading of section {i} is in the heading path of unit {bad[0] + 1}, which holds section {body_in[bad[0]]} (not that section or one nested below it); {desc}"))
                    break
    outcome = (len(units), tuple(nums), tuple(tuple(s) for s in body_in), tuple(sorted({c for c, _ in fails})))
    return _dedup(fails), str(outcome)


def evaluate_fixture(case):
    import sharepoint2text
    path = os.path.join(RES_DIR, case["file"])
    try:
        results = list(sharepoint2text.read_file(path))
        obs = observe(results)
    except Exception as e:  # noqa  (encrypted / unsupported fixtures exist on purpose; failure surface is C01's business)
        return [], "error:" + type(e).__name__
    fails = []
    for ri, o in enumerate(obs):
        where = f"{case['file']} result {ri + 1} ({o['cls']}): "
        check_numbers_basic([u["num"] for u in o["units"]], fails, where)
        if o["cls"] in JOIN_CLASSES:
            check_join(o, fails, where)
    classes = ",".join(sorted({o["cls"] for o in obs}))
    return _dedup(fails), f"{classes}:{'ok' if not fails else ','.join(sorted({c for c, _ in fails}))}"


def evaluate(fmt, case, seed=0):
    if "file" in case:
        return evaluate_fixture(case)
    if "secs" in case:
        return evaluate_head(fmt, case, seed)
    if "sheets" in case:
        return evaluate_cells(fmt, case, seed)
    return evaluate_vec(fmt, case, seed)


_RX_CACHE: dict = {}
_RX_LAST = [None]


def describe(fmt, case, seed=0):
    """Written-out observation of one case for the evidence samples: [(result index, unit number, text, heading path)]."""
    try:
        if "file" in case:
            import sharepoint2text
            obs = observe(list(sharepoint2text.read_file(os.path.join(RES_DIR, case["file"]))))
        else:
            data = (render_head if "secs" in case else render_cells if "sheets" in case else render_vec)(fmt, case, seed)[0]
            obs = observe(extract(fmt, data))
        return [[ri + 1, u["num"], (u["text"] or "")[:80], sorted(u["path"])] for ri, o in enumerate(obs) for u in o["units"]][:8]
    except Exception as e:  # noqa
        return f"{type(e).__name__}: {e}"[:200]


def reexec(fmt, case):
    """Deterministic re-execution of one case. Results are memoised for the shrinker (thousands of failing cases shrink
    through the same small cases); asking for the same case twice in a row always executes it again, so the triage's
    'replay twice' check still runs the real code."""
    key = fmt + "|" + json.dumps(case, sort_keys=True)
    if key in _RX_CACHE and _RX_LAST[0] != key:
        _RX_LAST[0] = key
        return _RX_CACHE[key]
    _RX_LAST[0] = key
    f, _ = evaluate(fmt, case, int(os.environ.get("VERIF_SEED", "0") or 0))
    _RX_CACHE[key] = f or []
    return _RX_CACHE[key]


# ------------------------------------------------------------------------------------------------------ shrinking / triage

def shrinks(case):
    if "file" in case:
        return
    if "secs" in case:
        secs = case["secs"]
        for i in range(len(secs)):
            if len(secs) > 1 or case["pre"]:          # stay inside the enumerated space (never the empty document)
                yield dict(case, secs=secs[:i] + secs[i + 1:])
        if case["pre"] and secs:
            yield dict(case, pre=0)
        for i, (lv, b) in enumerate(secs):
            for b2 in HEAD_BODIES:
                if BODY_RANK[b2] < BODY_RANK[b]:
                    yield dict(case, secs=secs[:i] + [[lv, b2]] + secs[i + 1:])
            if lv > 1:
                yield dict(case, secs=secs[:i] + [[lv - 1, b]] + secs[i + 1:])
        return
    if "sheets" in case:
        sheets, opts = case["sheets"], case.get("opts") or {}
        def with_sheet(i, g):
            return {"sheets": sheets[:i] + [g] + sheets[i + 1:], "opts": opts}
        for i in range(len(sheets)):
            if len(sheets) > 1:
                yield {"sheets": sheets[:i] + sheets[i + 1:], "opts": opts}
        for k in sorted(opts):
            yield {"sheets": sheets, "opts": {a: b for a, b in opts.items() if a != k}}
        for i, g in enumerate(sheets):
            if len(g) > 1:
                for r in range(len(g)):
                    yield with_sheet(i, g[:r] + g[r + 1:])
            if g and len(g[0]) > 1:
                for c in range(len(g[0])):
                    yield with_sheet(i, [row[:c] + row[c + 1:] for row in g])
            for r, row in enumerate(g):
                for c, x in enumerate(row):
                    if x != "C":
                        yield with_sheet(i, g[:r] + [row[:c] + ["C"] + row[c + 1:]] + g[r + 1:])
        return
    kinds, opts = case["kinds"], case.get("opts") or {}
    for i in range(len(kinds)):
        if len(kinds) > 1:                            # stay inside the enumerated space (the empty mailbox is swept directly)
            yield {"kinds": kinds[:i] + kinds[i + 1:], "opts": opts}
    for k in sorted(opts):
        yield {"kinds": kinds, "opts": {a: b for a, b in opts.items() if a != k}}
    for i, k in enumerate(kinds):
        for k2 in sorted(KIND_RANK, key=KIND_RANK.get):
            if KIND_RANK[k2] < KIND_RANK[k]:
                yield {"kinds": kinds[:i] + [k2] + kinds[i + 1:], "opts": opts}


def _subseq(small, big, eq=lambda a, b: a == b):
    it = iter(big)
    return all(any(eq(s, b) for b in it) for s in small)


def _grid_embeds(g, big):
    """g is what is left of `big` after deleting rows / columns and replacing typed cells by "C"."""
    if not g:
        return True
    if len(g) > len(big) or len(g[0]) > len(big[0]):
        return False
    for rows in itertools.combinations(range(len(big)), len(g)):
        for cols in itertools.combinations(range(len(big[0])), len(g[0])):
            if all(g[a][b] == "C" or g[a][b] == big[r][c] for a, r in enumerate(rows) for b, c in enumerate(cols)):
                return True
    return False


def embeds(small, big):
    if set(small) - {"opts"} != set(big) - {"opts"}:
        return False
    if "sheets" in small:
        so, bo = small.get("opts") or {}, big.get("opts") or {}
        if any(bo.get(k) != v for k, v in so.items()):
            return False
        return _subseq(small["sheets"], big["sheets"], _grid_embeds)
    if "file" in small:
        return small["file"] == big["file"]
    if "secs" in small:
        if small["pre"] > big["pre"]:
            return False
        return _subseq(small["secs"], big["secs"], lambda a, b: BODY_RANK[a[1]] <= BODY_RANK[b[1]] and a[0] <= b[0])
    so, bo = small.get("opts") or {}, big.get("opts") or {}
    if any(bo.get(k) != v for k, v in so.items()):
        return False
    return _subseq(small["kinds"], big["kinds"], lambda a, b: KIND_RANK[a] <= KIND_RANK[b])


# ------------------------------------------------------------------------------------------------------------------ run

def _part_cases(part, fmt, tier):
    if part == "vec":
        return vec_cases(fmt, tier)
    if part == "single":
        return single_cases(fmt)
    if part == "cells":
        return cells_cases(fmt, tier)
    if part == "head":
        return head_cases(tier)
    if part == "open":
        return open_cases(tier)
    if part == "fix":
        return ({"file": f} for f in fixture_files())
    raise ValueError(part)


def _work(arg):
    part, fmt, tier, k, n, seed = arg
    ev = skipped = 0
    fails, outcomes, samples = [], {}, []
    for i, case in enumerate(_part_cases(part, fmt, tier)):
        if i % n != k:
            continue
        label = "fixture" if part == "fix" else fmt
        try:
            f, oc = evaluate(label, case, seed)
        except Exception as e:  # noqa  harness-side problem of one case: keep it visible, never crash the sweep
            import traceback
            return {"error": f"case {case} fmt {fmt}: " + traceback.format_exc()[-1500:]}
        if f is None:
            skipped += 1
            continue
        ev += 1
        key = f"{label}:{oc}" if part != "fix" else f"fixture:{oc}"
        outcomes[key] = outcomes.get(key, 0) + 1
        for clause, msg in f:
            fails.append((clause, label, case, msg))
        if len(samples) < 1 and ev == 3:
            samples.append({"fmt": label, "case": case, "outcome": oc, "units (result, number, text, path)": describe(label, case, seed)})
    return {"ev": ev, "skipped": skipped, "fails": fails, "outcomes": outcomes, "samples": samples}


def run(ctx):
    tier = ctx.tier
    args = []
    for fmt in VEC_FORMATS:
        n = 4 if ctx.quick else 16
        args += [("vec", fmt, tier, k, n, ctx.seed) for k in range(n)]
    for fmt in SINGLE_KINDS:
        args.append(("single", fmt, tier, 0, 1, ctx.seed))
    for fmt in CELL_FORMATS:
        n = 4 if ctx.quick else 16
        args += [("cells", fmt, tier, k, n, ctx.seed) for k in range(n)]
    for fmt in HEAD_FORMATS:
        n = 8 if ctx.quick else 48
        args += [("head", fmt, tier, k, n, ctx.seed) for k in range(n)]
    n = 4 if ctx.quick else 16
    args += [("open", "epub", tier, k, n, ctx.seed) for k in range(n)]
    nfix = len(fixture_files())
    args += [("fix", "fixture", tier, k, 16, ctx.seed) for k in range(16)]
    random.Random(ctx.seed).shuffle(args)
    res = P.run_all("verif.props.C03", "_work", args, n=ctx.ncpu, hard_timeout=1500)
    ev = skipped = 0
    fails, outcomes, samples, herr = [], {}, [], []
    per = {}
    for (st, r, _), a in zip(res, args):
        if st != "done" or "error" in (r or {}):
            herr.append(f"partition {a[:5]} failed: {st}: {str(r)[-1200:]}")
            continue
        ev += r["ev"]
        skipped += r["skipped"]
        key = f"{a[0]}:{a[1]}"
        per[key] = per.get(key, 0) + r["ev"]
        fails += [tuple(x) for x in r["fails"]]
        for k_, v in r["outcomes"].items():
            outcomes[k_] = outcomes.get(k_, 0) + v
        samples += r["samples"]
    samples = sorted(samples, key=lambda s: (s["fmt"], str(s["case"])))
    pick = {}
    for s in samples:
        pick.setdefault(s["fmt"], s)
    samples = list(pick.values())[:6]
    nmax = 3 if ctx.quick else 4
    cov = {"evaluations": ev, "distinct_nontrivial": len(outcomes), "exhaustive": True,
           "rule": f"every unit-kind vector of length 1..{nmax} (mbox 0..{nmax}) over the kinds each writer can express x writer option variants, "
                   f"for {', '.join(VEC_FORMATS)}; every expressible kind for the one-unit formats {', '.join(SINGLE_KINDS)}; every heading "
                   f"structure of <= {nmax} sections over level 1..3 x body {HEAD_BODIES} (length 4: {HEAD_BODIES_LONG}) x preamble for docx, odt; "
                   f"(cells) for {', '.join(CELL_FORMATS)}: every full rectangle of the shapes (rows, columns, max typed cells) {CELL_SHAPES[tier]} over a token "
                   f"string + each of the value sets {CELL_VALUE_SETS[tier]} (each value at most once per sheet) and every workbook of "
                   f"{' / '.join(str(x) for x in CELL_VEC_LEN[tier])} sheets over the 8-sheet alphabet of each value set (xls also with RK integers); "
                   f"(open) epub: every chapter vector of length 2{' and [a, b, ordinary] of length 3' if ctx.quick else '..3'} over {OPEN_REGULAR + ([] if ctx.quick else ['empty'])} + the "
                   f"{len(OPEN_KINDS)} open kinds (content document ends inside an open construct) with at least one open kind x {OPEN_OPTS}; "
                   f"join clause asked for every assignment of the boolean accessor options shared by get_full_text / iterate_units on one object; "
                   f"all {nfix} repository fixtures (number / join clauses). distinct_nontrivial = distinct (format, #units, unit numbers, "
                   "source units per unit, failed clauses) outcomes",
           "per_part": dict(sorted(per.items())), "skipped_inexpressible": skipped, "samples": samples,
           "outcomes": dict(sorted(outcomes.items(), key=lambda kv: -kv[1])[:80]),
           "bounds": {"tier": tier, "max_units": nmax, "max_sections": nmax, "kinds": VEC_KINDS, "opts": VEC_OPTS,
                      "open": {"formats": ["epub"], "open_kinds": list(OPEN_KINDS), "ordinary_kinds": OPEN_REGULAR + ([] if ctx.quick else ["empty"]),
                               "lengths": [2, 3], "length_3_last_kind": "ordinary" if ctx.quick else "any", "opts": OPEN_OPTS},
                      "accessor_options": {"max_options": MAX_ACCESSOR_OPTIONS, "walk": "all assignments forwards, backwards, plain call"},
                      "cells": {"formats": CELL_FORMATS, "value_sets": CELL_VALUE_SETS[tier], "shapes_rows_cols_maxtyped": CELL_SHAPES[tier],
                                "workbook_lengths": list(CELL_VEC_LEN[tier]), "sheet_alphabet_of_first_value_set": cell_sheet_alphabet(CELL_VALUE_SETS[tier][0])}}}
    assumptions = [
        "mbox: one result per message, each with exactly one unit numbered 1 (README table); count / order are judged over results",
        "EPUB: an SVG (non-XHTML) spine item may or may not yield a unit and chapters may be numbered by spine position or by chapter "
        "ordinal (statement silent); invalid packages (missing items) are not generated",
        "EPUB (open) part: a spine item of an XHTML / HTML media type is a chapter (one unit) even when its markup is tag soup or truncated; the "
        "text of such a chapter is not demanded (the statement does not say how tag soup is read), only that it is returned in no other unit and "
        "not twice; the well-formed chapters of the same book are judged in full. text/html content documents are outside the EPUB "
        "specifications but accepted by the library as chapters",
        "accessor options: 'get_full_text() equals the join of the unit texts' is read with the same options on both sides "
        "(get_full_text(**o) vs iterate_units(**o)); only boolean keyword options that both accessors share are walked",
        "flowing formats (docx, odt): one unit for the whole document is always accepted; with several units the count may lie between the "
        "number of sections that have content and the number of sections (an empty section may or may not yield a unit)",
        "heading text may appear in the heading path of its own section's unit and of every section nested below it",
        "sheet names (class N) and slide titles are used to identify a unit but sheet names are not demanded in the text (xls documents "
        "that it omits them); images are not judged (xls documents workbook-level images)",
        "typed spreadsheet cells (numbers, booleans, dates) are body text of their sheet: the value must be shown by a table cell or a word of the text "
        "of the sheet's unit, in any of the spellings listed under cover in the module docstring (the type of the returned value is C13's business); "
        "units are matched to sheets by position, so these clauses are only judged when the unit count is right; gaps / ragged ranges are C13's space",
        "image-only, empty and whitespace-only units are identified by position only (number clause applies when the count is right)",
        "duplicates of a token inside one unit (e.g. pptx table text in get_text() and get_tables()) are C02's business, not judged here",
        "fixtures: only 'ints >= 1, strictly increasing' and the join equation are judged (no ground truth for their unit count); fixtures "
        "whose extraction raises are skipped (failure surface is C01)",
        "doc / msg have no writer: fixtures only",
    ]
    return {"coverage": cov, "failures": fails, "harness_errors": herr, "assumptions": assumptions}
