"""C01 helper: seed corpus G (one small generated document per format), fixture list F and the container views
(ZIP members, CFB streams, record lists, image segments) the container-aware mutation operators work on.

All G seeds are rendered with Tokens(0): C01 judges exception types and liveness only, never token text, and the
byte offsets enumerated by the mutation operators must not depend on VERIF_SEED (which only permutes the work order).
Everything is deterministic and cached per process.
"""
from __future__ import annotations

import io
import os
import struct
import zipfile

from verif.gen import biff8, cfb, htmlfam, mail, odf, ooxml, pdfw, plain, pptbin, rtf, sevenz, tarforge, zipforge
from verif.gen.tokens import Tokens
from verif.props import c01_pdfenc

FIXTURE_DIR = "/repo/sharepoint2text/tests/resources"

# the 21 registered extractor functions: key -> (registry key, file extension used as `path`)
EXTRACTORS = {
    "docx": "docx", "pptx": "pptx", "xlsx": "xlsx", "doc": "doc", "xls": "xls", "ppt": "ppt", "rtf": "rtf",
    "odt": "odt", "odp": "odp", "ods": "ods", "odg": "odg", "odf": "odf", "pdf": "pdf", "html": "html",
    "mhtml": "mhtml", "epub": "epub", "plain": "txt", "eml": "eml", "mbox": "mbox", "msg": "msg", "archive": "zip",
}
# file extension -> extractor key (own extractor of a seed / fixture)
EXT_TO = {
    "docx": "docx", "docm": "docx", "pptx": "pptx", "pptm": "pptx", "xlsx": "xlsx", "xlsm": "xlsx", "doc": "doc", "xls": "xls",
    "ppt": "ppt", "rtf": "rtf", "odt": "odt", "odp": "odp", "ods": "ods", "odg": "odg", "odf": "odf", "pdf": "pdf",
    "html": "html", "mhtml": "mhtml", "epub": "epub", "txt": "plain", "csv": "plain", "tsv": "plain", "md": "plain",
    "json": "plain", "eml": "eml", "mbox": "mbox", "msg": "msg", "zip": "archive", "tar": "archive", "gz": "archive", "7z": "archive",
}
# media types under which the library accepts an e-mail attachment (sharepoint2text.parsing.mime_types)
CTYPES = {
    "docx": "application/vnd.openxmlformats-officedocument.wordprocessingml.document",
    "pptx": "application/vnd.openxmlformats-officedocument.presentationml.presentation",
    "xlsx": "application/vnd.openxmlformats-officedocument.spreadsheetml.sheet",
    "xls": "application/vnd.ms-excel", "ppt": "application/vnd.ms-powerpoint", "rtf": "application/rtf",
    "odt": "application/vnd.oasis.opendocument.text", "odp": "application/vnd.oasis.opendocument.presentation",
    "ods": "application/vnd.oasis.opendocument.spreadsheet", "pdf": "application/pdf", "html": "text/html",
    "txt": "text/plain", "csv": "text/csv", "md": "text/markdown", "json": "application/json", "tsv": "text/tab-separated-values",
    "epub": "application/epub+zip", "zip": "application/zip", "odg": "application/vnd.oasis.opendocument.graphics",
    "odf": "application/vnd.oasis.opendocument.formula", "doc": "application/msword", "msg": "application/vnd.ms-outlook",
    "mbox": "application/mbox", "tar": "application/x-tar", "tar.gz": "application/gzip",
    "docm": "application/vnd.ms-word.document.macroEnabled.12", "xlsm": "application/vnd.ms-excel.sheet.macroEnabled.12",
    "pptm": "application/vnd.ms-powerpoint.presentation.macroEnabled.12",
}
# formats without a registered (or with a composite) media type travel under this one: attachments are routed by file name
CTYPE_FALLBACK = "application/pdf"

_CACHE: dict = {}


# ------------------------------------------------------------------------------------------------ small images
def tiny_jpeg() -> bytes:
    """3x2 greyscale baseline JPEG: SOI APP0 COM DQT SOF0 DHT DHT SOS data EOI (structurally complete)."""
    out = bytearray(b"\xff\xd8")
    out += b"\xff\xe0" + struct.pack(">H", 16) + b"JFIF\x00\x01\x01\x00\x00\x01\x00\x01\x00\x00"
    out += b"\xff\xfe" + struct.pack(">H", 2 + 9) + b"verif-c01"
    out += b"\xff\xdb" + struct.pack(">H", 67) + b"\x00" + bytes([2] * 64)
    out += b"\xff\xc0" + struct.pack(">HBHHB", 11, 8, 2, 3, 1) + bytes([1, 0x11, 0])
    for tc in (0x00, 0x10):
        out += b"\xff\xc4" + struct.pack(">H", 20) + bytes([tc, 1] + [0] * 15 + [0])
    out += b"\xff\xda" + struct.pack(">HB", 8, 1) + bytes([1, 0x00]) + b"\x00\x3f\x00"
    out += b"\x3f" + b"\xff\xd9"
    return bytes(out)


def tiny_png() -> bytes:
    import zlib

    def chunk(t, d):
        return struct.pack(">I", len(d)) + t + d + struct.pack(">I", zlib.crc32(t + d) & 0xFFFFFFFF)
    raw = (b"\x00" + b"\x40" * 3) * 2
    return (b"\x89PNG\r\n\x1a\n" + chunk(b"IHDR", struct.pack(">IIBBBBB", 3, 2, 8, 0, 0, 0, 0)) +
            chunk(b"tEXt", b"Comment\x00verif-c01") + chunk(b"IDAT", zlib.compress(raw, 9)) + chunk(b"IEND", b""))


def jpeg_segments(data: bytes, start: int = 0):
    """[(offset of the 2-byte length field, length)] of the marker segments of the JPEG starting at `start`."""
    out = []
    p = start + 2
    while p + 4 <= len(data) and data[p] == 0xFF:
        m = data[p + 1]
        if m == 0xD9:
            break
        if m == 0xD8 or 0xD0 <= m <= 0xD7 or m == 0x01:
            p += 2
            continue
        ln = struct.unpack_from(">H", data, p + 2)[0]
        out.append((p + 2, ln))
        if m == 0xDA:
            break
        p += 2 + ln
    return out


def png_chunks(data: bytes, start: int = 0):
    """[(offset of the 4-byte length field, length)] of the chunks of the PNG starting at `start`."""
    out = []
    p = start + 8
    while p + 8 <= len(data):
        ln = struct.unpack_from(">I", data, p)[0]
        out.append((p, ln))
        if data[p + 4:p + 8] == b"IEND":
            break
        p += 12 + ln
    return out


# ------------------------------------------------------------------------------------------------ ZIP view
def zip_members(data: bytes) -> list:
    """member dicts (zipforge vocabulary) of an honest ZIP file, in central directory order"""
    out = []
    with zipfile.ZipFile(io.BytesIO(data)) as z:
        for zi in z.infolist():
            m = {"name": zi.filename, "data": z.read(zi), "method": zi.compress_type}
            if zi.is_dir():
                m = {"name": zi.filename, "is_dir": True}
            out.append(m)
    return out


def rezip(members: list, opts: dict | None = None) -> bytes:
    return zipforge.zipforge(members, opts)


# ------------------------------------------------------------------------------------------------ record views
def biff_records(stream: bytes) -> list:
    """[(offset of the record header, type, length)] of a BIFF stream"""
    out = []
    p = 0
    while p + 4 <= len(stream):
        t, ln = struct.unpack_from("<HH", stream, p)
        out.append((p, t, ln))
        p += 4 + ln
    return out


def ppt_records(stream: bytes) -> list:
    """[(offset of the 8-byte record header, type, length, is_container)] of every record (containers are descended)"""
    out = []

    def walk(p, end):
        while p + 8 <= end:
            vi, t, ln = struct.unpack_from("<HHI", stream, p)
            cont = (vi & 0xF) == 0xF
            out.append((p, t, ln, cont))
            if cont:
                walk(p + 8, min(end, p + 8 + ln))
            p += 8 + ln
    walk(0, len(stream))
    return out


# ------------------------------------------------------------------------------------------------ the corpus G
def _text_doc(tk, img=None, table=True, meta=True):
    blocks = [["h", 1, [["t", tk.new("H")]]], ["p", [["t", tk.new("B")], ["t", tk.new("B")]]]]
    if table:
        blocks.append(["tbl", [[[["p", [["t", tk.new("C")]]]], [["p", [["t", tk.new("C")]]]]]]])
    if img:
        blocks.append(["img", img])
    return ["doc", {"title": "Ztitle", "author": "Zauthor"} if meta else {},
            [["unit", blocks, {}], ["unit", [["p", [["t", tk.new("B")]]]], {}]]]


def _sheet_doc(tk):
    return ["doc", {"title": "Ztitle"}, [["sheet", tk.new("N"), [[["s", tk.new("C")], ["s", tk.new("C")]], [["i", 3], ["f", 1.5]],
                                                                  [["d", "2024-01-02"], ["s", tk.new("C")]]]]]]


def build_g() -> dict:
    """name -> {"ext", "to", "data", optional views: "zip": members, "cfb": (streams, opts), "rec": {stream: kind}, "pdfenc": seed}"""
    if "g" in _CACHE:
        return _CACHE["g"]
    tk = Tokens(0)
    jpg, png = tiny_jpeg(), tiny_png()
    g: dict = {}

    def add(name, ext, data, **views):
        g[name] = {"ext": ext, "to": EXT_TO[ext], "data": data, **views}

    def addzip(name, ext, data):
        ms = zip_members(data)
        data2 = rezip(ms)
        with zipfile.ZipFile(io.BytesIO(data2)) as z:      # the canonical re-serialisation must be an intact archive
            if z.testzip() is not None:
                raise AssertionError("rezip broke " + name)
        add(name, ext, data2, zip=ms)

    addzip("docx", "docx", ooxml.docx(_text_doc(tk, "j"), {"j": (jpg, "jpeg")}))
    addzip("pptx", "pptx", ooxml.pptx(_text_doc(tk, "j"), {"j": (png, "png")}))
    addzip("xlsx", "xlsx", ooxml.xlsx(_sheet_doc(tk), {"j": (png, "png")}, {"sheet_images": {0: ["j"]}}))
    addzip("odt", "odt", odf.odt(_text_doc(tk, "j"), {"j": (png, "png")}))
    addzip("odp", "odp", odf.odp(_text_doc(tk, "j"), {"j": (jpg, "jpeg")}))
    addzip("ods", "ods", odf.ods(_sheet_doc(tk)))
    addzip("odg", "odg", odf.odg(_text_doc(tk, "j"), {"j": (png, "png")}))
    addzip("odf", "odf", odf.odf(["doc", {}, [["unit", [["p", [["t", tk.new("B")]]]], {}]]]))
    body = (f"<h1>{tk.new('H')}</h1><p>{tk.new('B')} <a href=\"http://h/x\">{tk.new('K')}</a></p>"
            f"<table><tr><td>{tk.new('C')}</td><td>{tk.new('C')}</td></tr></table><script>var {tk.new('X')};</script><ul><li>{tk.new('L')}</li></ul>")
    add("html", "html", htmlfam.html_page(body, "Ztitle").encode("utf-8"))
    add("mhtml", "mhtml", htmlfam.mhtml(htmlfam.html_page(body, "Ztitle"), "quoted-printable",
                                        [("image/png", "http://h/i.png", png)]))
    addzip("epub", "epub", htmlfam.epub([htmlfam.xhtml_page(body, "c1"), htmlfam.xhtml_page(f"<p>{tk.new('B')}</p><img src=\"i.png\"/>", "c2")],
                                        {"title": "Ztitle", "creator": "Zauthor"}, extra_items=[("img1", "i.png", "image/png", png)]))
    add("rtf", "rtf", rtf.rtf(_text_doc(tk, "j"), {"j": (jpg, "jpeg")}))
    add("pdf", "pdf", pdfw.pdf(["doc", {"title": "Ztitle"}, [["unit", [["p", [["t", tk.new("B")]]], ["img", "j"]], {}],
                                                              ["unit", [["p", [["t", tk.new("B")]]]], {}]]], {"j": (jpg, "jpeg")}))
    # PDFs encrypted for the empty password (a reader decrypts them unasked): RC4-128, AES-128 (AESV2), AES-256 (AESV3, revision 5);
    # the "pdfenc" view lets the container-aware operators forge encryption-dictionary fields consistently (c01_pdfenc)
    for es in c01_pdfenc.SEEDS:
        add("pdf-" + es, "pdf", c01_pdfenc.build(es), pdfenc=es)
    add("txt", "txt", plain.txt(_text_doc(tk, None, table=False, meta=False)))
    add("csv", "csv", plain.csv(["doc", {}, [_sheet_doc(tk)[2][0]]]))
    add("md", "md", plain.md(["doc", {}, [["unit", [["h", 1, [["t", tk.new("H")]]], ["p", [["t", tk.new("B")]]],
                                                       ["ul", [[["p", [["t", tk.new("L")]]]], [["p", [["t", tk.new("L")]]]]]]], {}]]]))
    add("json", "json", plain.json_(["doc", {}, [["unit", [["p", [["t", tk.new("B")]]], ["p", [["t", tk.new("B")]]]], {}]]]))
    spec = {"structure": "mixed-alt-att"}
    add("eml", "eml", mail.eml(spec))
    add("mbox", "mbox", mail.mbox([{}, {"structure": "alternative"}]))
    # legacy binaries: keep the stream dicts so that record-level and CFB-level forgeries can be rebuilt
    sdoc = _sheet_doc(tk)
    xs = {"Workbook": biff8.workbook_stream(sdoc, {"pictures": [[0, "j"]]}, {"j": jpg})}
    xs.update(cfb.summary_streams(cfb.adm_summary(sdoc[1], None)))
    xo = {"clsid": {"": cfb.CLSID_XLS}}
    add("xls", "xls", cfb.cfb(xs, xo), cfb=(xs, xo), rec={"Workbook": "biff"})
    pdoc = ["doc", {"title": "Ztitle"}, [["unit", [["h", 1, [["t", tk.new("H")]]], ["p", [["t", tk.new("B")]]], ["img", "j"]],
                                           {"notes": [tk.new("P")]}],
                                          ["unit", [["p", [["t", tk.new("B")]]]], {}]]]
    ps = pptbin.ppt_streams(pdoc, {"j": jpg}, None)
    po = {"clsid": {"": cfb.CLSID_PPT}}
    add("ppt", "ppt", cfb.cfb(ps, po), cfb=(ps, po), rec={k: "ppt" for k in ps if k in ("PowerPoint Document", "Pictures", "Current User")})
    # the CFB shell Office writes around a password-protected OOXML package (routed to read_docx)
    add("docx-enc", "docx", cfb.ooxml_encrypted_shell(), shell=["EncryptionInfo", "EncryptedPackage"])
    # archives holding two members
    m1 = {"name": "a.txt", "data": (tk.new("B") + " " + tk.new("B") + "\n").encode()}
    m2 = {"name": "d/b.html", "data": htmlfam.html_page(f"<p>{tk.new('B')}</p>", "t").encode()}
    zm = [dict(m1, method=8), dict(m2, method=0)]
    add("zip", "zip", zipforge.zipforge(zm), zip=zm)
    add("tar", "tar", tarforge.tarforge([m1, m2]), tar=([m1, m2], None))
    add("tgz", "gz", tarforge.tarforge([m1, m2], compression="gz"), tar=([m1, m2], "gz"))
    add("7z", "7z", sevenz.sevenz([m1, m2], {"coder": "lzma"}), sevenz=([m1, m2], {"coder": "lzma"}))
    _CACHE["g"] = g
    return g


# ------------------------------------------------------------------------------------------------ renderings of the G seeds
# Alternative, equally valid renderings of the containers of the G seeds ("<seed>~<variant>"): what the container formats leave
# to the writer.  Compound files: the spelling of the entry names (they compare case-insensitively, [MS-CFB] 2.6.4; the
# property-set streams keep their \x05 prefix), the major version (3 = 512-byte, 4 = 4096-byte sectors) and the shape of the
# directory tree (balanced red-black tree / degenerate list).  ZIP packages: the spelling of the member names (OPC part names
# are case-insensitive; for ODF / EPUB a respelled package is a damaged one - still bytes an extractor must survive).
# A variant carries the same views as its base seed, so every container-aware operator applies to it unchanged.
SPELLINGS = {"upper": str.upper, "lower": str.lower, "swap": str.swapcase}
CFB_RENDERINGS = {"v4": {"version": 4}, "list": {"dir_layout": "list"}}
VARIANTS_QUICK = ["upper", "lower", "v4"]
VARIANTS_THOROUGH = ["upper", "lower", "swap", "v4", "list"]


def _respell_path(path: str, f) -> str:
    return "/".join(f(p) for p in path.split("/"))


def build_variants() -> dict:
    """name~variant -> seed dict (as build_g) for every G seed with a "cfb", "shell" or "zip" view x VARIANTS_THOROUGH"""
    if "v" in _CACHE:
        return _CACHE["v"]
    g = build_g()
    v: dict = {}
    for name, s in g.items():
        if name == "zip":
            continue            # a plain archive: its member names are payload routing, covered by the routing family
        for var in VARIANTS_THOROUGH:
            f = SPELLINGS.get(var)
            if "cfb" in s:
                streams, o = s["cfb"]
                if f is not None:
                    st2 = {_respell_path(k, f): d for k, d in streams.items()}
                    o2 = dict(o, clsid={_respell_path(k, f): c for k, c in (o.get("clsid") or {}).items()})
                    rec = {_respell_path(k, f): r for k, r in s.get("rec", {}).items()}
                else:
                    st2, o2, rec = dict(streams), dict(o, **CFB_RENDERINGS[var]), dict(s.get("rec", {}))
                v[f"{name}~{var}"] = dict(s, data=cfb.cfb(st2, o2), cfb=(st2, o2), rec=rec, variant_of=name, variant=var)
            elif "shell" in s and f is None:
                o2 = dict(CFB_RENDERINGS[var])
                v[f"{name}~{var}"] = dict(s, data=cfb.ooxml_encrypted_shell(opts=o2), shell_opts=o2, variant_of=name, variant=var)
            elif "zip" in s and f is not None:
                ms = [dict(m, name=_respell_path(m["name"], f)) for m in s["zip"]]
                if [m["name"] for m in ms] == [m["name"] for m in s["zip"]]:
                    continue
                data = rezip(ms)
                if any(x["variant_of"] == name and x["data"] == data for x in v.values()):
                    continue            # e.g. swapcase of all-lower-case names is the upper-case rendering
                v[f"{name}~{var}"] = dict(s, data=data, zip=ms, variant_of=name, variant=var)
    _CACHE["v"] = v
    return v


def seed(name: str) -> dict:
    """the G seed or seed variant of that name"""
    g = build_g()
    return g[name] if name in g else build_variants()[name]


def path_ext(name: str) -> str:
    """file extension used for a G seed path (tgz seeds are named .tar.gz)"""
    return "tar.gz" if name.split("~")[0] == "tgz" else seed(name)["ext"]


# ------------------------------------------------------------------------------------------------ the fixtures F
def fixtures() -> list:
    """sorted relative paths of all fixture files (zero-length files included: they are valid members of F)"""
    if "f" in _CACHE:
        return _CACHE["f"]
    out = []
    for root, _, files in os.walk(FIXTURE_DIR):
        for f in files:
            out.append(os.path.relpath(os.path.join(root, f), FIXTURE_DIR))
    out.sort()
    _CACHE["f"] = out
    return out


def fixture_bytes(rel: str) -> bytes:
    key = ("fb", rel)
    if key not in _CACHE:
        if rel not in fixtures():
            raise KeyError(rel)
        with open(os.path.join(FIXTURE_DIR, rel), "rb") as f:
            _CACHE[key] = f.read()
    return _CACHE[key]


def fixture_to(rel: str) -> str:
    return EXT_TO[rel.rsplit(".", 1)[1].lower()]


# ------------------------------------------------------------------------------------------------ hostile XML bodies
def hostile_bodies() -> dict:
    deep = 5000
    return {
        "wrong-root": b'<?xml version="1.0" encoding="UTF-8"?><verifroot><child>x</child></verifroot>',
        "undeclared-prefix": b'<?xml version="1.0"?><w:document><w:body><w:p/></w:body></w:document>',
        "dtd-entity": b'<?xml version="1.0"?><!DOCTYPE r [<!ENTITY a "b"><!ENTITY c "&a;&a;&a;">]><r>&c;</r>',
        "external-entity": b'<?xml version="1.0"?><!DOCTYPE r [<!ENTITY e SYSTEM "file:///nonexistent-verif">]><r>&e;</r>',
        "deep-5000": b"<?xml version=\"1.0\"?>" + b"<a>" * deep + b"</a>" * deep,
        "attr-no-value": b'<?xml version="1.0"?><r a><c/></r>',
        "non-utf8": b'<?xml version="1.0" encoding="UTF-8"?><r>\xff\xfe\xfa\x80</r>',
        "unclosed": b'<?xml version="1.0"?><r><c>text',
        "utf16-bom": b"\xff\xfe" + "<r>x</r>".encode("utf-16-le"),
        "unknown-encoding": b'<?xml version="1.0" encoding="x-verif-klingon"?><r/>',
        "root-only": None,         # the member's own root element, attributes and namespaces kept, without content
        "not-xml": tiny_png(),
    }


HOSTILE_QUICK = ["wrong-root", "deep-5000", "non-utf8", "root-only"]


def root_only(xml: bytes) -> bytes | None:
    """the document reduced to its (self-closed) root element; None if no root start tag is found"""
    p = 0
    while True:
        p = xml.find(b"<", p)
        if p < 0:
            return None
        if xml[p + 1:p + 2] in (b"?", b"!"):
            p += 2
            continue
        break
    q = xml.find(b">", p)
    if q < 0:
        return None
    tag = xml[p:q]
    if tag.endswith(b"/"):
        tag = tag[:-1]
    return xml[:p] + tag + b"/>"


def is_xml_member(m: dict) -> bool:
    d = m.get("data") or b""
    return d.lstrip()[:1] == b"<"
