"""C07 - routing: is_supported_file <=> get_extractor succeeds; extension decides; MIME-database independent.

Space I x configurations: every path string of a grammar (extension x case pattern x stem x trailer, compound pairs,
data: URLs) under three mimetypes configurations (default, empty, hostile). The extension universe of a worker is that of
the DEFAULT configuration plus that of its own (what a configuration removes from the database is asked under it all the
same); the library is imported under the default configuration, then the configuration is set.

Space H (configuration histories): "for every path x mimetypes configuration" speaks about the configuration IN FORCE when
the router is asked. A process lives through several - the host calls mimetypes.add_type()/init(), the library is imported
before or after that, the router has been asked before - and both router functions must follow the same, current,
database: at every stage of a history the usual clauses (raises, equivalence, documented) are judged, plus clause
confighist: the answer equals the answer of a process that has only ever seen the configuration in force. Alphabet:
  configurations  default; empty (no types at all); hostile (documented extensions typed as OTHER supported types, invented
                  extensions .zzN and .bak/.exe/... typed as supported); moved (every extension the default database types
                  as supported - documented or MIME-fallback - gets a type nobody supports); swapped (each of those gets
                  another supported type of another file type, every 7th unsupported-typed extension a supported one);
  events          set configuration c; import the library; ask every path (both functions);
  histories       quick: per configuration c a closed walk that starts at c with the import and takes each of the 25 ordered
                  transitions c -> d (c -> c included) exactly once, every path asked at each of the 26 stages (so every
                  (import configuration, previous configuration, current configuration) triple occurs). thorough: + all 125
                  sequences of 3 configurations asked at every stage; all 25 ordered pairs asked only under the second one
                  (import-time vs first-call state); all 25 pairs with the library imported BEFORE the first configuration is
                  set, asked at every stage / only at the end;
  paths           every extension of the default-configuration universe + the hostile inventions x stem "a" in lower and UPPER
                  case [thorough: every case variant, and bare], "d.v1/a b.<ext>" for the documented ones and those the default
                  database types as supported [thorough: all], 144 double extensions, data: URLs of every mapped type.
Every history runs in a process created for it (a failing case is re-executed in two new processes: the history and the
one-configuration reference). Shrinking: (import configuration, last), (previous, last), (last), drop one configuration,
not pristine, not asked before, stem a lower case.

Space F (filesystem layouts) x configurations: "the decision depends only on the trailing extension of the path STRING"
also means that it does not depend on what the string designates on disk. Every case binds a given name to bytes through
one FORM and asks (a) the router before and after the objects exist (clause fsindep: same answer, plus the usual
equivalence/documented clauses on the live path) and (b) read_file through spy extractors (clause readfile: the spy
reached == get_extractor(str(path)) == the documented extractor). Alphabet, exhaustively multiplied within the bounds:
  names    every documented extension and alias, the 3 compound forms, 6 undocumented ones, lower and UPPER case, stem "a",
           plus an extension-less name (thorough: stem "a" in up to 7 case patterns plus a dot-file get the full product
           below; 5 further stems - inner dot, leading dot, blank, non-ASCII, inner documented extension - in lower and
           UPPER case get the quick product);
  forms    file (regular), symlink (absolute text), rellink (relative text), chain (link -> link -> file),
           hardlink, dirlink (directory component is a link to a directory), dirext (real directory component),
           dotdot (component/../name);
  targets  name of the link target resp. of the directory component: no extension, txt, html, pdf, docx, zip, tar.gz,
           bin (undocumented), and the given name's own extension (control);
  contents 13 byte strings: "x", empty, and the magic prefix of pdf, zip, ole, rtf, html, gzip, bzip2, xz, 7z, mbox, mime;
  args     how the path is handed over: absolute str, pathlib.Path, relative str (cwd = layout root), "./"-relative.
Quick product: name x (file x contents, file x 3 other args, 4 link forms x 9 targets, symlink x 3 targets x 3 other
args, 3 directory forms x 9 targets). Full product (thorough): name x (all forms x all targets x all args, file x
contents x args, symlink x 9 targets x contents). Forms the host file system refuses (probed once per worker) are
skipped and reported. Directories that exist before and after a layout (root, store/, the real directory component of
dirext/dotdot) are scaffold; the router is asked before and after the FILES and LINKS exist.

Space N (nested dispatch) x configurations: read_file is not the only place where a name is handed to the router and the
bytes to the extractor it answers - archive members (read_archive) and mail attachments
(EmailContent.iterate_supported_attachments) are dispatched the same way. With the same spy extractors every PART of a
container must reach exactly [get_extractor(name of the part)] - once, iff is_supported_file(name) - and, for a documented
extension, the documented extractor (clause member); an attachment of a supported declared type whose name the router knows
must reach get_extractor(name), and every attachment must be treated as it is when it is the only one of its mail (clause
attachment: the decision is a function of the part, not of its siblings or their order). Alphabet:
  containers  zip, tar, tar.gz, tar.bz2, tar.xz, 7z (reference writers verif/gen/zipforge, tarforge, sevenz);
  member names  catalogue = directory prefix ("", "d/", "d.docx/e.x/") x (every extension of the default-configuration
              universe [documented, README, platform mimetypes, junk] in lower and UPPER case with stem "a"; every documented /
              compound / undocumented extension with the stems blank, non-ASCII, inner dot, inner documented extension, leading
              dot (hidden) and in Title case [thorough: all case variants]; extension-less names; __MACOSX/ names);
  archives    one catalogue per prefix (quick: 3 prefixes for zip and tar, 1 for the others); every documented name (lower,
              UPPER [thorough: case variants]) ALONE in zip, tar, 7z [thorough: all 6]; ordered PAIRS of the representative
              names (one per documented extractor + 2 undocumented + extension-less = 24) in zip [thorough: of all 63 lower-case
              names in zip, tar, 7z; representative in the compressed tars]; one base name in two directories; a name next to
              its hidden twin;
  attachments (name, declared type) with declared type in every MIME type of the library's mapping + octet-stream + an
              unknown type; the is_supported_mime_type flag is what the library's own function says. Data class: every name x
              every type alone; per type all ordered pairs with repetition of representative names [thorough: of all 63];
              per representative name ordered pairs of types (all for names the reference router does not know, ring successor
              for the others [thorough: all]); two names with a fitting type each; thorough: triples of representative names
              per type (default configuration). Real .eml and mbox readers (reference writer verif/gen/mail): per
              non-composite type one mail with all representative names, in both orders [thorough: + ordered pairs, default
              configuration]; judged on the names and types the reader reports.
Not demanded: that hidden members or archives inside archives are opened (if they are, then by the router's extractor); any
particular treatment of an attachment whose declared type is unsupported or whose name the router does not know (only
sibling independence).
"""
from __future__ import annotations

import itertools
import os
import random
import shutil
import tempfile

from verif.mc import pool as P

LEVEL = "exploration"

# Reference router table: documented extension -> (module suffix, function). Written from the README format tables.
_EX = "sharepoint2text.parsing.extractors."
REF = {
    "docx": ("ms_modern.docx_extractor", "read_docx"), "docm": ("ms_modern.docx_extractor", "read_docx"),
    "dotx": ("ms_modern.docx_extractor", "read_docx"), "dotm": ("ms_modern.docx_extractor", "read_docx"),
    "xlsx": ("ms_modern.xlsx_extractor", "read_xlsx"), "xlsm": ("ms_modern.xlsx_extractor", "read_xlsx"),
    "xltx": ("ms_modern.xlsx_extractor", "read_xlsx"), "xltm": ("ms_modern.xlsx_extractor", "read_xlsx"),
    "pptx": ("ms_modern.pptx_extractor", "read_pptx"), "pptm": ("ms_modern.pptx_extractor", "read_pptx"),
    "potx": ("ms_modern.pptx_extractor", "read_pptx"), "potm": ("ms_modern.pptx_extractor", "read_pptx"),
    "ppsx": ("ms_modern.pptx_extractor", "read_pptx"), "ppsm": ("ms_modern.pptx_extractor", "read_pptx"),
    "doc": ("ms_legacy.doc_extractor", "read_doc"), "dot": ("ms_legacy.doc_extractor", "read_doc"),
    "xls": ("ms_legacy.xls_extractor", "read_xls"), "xlt": ("ms_legacy.xls_extractor", "read_xls"),
    "ppt": ("ms_legacy.ppt_extractor", "read_ppt"), "pot": ("ms_legacy.ppt_extractor", "read_ppt"), "pps": ("ms_legacy.ppt_extractor", "read_ppt"),
    "rtf": ("ms_legacy.rtf_extractor", "read_rtf"),
    "odt": ("open_office.odt_extractor", "read_odt"), "ott": ("open_office.odt_extractor", "read_odt"),
    "odp": ("open_office.odp_extractor", "read_odp"), "otp": ("open_office.odp_extractor", "read_odp"),
    "ods": ("open_office.ods_extractor", "read_ods"), "ots": ("open_office.ods_extractor", "read_ods"),
    "odg": ("open_office.odg_extractor", "read_odg"), "odf": ("open_office.odf_extractor", "read_odf"),
    "msg": ("mail.msg_email_extractor", "read_msg_format_mail"), "mbox": ("mail.mbox_email_extractor", "read_mbox_format_mail"),
    "eml": ("mail.eml_email_extractor", "read_eml_format_mail"),
    "csv": ("plain_extractor", "read_plain_text"), "json": ("plain_extractor", "read_plain_text"), "txt": ("plain_extractor", "read_plain_text"),
    "tsv": ("plain_extractor", "read_plain_text"), "md": ("plain_extractor", "read_plain_text"),
    "pdf": ("pdf.pdf_extractor", "read_pdf"), "html": ("html_extractor", "read_html"), "htm": ("html_extractor", "read_html"),
    "epub": ("epub_extractor", "read_epub"), "mhtml": ("mhtml_extractor", "read_mhtml"), "mht": ("mhtml_extractor", "read_mhtml"),
    "zip": ("archive_extractor", "read_archive"), "tar": ("archive_extractor", "read_archive"), "tgz": ("archive_extractor", "read_archive"),
    "tbz2": ("archive_extractor", "read_archive"), "txz": ("archive_extractor", "read_archive"), "7z": ("archive_extractor", "read_archive"),
    "gz": ("archive_extractor", "read_archive"), "bz2": ("archive_extractor", "read_archive"), "xz": ("archive_extractor", "read_archive"),
}
ALIAS_BASE = {"htm": "html", "mht": "mhtml", "dot": "doc", "dotx": "docx", "dotm": "docm", "xlt": "xls", "xltx": "xlsx", "xltm": "xlsm",
              "pot": "ppt", "potx": "pptx", "potm": "pptm", "pps": "ppt", "ppsx": "pptx", "ppsm": "pptm", "ott": "odt", "ots": "ods",
              "otp": "odp", "gz": "tgz", "bz2": "tbz2", "xz": "txz"}
COMPOUND = {".tar.gz": "tgz", ".tar.bz2": "tbz2", ".tar.xz": "txz"}
STEMS = ["a", "a.b", ".h", "a b", "\u00e4", "", "a.", "dir.d/a", "C:\\x\\a", "http://h/p/a", "dir.docx/a", "a.pdf", "/abs/a", "a?q=1", "a#f"]
TRAILERS = ["", " ", ".", "/", "~", "?x=1"]
JUNK = ["", "x", "docxx", "ddocx", "doc x", "d\u00f6cx", "pdf1", "1", "tar", "TAR.GZ", "tar.gz.bak", "gz.tar", "zzz", "htmlx", "mh", "7", "z7",
        "docx\n", "doc\x00x", "exe", "dll", "bin", "dat", "tmp", "bak", "old", "orig", "log1", "cfgx", "lock", "part", "crdownload"]


def ref_ext(path: str):
    """Reference: lower-cased trailing extension of the last path component (None if there is none)."""
    low = path.lower()
    for c, t in COMPOUND.items():
        if low.endswith(c):
            return t
    base = low.rsplit("/", 1)[-1]
    stripped = base.lstrip(".")
    if "." not in stripped:
        return None
    ext = stripped.rsplit(".", 1)[1]
    return ext or None


def case_variants(ext: str):
    letters = [i for i, ch in enumerate(ext) if ch.isalpha()]
    if len(letters) <= 4:
        out = []
        for mask in range(1 << len(letters)):
            s = list(ext)
            for j, i in enumerate(letters):
                if mask >> j & 1:
                    s[i] = s[i].upper()
            out.append("".join(s))
        return out
    alt = "".join(ch.upper() if i % 2 else ch for i, ch in enumerate(ext))
    return [ext, ext.upper(), ext.title(), alt]


def extension_universe():
    import mimetypes
    exts = set(REF) | set(JUNK) | {c[1:] for c in COMPOUND}
    for m in (mimetypes.types_map, mimetypes.common_types, mimetypes.encodings_map, mimetypes.suffix_map):
        exts |= {k[1:].lower() for k in m}
    return sorted(exts)


def full_universe(cfg):
    """Extension universe of a worker: that of the DEFAULT configuration plus that of `cfg` (the extensions a configuration
    removes from the database are asked under it all the same). Leaves the process configured as `cfg`."""
    configure("default")
    u = set(extension_universe())
    if cfg != "default":
        configure(cfg)
        u |= set(extension_universe())
    return sorted(u)


def paths(tier, universe=None):
    """Yield (kind, ext, path)"""
    quick = tier == "quick"
    E = extension_universe() if universe is None else universe
    for e in E:
        doc = e in REF or e in ("tar.gz", "tar.bz2", "tar.xz")
        stems = STEMS if (doc or not quick) else STEMS[:6]
        trailers = TRAILERS if (doc or not quick) else TRAILERS[:3]
        for v in case_variants(e):
            for st in stems:
                for tr in trailers:
                    yield ("doc" if doc else "other"), e, f"{st}.{v}{tr}"
        yield "noext", e, e
        yield "noext", e, "dir/" + e
    twelve = ["docx", "pdf", "txt", "gz", "tar", "zip", "7z", "htm", "bak", "xz", "bz2", "eml"]
    for a, b in itertools.product(twelve, twelve):
        for st in ("a", "A B", "d.x/a"):
            yield "pair", b, f"{st}.{a}.{b}"
            yield "pair", b, f"{st}.{a.upper()}.{b.upper()}"
    for mt in sorted(_mime_mapping()):
        yield "dataurl", "", f"data:{mt},x"
        yield "dataurl", "", f"data:{mt};base64,AAAA"


def _mime_mapping():
    """The library's MIME type -> file type table WITHOUT importing the package (the moment of the import is an event of
    the configuration histories, space H): the table module is self-contained and is executed from its file."""
    import sys
    m = sys.modules.get("sharepoint2text.parsing.mime_types")
    if m is not None:
        return dict(m.MIME_TYPE_MAPPING)
    import importlib.util
    spec = importlib.util.find_spec("sharepoint2text")
    for loc in (spec.submodule_search_locations or []) if spec else []:
        f = os.path.join(loc, "parsing", "mime_types.py")
        if os.path.isfile(f):
            sp = importlib.util.spec_from_file_location("_verif_c07_mime_types", f)
            mod = importlib.util.module_from_spec(sp)
            sp.loader.exec_module(mod)
            return dict(mod.MIME_TYPE_MAPPING)
    from sharepoint2text.parsing.mime_types import MIME_TYPE_MAPPING
    return dict(MIME_TYPE_MAPPING)


HOST_TYPE = "application/x-verif-host"      # a type no library table knows


def configure(cfg):
    """Put the process-wide mimetypes database into configuration `cfg` (always starting from a re-initialised default
    database, so the result does not depend on what was configured before). Does not import the library."""
    import mimetypes
    mimetypes.init()
    if cfg == "default":
        return
    db = mimetypes._db
    if cfg == "empty":
        mimetypes.init(files=[])
        db = mimetypes._db
        for d in db.types_map:
            d.clear()
        for d in db.types_map_inv:
            d.clear()
        return
    MIME_TYPE_MAPPING = _mime_mapping()
    mts = sorted(MIME_TYPE_MAPPING)
    if cfg == "hostile":
        exts = sorted(REF)
        for i, e in enumerate(exts):
            # every supported extension claims to be some *other* supported type
            mt = mts[(i * 7 + 3) % len(mts)]
            if MIME_TYPE_MAPPING[mt] == e:
                mt = mts[(i * 7 + 4) % len(mts)]
            mimetypes.add_type(mt, "." + e, strict=True)
        for i, mt in enumerate(mts):
            mimetypes.add_type(mt, f".zz{i}", strict=True)      # unknown extensions reaching each supported MIME type
        for e in ("bak", "exe", "zzz", "log1"):
            mimetypes.add_type("application/pdf", "." + e, strict=True)
        return
    base = sorted(mimetypes.types_map.items())
    if cfg == "moved":
        # the host has its own idea of every extension the default database maps onto a supported type (documented ones
        # and the MIME-fallback ones alike): none of them has a supported type any more
        for ext, mt in base:
            if mt in MIME_TYPE_MAPPING:
                mimetypes.add_type(HOST_TYPE, ext, strict=True)
        return
    if cfg == "swapped":
        # every extension with a supported type gets another supported type (of another file type); every 7th extension
        # with an unsupported type gets a supported one
        j = 0
        for ext, mt in base:
            if mt in MIME_TYPE_MAPPING:
                k = mts.index(mt)
                for d in range(1, len(mts)):
                    new = mts[(k + d) % len(mts)]
                    if MIME_TYPE_MAPPING[new] != MIME_TYPE_MAPPING[mt]:
                        mimetypes.add_type(new, ext, strict=True)
                        break
            else:
                if j % 7 == 0:
                    mimetypes.add_type(mts[(j // 7) % len(mts)], ext, strict=True)
                j += 1
        return
    raise ValueError(cfg)


def check_path(p):
    """Returns (fails, outcome)."""
    import sharepoint2text
    from sharepoint2text.parsing.exceptions import ExtractionFileFormatNotSupportedError
    fails = []
    try:
        s = sharepoint2text.is_supported_file(p)
    except Exception as e:  # noqa
        return [("raises", f"is_supported_file({p!r}) raised {type(e).__name__}: {e}")], "exc"
    f = None
    try:
        f = sharepoint2text.get_extractor(p)
        ok = True
    except ExtractionFileFormatNotSupportedError:
        ok = False
    except Exception as e:  # noqa
        return [("raises", f"get_extractor({p!r}) raised {type(e).__name__}: {e}")], "exc"
    if s is not True and s is not False:
        fails.append(("equivalence", f"is_supported_file({p!r}) returned {s!r}"))
    if bool(s) != ok:
        fails.append(("equivalence", f"is_supported_file({p!r}) = {s} but get_extractor {'returns ' + f.__name__ if ok else 'raises not-supported'}"))
    e = ref_ext(p)
    name = None
    if ok:
        name = (f.__module__, f.__name__)
    if e in REF:
        exp = (_EX + REF[e][0], REF[e][1])
        if not ok:
            fails.append(("documented", f"{p!r} has documented extension .{e} but is not routed"))
        elif name != exp:
            fails.append(("documented", f"{p!r} (.{e}) routed to {name[0].rsplit('.', 1)[-1]}.{name[1]}, documented {REF[e][1]}"))
    return fails, (bool(s), name[1] if name else None)


def classify(p, ext):
    """coarse structural class of a path for fingerprints"""
    e = ref_ext(p)
    low_ext = (e or "")
    kind = "documented" if e in REF else ("alias" if e in ALIAS_BASE else "other")
    if e in ALIAS_BASE:
        kind = "alias"
    casek = "lower" if p == p.lower() else ("upper" if p.rsplit(".", 1)[-1] == p.rsplit(".", 1)[-1].upper() else "mixed")
    return [kind, casek]


def _part(arg):
    tier, cfg, k, n, seed = arg
    # the library is imported under the default configuration (a pool worker is reused for several configurations; the
    # histories in which the import happens under another configuration are space H's), then the configuration is set
    configure("default")
    import sharepoint2text  # noqa
    universe = full_universe(cfg)
    ev = 0
    fails = []
    outs = {}
    samples = []
    for i, (kind, ext, p) in enumerate(paths(tier, universe)):
        if i % n != k:
            continue
        f, oc = check_path(p)
        ev += 1
        outs[str(oc)] = outs.get(str(oc), 0) + 1
        for clause, msg in f:
            fails.append((clause, cfg, {"path": p, "class": classify(p, ext)}, msg))
        if ev in (5, 4000) and len(samples) < 2:
            samples.append({"config": cfg, "path": p, "outcome": str(oc)})
    # alias == base as the same function object (documented aliases), independent of configuration
    import sharepoint2text
    if k == 0:
        for a, b in ALIAS_BASE.items():
            ev += 1
            try:
                fa, fb = sharepoint2text.get_extractor("x." + a), sharepoint2text.get_extractor("x." + b)
                if fa is not fb:
                    fails.append(("alias", cfg, {"path": "x." + a, "class": ["alias", a, "lower"]}, f".{a} routes to {fa.__name__}, its base .{b} to {fb.__name__}"))
            except Exception as e:  # noqa
                fails.append(("alias", cfg, {"path": "x." + a, "class": ["alias", a, "lower"]}, f"alias .{a}/.{b}: {type(e).__name__}"))
    return {"ev": ev, "fails": fails, "outs": outs, "samples": samples}


_ORIG = {}      # (module, function) -> the library's own extractor, kept when the first spy replaces it in this process


def _install_spies(rich=None):
    """Replace every registered extractor by a spy generator that records (module, function); returns the record list.
    `rich` (a list) additionally receives (module, function, path argument, file-like argument) of every call."""
    import importlib
    from sharepoint2text.parsing import router
    called = []
    for ft, (mod, fn) in router._EXTRACTOR_REGISTRY.items():
        m = importlib.import_module(mod)
        cur = getattr(m, fn)
        if not getattr(cur, "_verif_spy", False):
            _ORIG[(mod, fn)] = cur

        def mk(mod=mod, fn=fn):
            def stub(file_like, path=None):
                called.append((mod, fn))
                if rich is not None:
                    rich.append((mod, fn, path, file_like))
                return
                yield
            stub.__name__ = fn
            stub.__module__ = mod
            stub._verif_spy = True
            return stub
        setattr(m, fn, mk())
    return called


def _readfile_part(arg):
    """read_file dispatches to the same extractor as get_extractor: spy stubs installed on every extractor module."""
    tier, cfg, seed = arg
    configure(cfg)
    import sharepoint2text
    from sharepoint2text.parsing.exceptions import ExtractionFileFormatNotSupportedError
    called = _install_spies()
    ev = 0
    fails = []
    outs = {}
    names = []
    for e in sorted(REF) + ["tar.gz", "tar.bz2", "tar.xz", "bak", "zzz", "text", "xhtml", "zz3"]:
        for v in case_variants(e)[:6] + [e.upper()]:
            for st in ("a", "a.b", ".h", "a b", "\u00e4", "a.pdf"):
                names.append(f"{st}.{v}")
    names = sorted(set(names))
    with tempfile.TemporaryDirectory(prefix="sp2t-verif-") as d:
        for nm in names:
            p = os.path.join(d, nm)
            with open(p, "wb") as fh:
                fh.write(b"x")
            del called[:]
            ev += 1
            try:
                list(sharepoint2text.read_file(p))
                got = called[0] if called else None
            except ExtractionFileFormatNotSupportedError:
                got = "unsupported"
            except Exception as e:  # noqa
                fails.append(("readfile", cfg, {"path": nm, "class": classify(nm, ""), "via": "readfile"}, f"read_file({nm!r}) raised {type(e).__name__}: {e}"))
                os.unlink(p)
                continue
            try:
                f = sharepoint2text.get_extractor(p)
                exp = (f.__module__, f.__name__)
            except ExtractionFileFormatNotSupportedError:
                exp = "unsupported"
            outs[str(got)] = outs.get(str(got), 0) + 1
            if got != exp:
                fails.append(("readfile", cfg, {"path": nm, "class": classify(nm, ""), "via": "readfile"}, f"read_file({nm!r}) dispatched to {got}, get_extractor gives {exp}"))
            e = ref_ext(nm)
            if e in REF and got != (_EX + REF[e][0], REF[e][1]):
                fails.append(("readfile", cfg, {"path": nm, "class": classify(nm, ""), "via": "readfile"}, f"read_file({nm!r}) dispatched to {got}, documented {REF[e][1]}"))
            os.unlink(p)
    return {"ev": ev, "fails": fails, "outs": outs, "samples": [{"config": cfg, "read_file": names[7], "files": len(names)}]}


# ---------------------------------------------------------------------------------------------------------------------
# Space F: filesystem layouts. The routing decision is a function of the path STRING; what the string designates on
# disk (a link to a differently named blob, a hard link, a directory component with an extension, the bytes) is not
# an input of it.
FS_FORMS = ("file", "symlink", "rellink", "chain", "hardlink", "dirlink", "dirext", "dotdot")
FS_LINK_FORMS = ("symlink", "rellink", "chain", "hardlink")
FS_DIR_FORMS = ("dirlink", "dirext", "dotdot")
FS_TARGETS = ("", "txt", "html", "pdf", "docx", "zip", "tar.gz", "bin", "=")     # "" no extension, "=" the given name's own
FS_ARGS = ("str", "Path", "rel", "dotrel")
FS_CONTENTS = {
    "x": b"x", "empty": b"", "pdf": b"%PDF-1.4\n", "zip": b"PK\x03\x04\x14\x00", "ole": b"\xd0\xcf\x11\xe0\xa1\xb1\x1a\xe1",
    "rtf": b"{\\rtf1 x}", "html": b"<html><body><p>x</p></body></html>", "gzip": b"\x1f\x8b\x08\x00", "bzip2": b"BZh9",
    "xz": b"\xfd7zXZ\x00", "7z": b"7z\xbc\xaf\x27\x1c", "mbox": b"From a@b Thu Jan  1 00:00:00 1970\n\nx\n",
    "mime": b"MIME-Version: 1.0\nContent-Type: text/plain\n\nx\n",
}
FS_UNDOC = ("bak", "zzz", "bin", "text", "xhtml", "zz3")
FS_NOEXT = "noext"


def _fs_names(tier):
    """(A, B): names that get the tier's full product / names that get the quick product."""
    exts = sorted(REF) + [c[1:] for c in COMPOUND] + list(FS_UNDOC)
    a, b = [], []
    if tier == "quick":
        for e in exts:
            b += ["a." + e, "a." + e.upper()]
        b.append(FS_NOEXT)
    else:
        for e in exts:
            for v in case_variants(e)[:6] + [e.upper()]:
                a.append("a." + v)
            for st in ("a.b", ".h", "a b", "\u00e4", "a.pdf"):
                b += [f"{st}.{e}", f"{st}.{e.upper()}"]
        a += [FS_NOEXT, ".txt"]
    return sorted(set(a)), sorted(set(b))


def _fs_suffix(name):
    """The given name's own dot-suffix in its own spelling ('' if it has none)."""
    low = name.lower()
    for c in COMPOUND:
        if low.endswith(c):
            return name[-len(c):]
    st = name.lstrip(".")
    if "." not in st:
        return ""
    return "." + st.rsplit(".", 1)[1]


def _fs_target(name, t, form="symlink"):
    stem = "dir" if form in ("dirext", "dotdot") else "blob"       # real directories are scaffold and are never link names
    if t == "=":
        return stem + _fs_suffix(name)
    return stem + ("." + t if t else "")


def _fs_tkind(t):
    if t == "":
        return "none"
    if t == "=":
        return "same"
    return "supported" if (t in REF or "." + t in COMPOUND) else "unsupported"


def _fs_case(form, name, t, content="x", arg="str"):
    return {"form": form, "name": name, "t": t, "target": None if form == "file" else _fs_target(name, t, form), "content": content, "arg": arg}


def fs_cases(tier):
    """Yield every layout of the tier (fs dicts)."""
    full, basic = _fs_names(tier)
    for name in basic:
        for c in FS_CONTENTS:
            yield _fs_case("file", name, "", c)
        for a in FS_ARGS[1:]:
            yield _fs_case("file", name, "", "x", a)
        for form in FS_LINK_FORMS + FS_DIR_FORMS:
            for t in FS_TARGETS:
                yield _fs_case(form, name, t)
        for t in ("", "txt", "bin"):
            for a in FS_ARGS[1:]:
                yield _fs_case("symlink", name, t, "x", a)
    for name in full:
        for c in FS_CONTENTS:
            for a in FS_ARGS:
                yield _fs_case("file", name, "", c, a)
        for form in FS_LINK_FORMS + FS_DIR_FORMS:
            for t in FS_TARGETS:
                for a in FS_ARGS:
                    yield _fs_case(form, name, t, "x", a)
        for t in FS_TARGETS:
            for c in FS_CONTENTS:
                if c != "x":
                    yield _fs_case("symlink", name, t, c)


def _fs_given(fs):
    """The path the caller writes, relative to the layout root."""
    form, name = fs["form"], fs["name"]
    if form in ("dirlink", "dirext"):
        return fs["target"] + "/" + name
    if form == "dotdot":
        return fs["target"] + "/../" + name
    return name


def _fs_wrap(fs):
    return {"path": _fs_given(fs), "class": ["fs", fs["form"], _fs_tkind(fs["t"]) if fs["form"] != "file" else "regular"], "via": "fs", "fs": fs}


def _fs_build(root, fs):
    form, name, target = fs["form"], fs["name"], fs["target"]
    data = FS_CONTENTS[fs["content"]]

    def put(*parts):
        with open(os.path.join(root, *parts), "wb") as fh:
            fh.write(data)
    if form == "file":
        put(name)
    elif form in FS_LINK_FORMS:
        put("store", target)
        if form == "symlink":
            os.symlink(os.path.join(root, "store", target), os.path.join(root, name))
        elif form == "rellink":
            os.symlink("store/" + target, os.path.join(root, name))
        elif form == "chain":
            os.symlink("store/" + target, os.path.join(root, "hop.json"))
            os.symlink("hop.json", os.path.join(root, name))
        else:
            os.link(os.path.join(root, "store", target), os.path.join(root, name))
    elif form == "dirlink":
        put("store", name)
        os.symlink("store", os.path.join(root, target))
    elif form == "dirext":
        put(target, name)
    elif form == "dotdot":
        put(name)
    else:
        raise ValueError(form)


def _fs_base():
    """Scratch directory for the layouts: a memory file system when the host has one (directory removal costs
    milliseconds on some disk file systems); verdicts do not depend on the choice."""
    for d in (os.environ.get("VERIF_FS_TMP"), "/dev/shm"):
        if d and os.path.isdir(d) and os.access(d, os.W_OK | os.X_OK):
            try:
                return tempfile.mkdtemp(prefix="sp2t-verif-", dir=d)
            except OSError:
                continue
    return tempfile.mkdtemp(prefix="sp2t-verif-")


_FS_MADE = set()      # scaffold directories this process has made (they are never removed before the scratch base is)


def _fs_scaffold(root, fs):
    """Directories that exist before AND after a layout: the root, store/, and the real directory component of the
    dirext / dotdot forms (left in place between layouts; a real directory never shares a name with anything else)."""
    for d in (os.path.join(root, "store"),) + ((os.path.join(root, fs["target"]),) if fs["form"] in ("dirext", "dotdot") else ()):
        if d not in _FS_MADE:
            os.makedirs(d, exist_ok=True)
            _FS_MADE.add(d)


def _fs_clear(root):
    """Remove every file and link a layout created below root (the scaffold directories stay, empty)."""
    for ent in list(os.scandir(root)):
        if ent.is_dir(follow_symlinks=False):
            for sub in list(os.scandir(ent.path)):
                os.unlink(sub.path)
        else:
            os.unlink(ent.path)


def _fs_probe(base):
    """Forms this host's file system cannot express (skipped, reported in the coverage)."""
    bad = []
    for form in FS_FORMS:
        root = os.path.join(base, "probe-" + form)
        try:
            _fs_scaffold(root, _fs_case(form, "a.txt", "bin"))
            _fs_build(root, _fs_case(form, "a.txt", "bin"))
            with open(os.path.join(root, _fs_given(_fs_case(form, "a.txt", "bin"))), "rb") as fh:
                fh.read()
        except OSError:
            bad.append(form)
        shutil.rmtree(root, ignore_errors=True)
    return bad


def _fs_eval(base, fs, called):
    """One layout: returns (fails [(clause, msg)], outcome)."""
    import pathlib
    import sharepoint2text
    from sharepoint2text.parsing.exceptions import ExtractionFileFormatNotSupportedError

    def route(p):
        try:
            s = sharepoint2text.is_supported_file(p)
        except Exception as e:  # noqa
            s = f"raised {type(e).__name__}"
        try:
            f = sharepoint2text.get_extractor(p)
            return s, (f.__module__, f.__name__)
        except ExtractionFileFormatNotSupportedError:
            return s, "unsupported"
        except Exception as e:  # noqa
            return s, f"raised {type(e).__name__}"
    root = os.path.join(base, "r")
    _fs_scaffold(root, fs)
    given = _fs_given(fs)
    how = fs["arg"]
    cwd = None
    fails = []
    try:
        if how in ("rel", "dotrel"):
            cwd = os.getcwd()
            os.chdir(root)
            arg = given if how == "rel" else "./" + given
        elif how == "Path":
            arg = pathlib.Path(os.path.join(root, given))
        else:
            arg = os.path.join(root, given)
        p = str(arg)
        shown = f"{given!r} [{fs['form']}" + (f" -> {fs['target']}" if fs["target"] else "") + f", {fs['content']}, {how}]"
        pre = route(p)
        _fs_build(root, fs)
        for clause, msg in check_path(p)[0]:
            fails.append((clause, f"{shown}: " + msg.replace(root + "/", "")))
        post = route(p)
        if post != pre:
            fails.append(("fsindep", f"{shown}: router answered {pre} for the bare string and {post} once the objects exist"))
        del called[:]
        try:
            list(sharepoint2text.read_file(arg))
            got = called[0] if called else None
        except ExtractionFileFormatNotSupportedError:
            got = "unsupported"
        except Exception as e:  # noqa
            got = f"raised {type(e).__name__}"
            fails.append(("readfile", f"read_file({shown}) raised {type(e).__name__}: {str(e).replace(root + '/', '')[:200]}"))
        if not str(got).startswith("raised"):
            if got != pre[1]:
                fails.append(("readfile", f"read_file({shown}) dispatched to {got}, get_extractor on the same string gives {pre[1]}"))
            e = ref_ext(p)
            if e in REF and got != (_EX + REF[e][0], REF[e][1]):
                fails.append(("readfile", f"read_file({shown}) dispatched to {got}, documented {REF[e][1]}"))
    finally:
        if cwd is not None:
            os.chdir(cwd)
        _fs_clear(root)
    return fails, got


def _fs_part(arg):
    tier, cfg, k, n, seed = arg
    configure(cfg)
    called = _install_spies()
    ev = 0
    fails = []
    outs = {}
    per_form = {}
    base = _fs_base()
    try:
        skipped = _fs_probe(base)
        for i, fs in enumerate(fs_cases(tier)):
            if i % n != k or fs["form"] in skipped:
                continue
            f, got = _fs_eval(base, fs, called)
            ev += 1
            if ev % 2000 == 0:
                P.note(("fs", cfg, k, ev))        # progress: the hard timeout then bounds 2000 layouts, not the whole partition
            per_form[fs["form"]] = per_form.get(fs["form"], 0) + 1
            outs["fs:" + str(got)] = outs.get("fs:" + str(got), 0) + 1
            for clause, msg in f:
                fails.append((clause, cfg, _fs_wrap(fs), msg))
    finally:
        shutil.rmtree(base, ignore_errors=True)
    samples = [{"config": cfg, "fs_layout": _fs_wrap(fs)["path"], "fs": fs}] if k == 0 and ev else []
    return {"ev": ev, "fails": fails, "outs": outs, "samples": samples, "per_form": per_form, "skipped": skipped}


def _fs_one(arg):
    cfg, fs = arg
    configure(cfg)
    called = _install_spies()
    base = _fs_base()
    try:
        if fs["form"] in _fs_probe(base):
            return []
        return _fs_eval(base, fs, called)[0]
    finally:
        shutil.rmtree(base, ignore_errors=True)


# ---------------------------------------------------------------------------------------------------------------------
# Space N: nested dispatch. Besides read_file the library has two more places where a NAME is handed to the router and the
# bytes to whatever it answers: the members of an archive (read_archive) and the attachments of a mail
# (EmailContent.iterate_supported_attachments). "Extension decides" and "dispatches to the same extractor" are judged there
# with the same spies: a part reaches exactly the extractor get_extractor(name of the part) names - whatever its siblings
# are, whatever their order, whatever the container.
ND_CONTAINERS = ("zip", "tar", "tar.gz", "tar.bz2", "tar.xz", "7z")
ND_DIRS = ("", "d/", "d.docx/e.x/")
ND_STEMS = ("a b", "ä", "a.b", "a.pdf", ".h")
ND_EXTRA_MIMES = ("application/octet-stream", "application/x-verif-unknown")
ND_ENTRIES = ("dataclass", "eml", "mbox")
_ARCHIVE_FN = (_EX + "archive_extractor", "read_archive")
_EML_FN = (_EX + "mail.eml_email_extractor", "read_eml_format_mail")
_MBOX_FN = (_EX + "mail.mbox_email_extractor", "read_mbox_format_mail")


def _route(p):
    """(is_supported_file answer, (module, function) | 'unsupported' | 'raised X') of the router for one string."""
    import sharepoint2text
    from sharepoint2text.parsing.exceptions import ExtractionFileFormatNotSupportedError
    try:
        s = sharepoint2text.is_supported_file(p)
    except Exception as e:  # noqa
        s = f"raised {type(e).__name__}"
    try:
        f = sharepoint2text.get_extractor(p)
        return s, (f.__module__, f.__name__)
    except ExtractionFileFormatNotSupportedError:
        return s, "unsupported"
    except Exception as e:  # noqa
        return s, f"raised {type(e).__name__}"


def _nd_exts():
    return sorted(REF) + [c[1:] for c in COMPOUND] + list(FS_UNDOC)


def _nd_rep_names():
    """One name per documented extractor (its first extension in sorted order), two undocumented ones (one of them is routed
    by the hostile MIME configuration) and a name without extension."""
    first = {}
    for e in sorted(REF):
        first.setdefault(REF[e], e)
    return ["a." + e for e in sorted(first.values())] + ["a.bak", "a.zz3", FS_NOEXT]


def _nd_names(tier):
    """Names that are judged alone (and, thorough, in pairs): every documented extension and alias, the compound forms,
    the undocumented ones; lower and UPPER case (thorough: the case variants of the other families too)."""
    out = []
    for e in _nd_exts():
        vs = [e, e.upper()] if tier == "quick" else case_variants(e)[:6] + [e.upper()]
        out += ["a." + v for v in vs]
    return sorted(set(out)) + [FS_NOEXT]


def _nd_catalogue(d, universe, tier):
    """Member names of one catalogue archive: directory prefix d x (every extension of the universe in lower and UPPER
    case with stem a; every documented/compound/undocumented extension with 5 further stems - blank, non-ASCII, inner dot,
    inner documented extension, leading dot = hidden - and in Title case; names without extension)."""
    names = []
    for e in universe:
        if not e or any(ord(ch) < 32 or ch in "/\\" for ch in e):
            continue
        names += [f"{d}a.{e}", f"{d}a.{e.upper()}"]
    for e in _nd_exts():
        for st in ND_STEMS:
            names.append(f"{d}{st}.{e}")
        names += [f"{d}a.{v}" for v in ([e.title()] if tier == "quick" else case_variants(e))]
    names += [d + "a", d + "docx", d + "a."]
    if not d:
        names += ["__MACOSX/a.docx", "__MACOSX/d/a.txt"]
    return sorted(set(names))


def _nd_mimes():
    from sharepoint2text.parsing.mime_types import MIME_TYPE_MAPPING
    return sorted(MIME_TYPE_MAPPING) + list(ND_EXTRA_MIMES)


def _nd_natural(name, mimes):
    """A declared type that fits the name: the first mapped MIME type whose file type is the name's (base) extension."""
    from sharepoint2text.parsing.mime_types import MIME_TYPE_MAPPING
    e = ref_ext(name)
    for m in mimes:
        if MIME_TYPE_MAPPING.get(m) in (e, ALIAS_BASE.get(e)):
            return m
    return "text/plain"


def nd_cases(tier):
    """Yield every container of the tier (nd dicts)."""
    quick = tier == "quick"
    rep = _nd_rep_names()
    names = _nd_names(tier)
    wide = rep if quick else ["a." + e for e in _nd_exts()] + [FS_NOEXT]
    # --- archives
    for c in ND_CONTAINERS:
        for d in (ND_DIRS if (c in ("zip", "tar") or not quick) else ND_DIRS[1:2]):
            yield {"kind": "archive", "container": c, "family": "catalogue", "dir": d}
    for c in (("zip", "tar", "7z") if quick else ND_CONTAINERS):
        for nm in names:
            yield {"kind": "archive", "container": c, "family": "list", "names": [nm]}
    for c in (("zip",) if quick else ND_CONTAINERS):
        for a, b in itertools.permutations(wide if c in ("zip", "tar", "7z") else rep, 2):
            yield {"kind": "archive", "container": c, "family": "list", "names": [a, b]}
        for nm in rep:                                   # the same base name in two directories, and next to its hidden twin
            yield {"kind": "archive", "container": c, "family": "list", "names": ["d/" + nm, "e/" + nm]}
            yield {"kind": "archive", "container": c, "family": "list", "names": ["." + nm, nm]}
    # --- attachments (data class)
    mimes = _nd_mimes()
    for nm in names:
        for m in mimes:
            yield {"kind": "atts", "entry": "dataclass", "seq": [[nm, m]]}
    for m in mimes:                                      # one declared type, two names (ordered, with repetition)
        for a, b in itertools.product(wide, repeat=2):
            yield {"kind": "atts", "entry": "dataclass", "seq": [[a, m], [b, m]]}
    for nm in rep:                                       # one name, two declared types
        routable = ref_ext(nm) in REF
        for i, m1 in enumerate(mimes):
            for m2 in ([mimes[(i + 1) % len(mimes)]] if (routable and quick) else mimes):
                yield {"kind": "atts", "entry": "dataclass", "seq": [[nm, m1], [nm, m2]]}
    for a, b in itertools.product(wide, repeat=2):       # two names, each with a declared type of its own
        yield {"kind": "atts", "entry": "dataclass", "seq": [[a, _nd_natural(a, mimes)], [b, _nd_natural(b, mimes)]]}
    if not quick:                                        # three attachments of one declared type
        for m in mimes:
            for t in itertools.product(rep, repeat=3):
                if len(set(t)) > 1:
                    yield {"kind": "atts", "entry": "dataclass", "seq": [[x, m] for x in t], "only": "default"}
    # --- attachments through the real .eml / mbox readers: all representative names under one declared type, both orders
    for entry in ND_ENTRIES[1:]:
        for m in mimes:
            if m.startswith(("message/", "multipart/")):
                continue                                 # the reference mail writer has no composite attachment parts
            for order in (rep, rep[::-1]):
                yield {"kind": "atts", "entry": entry, "seq": [[nm, m] for nm in order]}
            if not quick:
                for a, b in itertools.permutations(rep, 2):
                    yield {"kind": "atts", "entry": entry, "seq": [[a, m], [b, m]], "only": "default"}


def _nd_pack(container, names):
    members = [{"name": n, "data": b"x"} for n in names]
    if container == "zip":
        from verif.gen import zipforge
        return zipforge.zip_honest(members)
    if container == "7z":
        from verif.gen import sevenz
        return sevenz.sevenz(members)
    from verif.gen import tarforge
    return tarforge.tarforge(members, compression={"tar": None, "tar.gz": "gz", "tar.bz2": "bz2", "tar.xz": "xz"}[container], fmt="pax")


def _nd_state(cfg):
    """Per task: default-configuration extension universe, spies with a rich record, the library's own container readers."""
    configure("default")
    universe = extension_universe()
    configure(cfg)
    rich = []
    _install_spies(rich)
    # the archive reader memoises router answers per process; a task starts from a clean slate (new spies, new configuration)
    import importlib
    for v in list(vars(importlib.import_module(_ARCHIVE_FN[0])).values()):
        if callable(getattr(v, "cache_clear", None)):
            v.cache_clear()
    return {"cfg": cfg, "rich": rich, "universe": universe, "alone": {}, "tier": "quick"}


def _nd_short(t):
    return t[1] if isinstance(t, tuple) else t


def _nd_archive_eval(nd, st):
    """One archive: returns [(clause, member, msg)], number of members judged."""
    import io
    names = nd["names"] if nd["family"] == "list" else _nd_catalogue(nd["dir"], st["universe"], st["tier"])
    c = nd["container"]
    blob = _nd_pack(c, names)
    rich = st["rich"]
    del rich[:]
    shown = f"{c} archive of {len(names)} member(s)"
    try:
        list(_ORIG[_ARCHIVE_FN](io.BytesIO(blob), "box." + c))
    except Exception as e:  # noqa
        return [("member", names[0], f"read_archive({shown}, first {names[0]!r}) raised {type(e).__name__}: {str(e)[:200]}")], 0
    got = {}
    for mod, fn, path, _fl in rich:
        member = path.split("!/", 1)[1] if isinstance(path, str) and "!/" in path else path
        got.setdefault(member, []).append((mod, fn))
    del rich[:]
    fails = []
    for member in sorted(set(got) - set(names), key=str):
        fails.append(("member", names[0], f"{shown}: an extractor was called for {member!r}, which is not a member"))
    for f in names:
        b = f.rsplit("/", 1)[-1]
        s, tgt = _route(b)
        g = got.get(f, [])
        e = ref_ext(b)
        doc = (_EX + REF[e][0], REF[e][1]) if e in REF else None
        if b.startswith(".") or f.startswith("__MACOSX/") or tgt == _ARCHIVE_FN or doc == _ARCHIVE_FN:
            # hidden members and archives inside archives: the statement does not say whether they are opened; if they
            # are, then by the extractor the router names
            if any(x != tgt for x in g):
                fails.append(("member", f, f"{shown}: member {f!r} reached {[x[1] for x in g]}, get_extractor({b!r}) gives {_nd_short(tgt)}"))
            continue
        exp = [tgt] if isinstance(tgt, tuple) else []
        if g != exp:
            fails.append(("member", f, f"{shown}: member {f!r} reached {[x[1] for x in g] or 'no extractor'}, but is_supported_file({b!r}) = {s} and "
                                       f"get_extractor({b!r}) gives {_nd_short(tgt)}"))
        elif doc is not None and g != [doc]:
            fails.append(("member", f, f"{shown}: member {f!r} reached {[x[1] for x in g] or 'no extractor'}, documented {doc[1]}"))
    return fails, len(names)


def _nd_run_atts(pairs, st):
    """iterate_supported_attachments over fresh EmailAttachment objects: per attachment the list of extractors reached."""
    import io
    from sharepoint2text.parsing.extractors.data_types import EmailAddress, EmailAttachment, EmailContent
    from sharepoint2text.parsing.mime_types import is_supported_mime_type
    atts = [EmailAttachment(filename=n, mime_type=m, data=io.BytesIO(b"x"), is_supported_mime_type=is_supported_mime_type(m)) for n, m in pairs]
    return _nd_dispatch(EmailContent(from_email=EmailAddress(), attachments=atts), st)


def _nd_dispatch(mail, st):
    rich = st["rich"]
    del rich[:]
    try:
        list(mail.iterate_supported_attachments())
    except Exception as e:  # noqa
        del rich[:]
        return f"raised {type(e).__name__}: {str(e)[:160]}"
    per = [[] for _ in mail.attachments]
    order = []
    for mod, fn, _path, fl in rich:
        for i, a in enumerate(mail.attachments):
            if a.data is fl:
                per[i].append((mod, fn))
                order.append(i)
                break
        else:
            order.append(-1)
    del rich[:]
    if order != sorted(order) or -1 in order:
        return f"extractors were called in the order {order} of the attachment list (-1: a stream that is no attachment's)"
    return per


def _nd_alone(n, m, st):
    key = (n, m)
    if key not in st["alone"]:
        r = _nd_run_atts([(n, m)], st)
        st["alone"][key] = r if isinstance(r, str) else r[0]
    return st["alone"][key]


def _nd_atts_eval(nd, st):
    """One mail: returns [(clause, index, msg)], number of attachments judged."""
    import io
    from sharepoint2text.parsing.mime_types import is_supported_mime_type
    seq = [tuple(x) for x in nd["seq"]]
    entry = nd["entry"]
    if entry == "dataclass":
        per = _nd_run_atts(seq, st)
        parsed = seq
    else:
        from verif.gen import mail as GM
        spec = {"structure": "mixed-plain-att-att", "attachments": [{"filename": n, "ctype": m, "data_hex": "78"} for n, m in seq]}
        data = GM.eml(spec) if entry == "eml" else GM.mbox([spec])
        try:
            mails = list(_ORIG[_EML_FN if entry == "eml" else _MBOX_FN](io.BytesIO(data), "m." + entry))
        except Exception as e:  # noqa
            return [("attachment", 0, f"{entry} reader raised {type(e).__name__} on a mail with {len(seq)} attachments: {str(e)[:160]}")], 0
        if len(mails) != 1:
            return [("attachment", 0, f"{entry} reader returned {len(mails)} mails for one message with {len(seq)} attachments")], 0
        parsed = [(a.filename, a.mime_type) for a in mails[0].attachments]
        flags = [a.is_supported_mime_type for a in mails[0].attachments]
        # judged on the names and declared types the reader reports (it lower-cases the type); how a mail is parsed into
        # attachments is another property's subject
        if [n for n, _ in parsed] != [n for n, _ in seq] or flags != [is_supported_mime_type(m) for _, m in parsed]:
            st["incomparable"] = st.get("incomparable", 0) + 1
            return [], 0
        per = _nd_dispatch(mails[0], st)
    shown = f"{entry} mail with attachments {[list(x) for x in seq[:4]]}" + (f" ... ({len(seq)})" if len(seq) > 4 else "")
    if isinstance(per, str):
        return [("attachment", 0, f"{shown}: iterate_supported_attachments {per}")], 0
    fails = []
    for i, (n, m) in enumerate(parsed):
        g = per[i]
        s, tgt = _route(n)
        if is_supported_mime_type(m) and isinstance(tgt, tuple) and g != [tgt]:
            fails.append(("attachment", i, f"{shown}: attachment #{i} {n!r} ({m}) reached {[x[1] for x in g] or 'no extractor'}, get_extractor({n!r}) gives {tgt[1]}"))
            continue
        if len(parsed) > 1 or entry != "dataclass":
            al = _nd_alone(n, m, st)
            if g != al:
                fails.append(("attachment", i, f"{shown}: attachment #{i} {n!r} ({m}) reached {[x[1] for x in g] or 'no extractor'} here and "
                                               f"{[x[1] for x in al] if not isinstance(al, str) else al or 'no extractor'} as the only attachment of a mail"))
    return fails, len(parsed)


def _nd_eval(nd, st):
    if nd.get("only") and nd["only"] != st["cfg"]:
        return [], 0
    return _nd_archive_eval(nd, st) if nd["kind"] == "archive" else _nd_atts_eval(nd, st)


def _nd_wrap(nd, target):
    nd = dict(nd)
    if nd["kind"] == "archive":
        nd["member"] = target
        b = str(target).rsplit("/", 1)[-1]
        return {"path": target, "class": ["member", nd["container"], classify(b, "")[0]], "via": "nd", "nd": nd}
    nd["index"] = target
    return {"path": nd["seq"][target][0], "class": ["attachment", nd["entry"]], "via": "nd", "nd": nd}


def _nd_part(arg):
    tier, cfg, k, n, seed = arg
    st = _nd_state(cfg)
    st["tier"] = tier
    ev = parts = 0
    fails = []
    outs = {}
    per_kind = {}
    last = None
    for i, nd in enumerate(nd_cases(tier)):
        if i % n != k:
            continue
        f, np_ = _nd_eval(nd, st)
        if not np_ and not f:
            continue
        if nd.get("family") == "catalogue":
            nd = dict(nd, tier=tier)
        ev += 1
        parts += np_
        if ev % 5000 == 0:
            P.note(("nd", cfg, k, ev))
        key = nd["kind"] + ":" + (nd["container"] + ":" + nd["family"] if nd["kind"] == "archive" else nd["entry"] + ":" + str(len(nd["seq"])))
        per_kind[key] = per_kind.get(key, 0) + 1
        for clause, target, msg in f:
            fails.append((clause, cfg, _nd_wrap(nd, target), msg))
        last = nd
    samples = [{"config": cfg, "nested": last}] if k == 0 and last else []
    return {"ev": ev, "fails": fails, "outs": outs, "samples": samples, "per_kind": per_kind, "parts": parts, "incomparable": st.get("incomparable", 0)}


def _nd_one(arg):
    cfg, case = arg
    st = _nd_state(cfg)
    nd = dict(case["nd"])
    st["tier"] = nd.pop("tier", "quick")
    nd.pop("only", None)
    target = nd.pop("member", None) if nd["kind"] == "archive" else nd.pop("index", None)
    return [(c, m) for c, t, m in _nd_eval(nd, st)[0] if t == target]


def _nd_shrinks(case):
    nd = case["nd"]
    out = []
    if nd["kind"] == "archive":
        f = nd["member"]
        names = nd["names"] if nd["family"] == "list" else None
        base = {"kind": "archive", "container": nd["container"], "family": "list"}
        if names is None or len(names) > 1:
            out.append(_nd_wrap(dict(base, names=[f]), f))
        if names is not None and len(names) > 2:
            for x in names:
                if x != f:
                    out.append(_nd_wrap(dict(base, names=[y for y in names if y != x]), f))
        if names is not None:
            b = f.rsplit("/", 1)[-1]
            for g in (b, "a" + _fs_suffix(b), f.lower()):      # no directory, plain stem, lower case (the container kind stays)
                if g != f and g not in names:
                    out.append(_nd_wrap(dict(base, names=[g if y == f else y for y in names]), g))
        return out
    seq, i = nd["seq"], nd["index"]
    for j in range(len(seq)):
        if j != i:
            out.append(_nd_wrap({"kind": "atts", "entry": nd["entry"], "seq": seq[:j] + seq[j + 1:]}, i - (j < i)))
    if nd["entry"] != "dataclass":
        out.append(_nd_wrap({"kind": "atts", "entry": "dataclass", "seq": seq}, i))
    return out


# ---------------------------------------------------------------------------------------------------------------------
# Space H: configuration histories. "For every path x mimetypes configuration" is a statement about the configuration IN
# FORCE when the router is asked: a process lives through several (the host application calls mimetypes.add_type / init,
# a test suite patches the database, the library is imported before or after that), and both router functions must follow
# the same - current - database. Every history runs in a process of its own, created for it.
H_CONFIGS = ("default", "empty", "hostile", "moved", "swapped")
_H_FRESH = {"seq": None, "warm": True, "pristine": False}


def _h_walk(start, cfgs=H_CONFIGS):
    """Closed walk from `start` through every ordered pair (c, d) of configurations, c -> c included, exactly once
    (Eulerian circuit of the complete digraph with loops; Hierholzer, neighbours in list order rotated to `start`)."""
    order = list(cfgs)
    k = order.index(start)
    order = order[k:] + order[:k]
    adj = {c: list(order) for c in order}
    stack, circuit = [start], []
    while stack:
        v = stack[-1]
        if adj[v]:
            stack.append(adj[v].pop(0))
        else:
            circuit.append(stack.pop())
    return circuit[::-1]


def h_cases(tier):
    """Histories of the tier: {"seq": configurations in order, "warm": every path is asked at every stage (else only at
    the last one), "pristine": the library is imported before the first configuration is set (else right after it)}."""
    out = [{"seq": _h_walk(c), "warm": True, "pristine": False} for c in H_CONFIGS]
    if tier != "quick":
        for t in itertools.product(H_CONFIGS, repeat=3):
            out.append({"seq": list(t), "warm": True, "pristine": False})
        for a, b in itertools.product(H_CONFIGS, repeat=2):
            out.append({"seq": [a, b], "warm": False, "pristine": False})
            out.append({"seq": [a, b], "warm": True, "pristine": True})
            out.append({"seq": [a, b], "warm": False, "pristine": True})
    return out


def _h_universe():
    """Extension universe of space H (the same in every process): default-configuration universe + the extensions the
    hostile configuration invents. Leaves the default configuration in force."""
    configure("default")
    return sorted(set(extension_universe()) | {f"zz{i}" for i in range(len(_mime_mapping()))})


def h_paths(tier, universe):
    """Paths asked at every stage. Must be called under the default configuration (as left by _h_universe)."""
    import mimetypes
    quick = tier == "quick"
    mm = _mime_mapping()
    typed = {k[1:].lower() for k, v in mimetypes.types_map.items() if v in mm}       # the default database gives them a supported type
    out = []
    for e in universe:
        if quick:
            out += [f"a.{e}", f"a.{e.upper()}"]
        else:
            out += [f"a.{v}" for v in case_variants(e)] + [f"a.{e.upper()}", e]
        if not quick or e in REF or e in typed or e.startswith("zz"):
            out.append(f"d.v1/a b.{e}")
    twelve = ["docx", "pdf", "txt", "gz", "tar", "zip", "7z", "htm", "bak", "xz", "bz2", "eml"]
    for a, b in itertools.product(twelve, twelve):
        out.append(f"a.{a}.{b}")
    for mt in sorted(mm):
        out.append(f"data:{mt},x")
    return sorted(set(out))


def _h_run(hist, tier, extra=()):
    """Live through one history in THIS process (which must not have imported the library yet). Returns per judged stage
    {"i", "cfg", "outs": outcome per path, "fails": [(path index, clause, msg)]} and the path list."""
    import sys
    if any(m == "sharepoint2text" or m.startswith("sharepoint2text.") for m in sys.modules):
        raise RuntimeError("space H: the library is already imported in this process (a history needs a process of its own)")
    seq, warm, pristine = hist["seq"], hist["warm"], hist["pristine"]
    if pristine:
        import sharepoint2text  # noqa  (before this process has touched the mimetypes module's state)
    universe = _h_universe()
    pl = h_paths(tier, universe)
    pl += [p for p in extra if p not in set(pl)]
    stages = []
    for i, c in enumerate(seq):
        configure(c)
        if i == 0 and not pristine:
            import sharepoint2text  # noqa  (under the first configuration)
        if not warm and i < len(seq) - 1:
            continue
        outs, fails = [], []
        for j, p in enumerate(pl):
            f, oc = check_path(p)
            outs.append(oc if isinstance(oc, str) else (oc[0], oc[1]))
            for clause, msg in f:
                fails.append((j, clause, msg))
        stages.append({"i": i, "cfg": c, "outs": outs, "fails": fails})
    return stages, pl


def _h_label(hist, i):
    seq = hist["seq"]
    imp = "before any configuration" if hist["pristine"] else f"under {seq[0]}"
    asked = "asked at every stage" if hist["warm"] else "not asked before"
    return f"library imported {imp}; configurations so far {' > '.join(seq[:i + 1])}; {asked}"


def _h_case(hist, i, p):
    return {"path": p, "class": ["hist", classify(p, "")[0]], "via": "hist",
            "hist": {"seq": list(hist["seq"][:i + 1]), "warm": hist["warm"], "pristine": hist["pristine"]}}


def _h_task(arg):
    tier, hist, seed, want_paths = arg
    stages, pl = _h_run(hist, tier)
    table, codes = {}, []
    for st in stages:
        row = []
        for oc in st["outs"]:
            key = str(oc)
            if key not in table:
                table[key] = (len(table), oc)
            row.append(table[key][0])
        codes.append(row)
    return {"ev": sum(len(st["outs"]) for st in stages), "stages": [(st["i"], st["cfg"], st["fails"]) for st in stages], "codes": codes,
            "table": [oc for _, oc in sorted(table.values(), key=lambda t: t[0])], "npaths": len(pl), "paths": pl if want_paths else None,
            "digest": __import__("hashlib").sha1("\n".join(pl).encode("utf-8", "surrogatepass")).hexdigest()}


def _h_fresh_map(func, args, ncpu):
    """Every task in a process created for it: pools of exactly as many workers as tasks (a pool hands its first tasks to
    newly spawned workers, one each)."""
    res = []
    args = list(args)
    for o in range(0, len(args), ncpu):
        batch = args[o:o + ncpu]
        res += P.run_all("verif.props.C07", func, batch, n=len(batch), hard_timeout=1800)
    return res


def _h_judge(results, hists, pl):
    """Master side: the library's own clauses per stage, and clause confighist - the answer under the configuration in
    force equals the answer of a process that has only ever seen that configuration. Per history, path and clause the FIRST
    failing stage is reported."""
    ref = {}
    for h, r in zip(hists, results):
        if h["warm"] and not h["pristine"] and r["stages"] and r["stages"][0][0] == 0:
            ref.setdefault(h["seq"][0], [tuple(r["table"][c]) if isinstance(r["table"][c], (list, tuple)) else r["table"][c] for c in r["codes"][0]])
    fails = []
    for h, r in zip(hists, results):
        seen = set()
        for (i, c, sf), row in zip(r["stages"], r["codes"]):
            for j, clause, msg in sf:
                if (j, clause) not in seen:
                    seen.add((j, clause))
                    fails.append((clause, c, _h_case(h, i, pl[j]), f"[{_h_label(h, i)}] {msg}"))
            rf = ref.get(c)
            if rf is None or (i == 0 and not h["pristine"]):
                continue
            for j, code in enumerate(row):
                oc = r["table"][code]
                oc = tuple(oc) if isinstance(oc, (list, tuple)) else oc
                if oc != rf[j] and (j, "confighist") not in seen:
                    seen.add((j, "confighist"))
                    fails.append(("confighist", c, _h_case(h, i, pl[j]),
                                  f"[{_h_label(h, i)}] the router answers {oc} for {pl[j]!r} under {c}; a process that has only ever seen {c} answers {rf[j]}"))
    return fails, ref


def _h_one(arg):
    """Re-execution of one case: ("run", hist, path) lives through the history and returns the last stage's verdicts and
    outcome for the path; the reference is the same with the one-configuration history."""
    hist, p = arg
    stages, pl = _h_run(hist, "quick", extra=(p,))
    st = stages[-1]
    j = pl.index(p)
    oc = st["outs"][j]
    return {"fails": [(clause, msg) for jj, clause, msg in st["fails"] if jj == j], "out": oc if isinstance(oc, str) else list(oc)}


def _h_single(cfg, case):
    hist, p = case["hist"], case["path"]
    if not hist["seq"] or hist["seq"][-1] != cfg:
        return []
    fresh = dict(_H_FRESH, seq=[cfg])
    res = _h_fresh_map("_h_one", [(hist, p), (fresh, p)], 2)
    for st, r, _ in res:
        if st != "done":
            raise RuntimeError(f"history re-execution failed: {st}: {str(r)[-300:]}")
    got, rf = res[0][1], res[1][1]
    i = len(hist["seq"]) - 1
    out = [(c, f"[{_h_label(hist, i)}] {m}") for c, m in got["fails"]]
    if got["out"] != rf["out"] and (len(hist["seq"]) > 1 or hist["pristine"]):
        out.append(("confighist", f"[{_h_label(hist, i)}] the router answers {got['out']} for {p!r} under {cfg}; a process that has only ever seen {cfg} answers {rf['out']}"))
    return out


def _h_shrinks(case):
    hist, p = case["hist"], case["path"]
    seq = hist["seq"]
    out = []

    def alt(path=p, **kw):
        h = dict(hist)
        h.update(kw)
        if h != hist or path != p:
            c = {"path": path, "class": ["hist", classify(path, "")[0]], "via": "hist", "hist": h}
            if c["class"] == case["class"] and c not in out:
                out.append(c)
    if len(seq) > 2:
        alt(seq=[seq[0], seq[-1]])
        alt(seq=[seq[-2], seq[-1]])
    if len(seq) > 1:
        alt(seq=[seq[-1]])
    if len(seq) > 3:
        for k in range(1, len(seq) - 1):
            alt(seq=seq[:k] + seq[k + 1:])
    if hist["pristine"]:
        alt(pristine=False)
    if hist["warm"] and len(seq) > 1:
        alt(warm=False)
    sfx = _fs_suffix(p.rsplit("/", 1)[-1])
    if sfx and not p.startswith("data:"):
        alt(path="a" + sfx.lower())
    return out


_REEXEC_POOL = []


def _fs_single(cfg, fs):
    # one long-lived worker for all re-executions (the spies must never be installed in the master process)
    if not _REEXEC_POOL:
        _REEXEC_POOL.append(P.Pool(1))
    res = _REEXEC_POOL[0].map("verif.props.C07", "_fs_one", [(cfg, fs)], hard_timeout=600)
    st, r, _ = res[0]
    if st != "done":
        raise RuntimeError(f"fs re-execution failed: {st}: {str(r)[-300:]}")
    return [tuple(x) for x in r]


def _nd_single(cfg, case):
    if not _REEXEC_POOL:
        _REEXEC_POOL.append(P.Pool(1))
    res = _REEXEC_POOL[0].map("verif.props.C07", "_nd_one", [(cfg, case)], hard_timeout=600)
    st, r, _ = res[0]
    if st != "done":
        raise RuntimeError(f"nested-dispatch re-execution failed: {st}: {str(r)[-300:]}")
    return [tuple(x) for x in r]


def reexec(fmt, case):
    if case.get("via") == "hist":
        return _h_single(fmt, case)
    if case.get("via") == "fs":
        return _fs_single(fmt, case["fs"])
    if case.get("via") == "nd":
        return _nd_single(fmt, case)
    configure("default")
    import sharepoint2text  # noqa  (as in the sweep: imported under the default configuration, then the configuration is set)
    configure(fmt)
    p = case["path"]
    if case.get("via") == "readfile":
        return _readfile_single(fmt, p)
    out = list(check_path(p)[0])
    if case["class"][0] == "alias" and p.startswith("x."):
        import sharepoint2text
        a = p[2:]
        try:
            if sharepoint2text.get_extractor(p) is not sharepoint2text.get_extractor("x." + ALIAS_BASE.get(a, a)):
                out.append(("alias", "alias and base differ"))
        except Exception:
            out.append(("alias", "alias lookup raised"))
    return out


def _readfile_single(cfg, nm):
    if "/" in nm or "\\" in nm or "\x00" in nm or not nm or nm in (".", ".."):
        return []
    res = P.run_all("verif.props.C07", "_readfile_part", [("quick", cfg, 0)], n=1)
    st, r, _ = res[0]
    if st != "done":
        return []
    return [(c, m) for c, f, cs, m in r["fails"] if cs["path"] == nm]


def shrinks(case):
    if case.get("via") == "hist":
        return _h_shrinks(case)
    if case.get("via") == "nd":
        return _nd_shrinks(case)
    if case.get("via") != "fs":
        return []
    fs = case["fs"]
    out = []

    def alt(**kw):
        f = dict(fs)
        f.update(kw)
        if f["form"] != "file":
            f["target"] = _fs_target(f["name"], f["t"], f["form"])
        if f != fs:
            out.append(_fs_wrap(f))
    alt(arg="str")
    alt(content="x")
    if fs["name"] != FS_NOEXT:
        alt(name="a.txt")
    alt(name=fs["name"].lower())
    return out


def embeds(small, big):
    return small["class"] == big["class"]


def run(ctx):
    cfgs = ["default", "empty", "hostile"]
    n = 10 if ctx.quick else 16
    args = [(ctx.tier, c, k, n, ctx.seed) for c in cfgs for k in range(n)]
    random.Random(ctx.seed).shuffle(args)
    res = P.run_all("verif.props.C07", "_part", args, n=ctx.ncpu, hard_timeout=1800)
    res2 = P.run_all("verif.props.C07", "_readfile_part", [(ctx.tier, c, ctx.seed) for c in cfgs], n=3, hard_timeout=1800)
    nf = 5 if ctx.quick else 16
    args3 = [(ctx.tier, c, k, nf, ctx.seed) for c in cfgs for k in range(nf)]
    random.Random(ctx.seed + 1).shuffle(args3)
    res3 = P.run_all("verif.props.C07", "_fs_part", args3, n=ctx.ncpu, hard_timeout=1800)
    nn = 2 if ctx.quick else 16
    args4 = [(ctx.tier, c, k, nn, ctx.seed) for c in cfgs for k in range(nn)]
    random.Random(ctx.seed + 2).shuffle(args4)
    res4 = P.run_all("verif.props.C07", "_nd_part", args4, n=ctx.ncpu, hard_timeout=1800)
    hists = h_cases(ctx.tier)
    order = list(range(len(hists)))
    random.Random(ctx.seed + 3).shuffle(order)
    res5 = _h_fresh_map("_h_task", [(ctx.tier, hists[i], ctx.seed, i == 0) for i in order], ctx.ncpu)
    res5 = [res5[order.index(i)] for i in range(len(hists))]
    ev = 0
    fails = []
    outs = {}
    samples = []
    herr = []
    per_cfg = {}
    h_ev = h_stages = 0
    h_paths_n = 0
    if all(st == "done" for st, _, _ in res5):
        rs = [r for _, r, _ in res5]
        if len({r["digest"] for r in rs}) != 1:
            herr.append("space H: the path list differs between processes")
        else:
            hf, href = _h_judge(rs, hists, rs[0]["paths"])
            fails += hf
            if set(href) != set(H_CONFIGS):
                herr.append(f"space H: no single-configuration reference for {sorted(set(H_CONFIGS) - set(href))}")
            h_ev = sum(r["ev"] for r in rs)
            h_stages = sum(len(r["stages"]) for r in rs)
            h_paths_n = rs[0]["npaths"]
            ev += h_ev
            for r in rs:
                for row in r["codes"]:
                    for c in set(row):
                        key = "hist:" + str(r["table"][c])
                        outs[key] = outs.get(key, 0) + row.count(c)
            samples.append({"history": hists[0]["seq"][:4] + ["..."], "paths": h_paths_n})
    else:
        for (st, r, _), h in zip(res5, hists):
            if st != "done":
                herr.append(f"history task {h} failed: {st}: {str(r)[-500:]}")
    fs_ev = 0
    fs_forms = {}
    fs_skipped = set()
    nd_ev = nd_parts = nd_incomp = 0
    nd_kinds = {}
    for (st, r, _), a in list(zip(res, args)) + list(zip(res2, [(ctx.tier, c, "rf") for c in cfgs])) + list(zip(res3, args3)) + list(zip(res4, args4)):
        if st != "done":
            herr.append(f"task {a} failed: {st}: {str(r)[-500:]}")
            continue
        if "per_form" in r:
            fs_ev += r["ev"]
            fs_skipped |= set(r["skipped"])
            for k_, v in r["per_form"].items():
                fs_forms[k_] = fs_forms.get(k_, 0) + v
        if "per_kind" in r:
            nd_ev += r["ev"]
            nd_parts += r["parts"]
            nd_incomp += r["incomparable"]
            for k_, v in r["per_kind"].items():
                nd_kinds[k_] = nd_kinds.get(k_, 0) + v
        ev += r["ev"]
        per_cfg[a[1]] = per_cfg.get(a[1], 0) + r["ev"]
        fails += [tuple(x) for x in r["fails"]]
        for k_, v in r["outs"].items():
            outs[k_] = outs.get(k_, 0) + v
        samples += r["samples"]
    cov = {"evaluations": ev, "distinct_nontrivial": len(outs),
           "rule": "every path = stem x '.' x case-variant(extension) x trailer for every extension known to the router, the README, the "
                   "platform mimetypes maps and a junk list (all 2^n case patterns for n<=4 letters), all ordered pairs of 12 extensions as "
                   "compound forms, data: URLs for every mapped MIME type; under 3 mimetypes configurations (default, empty, hostile); "
                   "plus read_file on real temp files with spy extractors; plus filesystem layouts (names x forms x targets x contents x "
                   "argument kinds, see fs_family) judged for router independence of the disk state and read_file == get_extractor; "
                   "plus nested dispatch (archive members, mail attachments, see nested_family): every part reaches exactly "
                   "get_extractor(its name), alone and next to siblings; "
                   "plus configuration histories (see history_family): the router follows the configuration in force, whatever was "
                   "in force at import time or when it was asked before; "
                   "distinct_nontrivial = distinct (supported?, extractor) outcomes",
           "fs_family": {"evaluations": fs_ev, "names": dict(zip(("full_product", "quick_product"), map(len, _fs_names(ctx.tier)))), "forms": list(FS_FORMS), "targets": list(FS_TARGETS),
                         "contents": sorted(FS_CONTENTS), "args": list(FS_ARGS), "per_form": dict(sorted(fs_forms.items())),
                         "skipped_forms": sorted(fs_skipped),
                         "bounds": "quick_product names x (file x 13 contents + file x 3 other args + 7 link/dir forms x 9 targets + symlink x 3 "
                                   "targets x 3 other args); full_product names (thorough only) x (file x 13 contents x 4 args + 7 link/dir "
                                   "forms x 9 targets x 4 args + symlink x 9 targets x 12 contents)"},
           "nested_family": {"evaluations": nd_ev, "parts_judged": nd_parts, "containers": list(ND_CONTAINERS), "directories": list(ND_DIRS),
                             "entries": list(ND_ENTRIES), "representative_names": _nd_rep_names(), "names_alone": len(_nd_names(ctx.tier)),
                             "declared_types": len(_nd_mimes()), "per_kind": dict(sorted(nd_kinds.items())),
                             "mails_parsed_differently_not_judged": nd_incomp,
                             "bounds": "archives: catalogue (every extension of the default-configuration universe, lower+UPPER, + 5 stems and "
                                       "Title case [thorough: all case variants] for the documented ones, + extension-less and __MACOSX names) x "
                                       "3 directory prefixes x zip, tar [quick: 1 prefix for tar.gz, tar.bz2, tar.xz, 7z; thorough: 3]; every name "
                                       "alone x zip, tar, 7z [thorough: 6 containers]; ordered pairs of the representative names x zip [thorough: "
                                       "of all documented lower-case names x zip, tar, 7z, representative x the compressed tars]; same base name in "
                                       "two directories / next to its hidden twin. attachments (EmailContent data class): every name x every "
                                       "declared type alone; one declared type x ordered pairs with repetition of representative names [thorough: "
                                       "all documented lower-case names]; one name x ordered pairs of declared types (all pairs for unroutable "
                                       "names, ring successor for routable ones [thorough: all]); two names with a fitting declared type each; "
                                       "thorough: triples of representative names per declared type (default configuration). attachments "
                                       "through the real .eml and mbox readers: all representative names under one declared type in both orders, "
                                       "per non-composite declared type [thorough: + ordered pairs, default configuration]"},
           "history_family": {"evaluations": h_ev, "histories": len(hists), "stages_judged": h_stages, "paths_per_stage": h_paths_n,
                              "configurations": list(H_CONFIGS),
                              "bounds": "every history in a process created for it. quick: per configuration c one closed walk that starts at c "
                                        "(library imported under c), takes each of the 25 ordered transitions between the 5 configurations "
                                        "once (26 stages) and asks every path at every stage. thorough: + every sequence of 3 configurations, "
                                        "every path asked at every stage; every ordered pair with the paths asked only under the second "
                                        "configuration; every ordered pair with the library imported before the first configuration is set "
                                        "(asked at every stage / only at the end). paths: every extension of the default-configuration "
                                        "universe and of the hostile configuration x (stem a lower + UPPER [thorough: all case variants + bare]; "
                                        "directory-with-dot + blank stem for the documented ones and those the default database gives a "
                                        "supported type [thorough: all]) + 144 double extensions + data: URLs. clauses per stage: "
                                        "raises, equivalence, documented; confighist: same answer as a process that has only ever seen the "
                                        "configuration in force"},
           "per_config": per_cfg, "outcomes": {k: v for k, v in sorted(outs.items())[:80]}, "samples": sorted(samples, key=str)[:6], "exhaustive": True}
    return {"coverage": cov, "failures": fails, "harness_errors": herr,
            "assumptions": ["reference table transcribed from the README format tables", "paths whose trailing extension is not documented "
                            "are only required to satisfy the equivalence and exception-type clauses (MIME fallback is host dependent by design)",
                            "configuration histories: the five configurations are set through the public mimetypes API (init, add_type) "
                            "or by emptying the database's maps; a history-free answer for a path without documented extension is whatever a "
                            "process that has only ever seen the configuration in force answers (the MIME fallback follows the CURRENT database)",
                            "filesystem layouts are built under a tempfile.mkdtemp directory whose own components contain no dot; forms the "
                            "host file system refuses (symbolic or hard links) are skipped and listed in fs_family.skipped_forms",
                            "nested dispatch: hidden archive members (leading dot, __MACOSX/) and archives inside archives may be left "
                            "unopened (if opened, then by the router's extractor); an attachment whose declared type is not a supported one, "
                            "or whose name the router does not know, is only required to be treated as it is when it is the only attachment"]}
