"""C07 - routing: is_supported_file <=> get_extractor succeeds; extension decides; MIME-database independent.

Space I x configurations: every path string of a grammar (extension x case pattern x stem x trailer, compound pairs,
data: URLs) under three mimetypes configurations (default, empty, hostile), each configuration in its own worker.

Space F (filesystem layouts) x configurations: "the decision depends only on the trailing extension of the path STRING"
also means that it does not depend on what the string designates on disk. Every case binds a given name to bytes through
one FORM and asks (a) the router before and after the objects exist (clause fsindep: same answer, plus the usual
equivalence/documented clauses on the live path) and (b) read_file through spy extractors (clause readfile: the spy
reached == get_extractor(str(path)) == the documented extractor). Alphabet, exhaustively multiplied within the bounds:
  names    every documented extension and alias, the 3 compound forms, 6 undocumented ones, lower and UPPER case, stem "a",
           plus an extension-less name (thorough: stem "a" in up to 7 case patterns plus a dot-file get the full product
           below; 5 further stems - inner dot, leading dot, blank, non-ASCII, inner documented extension - in lower and
           UPPER case get the quick product);
  forms    file (regular), symlink (absolute text), rellink (relative text), chain (link -> link -> file),
           hardlink, dirlink (directory component is a link to a directory), dirext (real directory component),
           dotdot (component/../name);
  targets  name of the link target resp. of the directory component: no extension, txt, html, pdf, docx, zip, tar.gz,
           bin (undocumented), and the given name's own extension (control);
  contents 13 byte strings: "x", empty, and the magic prefix of pdf, zip, ole, rtf, html, gzip, bzip2, xz, 7z, mbox, mime;
  args     how the path is handed over: absolute str, pathlib.Path, relative str (cwd = layout root), "./"-relative.
Quick product: name x (file x contents, file x 3 other args, 4 link forms x 9 targets, symlink x 3 targets x 3 other
args, 3 directory forms x 9 targets). Full product (thorough): name x (all forms x all targets x all args, file x
contents x args, symlink x 9 targets x contents). Forms the host file system refuses (probed once per worker) are
skipped and reported. Directories that exist before and after a layout (root, store/, the real directory component of
dirext/dotdot) are scaffold; the router is asked before and after the FILES and LINKS exist.

Space N (nested dispatch) x configurations: read_file is not the only place where a name is handed to the router and the
bytes to the extractor it answers - archive members (read_archive) and mail attachments
(EmailContent.iterate_supported_attachments) are dispatched the same way. With the same spy extractors every PART of a
container must reach exactly [get_extractor(name of the part)] - once, iff is_supported_file(name) - and, for a documented
extension, the documented extractor (clause member); an attachment of a supported declared type whose name the router knows
must reach get_extractor(name), and every attachment must be treated as it is when it is the only one of its mail (clause
attachment: the decision is a function of the part, not of its siblings or their order). Alphabet:
  containers  zip, tar, tar.gz, tar.bz2, tar.xz, 7z (reference writers verif/gen/zipforge, tarforge, sevenz);
  member names  catalogue = directory prefix ("", "d/", "d.docx/e.x/") x (every extension of the default-configuration
              universe [documented, README, platform mimetypes, junk] in lower and UPPER case with stem "a"; every documented /
              compound / undocumented extension with the stems blank, non-ASCII, inner dot, inner documented extension, leading
              dot (hidden) and in Title case [thorough: all case variants]; extension-less names; __MACOSX/ names);
  archives    one catalogue per prefix (quick: 3 prefixes for zip and tar, 1 for the others); every documented name (lower,
              UPPER [thorough: case variants]) ALONE in zip, tar, 7z [thorough: all 6]; ordered PAIRS of the representative
              names (one per documented extractor + 2 undocumented + extension-less = 24) in zip [thorough: of all 63 lower-case
              names in zip, tar, 7z; representative in the compressed tars]; one base name in two directories; a name next to
              its hidden twin;
  attachments (name, declared type) with declared type in every MIME type of the library's mapping + octet-stream + an
              unknown type; the is_supported_mime_type flag is what the library's own function says. Data class: every name x
              every type alone; per type all ordered pairs with repetition of representative names [thorough: of all 63];
              per representative name ordered pairs of types (all for names the reference router does not know, ring successor
              for the others [thorough: all]); two names with a fitting type each; thorough: triples of representative names
              per type (default configuration). Real .eml and mbox readers (reference writer verif/gen/mail): per
              non-composite type one mail with all representative names, in both orders [thorough: + ordered pairs, default
              configuration]; judged on the names and types the reader reports.
Not demanded: that hidden members or archives inside archives are opened (if they are, then by the router's extractor); any
particular treatment of an attachment whose declared type is unsupported or whose name the router does not know (only
sibling independence).
"""
from __future__ import annotations

import itertools
import os
import random
import shutil
import tempfile

from verif.mc import pool as P

LEVEL = "exploration"

# Reference router table: documented extension -> (module suffix, function). Written from the README format tables.
_EX = "sharepoint2text.parsing.extractors."
REF = {
    "docx": ("ms_modern.docx_extractor", "read_docx"), "docm": ("ms_modern.docx_extractor", "read_docx"),
    "dotx": ("ms_modern.docx_extractor", "read_docx"), "dotm": ("ms_modern.docx_extractor", "read_docx"),
    "xlsx": ("ms_modern.xlsx_extractor", "read_xlsx"), "xlsm": ("ms_modern.xlsx_extractor", "read_xlsx"),
    "xltx": ("ms_modern.xlsx_extractor", "read_xlsx"), "xltm": ("ms_modern.xlsx_extractor", "read_xlsx"),
    "pptx": ("ms_modern.pptx_extractor", "read_pptx"), "pptm": ("ms_modern.pptx_extractor", "read_pptx"),
    "potx": ("ms_modern.pptx_extractor", "read_pptx"), "potm": ("ms_modern.pptx_extractor", "read_pptx"),
    "ppsx": ("ms_modern.pptx_extractor", "read_pptx"), "ppsm": ("ms_modern.pptx_extractor", "read_pptx"),
    "doc": ("ms_legacy.doc_extractor", "read_doc"), "dot": ("ms_legacy.doc_extractor", "read_doc"),
    "xls": ("ms_legacy.xls_extractor", "read_xls"), "xlt": ("ms_legacy.xls_extractor", "read_xls"),
    "ppt": ("ms_legacy.ppt_extractor", "read_ppt"), "pot": ("ms_legacy.ppt_extractor", "read_ppt"), "pps": ("ms_legacy.ppt_extractor", "read_ppt"),
    "rtf": ("ms_legacy.rtf_extractor", "read_rtf"),
    "odt": ("open_office.odt_extractor", "read_odt"), "ott": ("open_office.odt_extractor", "read_odt"),
    "odp": ("open_office.odp_extractor", "read_odp"), "otp": ("open_office.odp_extractor", "read_odp"),
    "ods": ("open_office.ods_extractor", "read_ods"), "ots": ("open_office.ods_extractor", "read_ods"),
    "odg": ("open_office.odg_extractor", "read_odg"), "odf": ("open_office.odf_extractor", "read_odf"),
    "msg": ("mail.msg_email_extractor", "read_msg_format_mail"), "mbox": ("mail.mbox_email_extractor", "read_mbox_format_mail"),
    "eml": ("mail.eml_email_extractor", "read_eml_format_mail"),
    "csv": ("plain_extractor", "read_plain_text"), "json": ("plain_extractor", "read_plain_text"), "txt": ("plain_extractor", "read_plain_text"),
    "tsv": ("plain_extractor", "read_plain_text"), "md": ("plain_extractor", "read_plain_text"),
    "pdf": ("pdf.pdf_extractor", "read_pdf"), "html": ("html_extractor", "read_html"), "htm": ("html_extractor", "read_html"),
    "epub": ("epub_extractor", "read_epub"), "mhtml": ("mhtml_extractor", "read_mhtml"), "mht": ("mhtml_extractor", "read_mhtml"),
    "zip": ("archive_extractor", "read_archive"), "tar": ("archive_extractor", "read_archive"), "tgz": ("archive_extractor", "read_archive"),
    "tbz2": ("archive_extractor", "read_archive"), "txz": ("archive_extractor", "read_archive"), "7z": ("archive_extractor", "read_archive"),
    "gz": ("archive_extractor", "read_archive"), "bz2": ("archive_extractor", "read_archive"), "xz": ("archive_extractor", "read_archive"),
}
ALIAS_BASE = {"htm": "html", "mht": "mhtml", "dot": "doc", "dotx": "docx", "dotm": "docm", "xlt": "xls", "xltx": "xlsx", "xltm": "xlsm",
              "pot": "ppt", "potx": "pptx", "potm": "pptm", "pps": "ppt", "ppsx": "pptx", "ppsm": "pptm", "ott": "odt", "ots": "ods",
              "otp": "odp", "gz": "tgz", "bz2": "tbz2", "xz": "txz"}
COMPOUND = {".tar.gz": "tgz", ".tar.bz2": "tbz2", ".tar.xz": "txz"}
STEMS = ["a", "a.b", ".h", "a b", "\u00e4", "", "a.", "dir.d/a", "C:\\x\\a", "http://h/p/a", "dir.docx/a", "a.pdf", "/abs/a", "a?q=1", "a#f"]
TRAILERS = ["", " ", ".", "/", "~", "?x=1"]
JUNK = ["", "x", "docxx", "ddocx", "doc x", "d\u00f6cx", "pdf1", "1", "tar", "TAR.GZ", "tar.gz.bak", "gz.tar", "zzz", "htmlx", "mh", "7", "z7",
        "docx\n", "doc\x00x", "exe", "dll", "bin", "dat", "tmp", "bak", "old", "orig", "log1", "cfgx", "lock", "part", "crdownload"]


def ref_ext(path: str):
    """Reference: lower-cased trailing extension of the last path component (None if there is none)."""
    low = path.lower()
    for c, t in COMPOUND.items():
        if low.endswith(c):
            return t
    base = low.rsplit("/", 1)[-1]
    stripped = base.lstrip(".")
    if "." not in stripped:
        return None
    ext = stripped.rsplit(".", 1)[1]
    return ext or None


def case_variants(ext: str):
    letters = [i for i, ch in enumerate(ext) if ch.isalpha()]
    if len(letters) <= 4:
        out = []
        for mask in range(1 << len(letters)):
            s = list(ext)
            for j, i in enumerate(letters):
                if mask >> j & 1:
                    s[i] = s[i].upper()
            out.append("".join(s))
        return out
    alt = "".join(ch.upper() if i % 2 else ch for i, ch in enumerate(ext))
    return [ext, ext.upper(), ext.title(), alt]


def extension_universe():
    import mimetypes
    exts = set(REF) | set(JUNK) | {c[1:] for c in COMPOUND}
    for m in (mimetypes.types_map, mimetypes.common_types, mimetypes.encodings_map, mimetypes.suffix_map):
        exts |= {k[1:].lower() for k in m}
    return sorted(exts)


def paths(tier):
    """Yield (kind, ext, path)"""
    quick = tier == "quick"
    E = extension_universe()
    for e in E:
        doc = e in REF or e in ("tar.gz", "tar.bz2", "tar.xz")
        stems = STEMS if (doc or not quick) else STEMS[:6]
        trailers = TRAILERS if (doc or not quick) else TRAILERS[:3]
        for v in case_variants(e):
            for st in stems:
                for tr in trailers:
                    yield ("doc" if doc else "other"), e, f"{st}.{v}{tr}"
        yield "noext", e, e
        yield "noext", e, "dir/" + e
    twelve = ["docx", "pdf", "txt", "gz", "tar", "zip", "7z", "htm", "bak", "xz", "bz2", "eml"]
    for a, b in itertools.product(twelve, twelve):
        for st in ("a", "A B", "d.x/a"):
            yield "pair", b, f"{st}.{a}.{b}"
            yield "pair", b, f"{st}.{a.upper()}.{b.upper()}"
    from sharepoint2text.parsing.mime_types import MIME_TYPE_MAPPING
    for mt in sorted(MIME_TYPE_MAPPING):
        yield "dataurl", "", f"data:{mt},x"
        yield "dataurl", "", f"data:{mt};base64,AAAA"


def configure(cfg):
    import mimetypes
    mimetypes.init()
    if cfg == "default":
        return
    db = mimetypes._db
    if cfg == "empty":
        mimetypes.init(files=[])
        db = mimetypes._db
        for d in db.types_map:
            d.clear()
        for d in db.types_map_inv:
            d.clear()
        return
    if cfg == "hostile":
        from sharepoint2text.parsing.mime_types import MIME_TYPE_MAPPING
        mts = sorted(MIME_TYPE_MAPPING)
        exts = sorted(REF)
        for i, e in enumerate(exts):
            # every supported extension claims to be some *other* supported type
            mt = mts[(i * 7 + 3) % len(mts)]
            if MIME_TYPE_MAPPING[mt] == e:
                mt = mts[(i * 7 + 4) % len(mts)]
            mimetypes.add_type(mt, "." + e, strict=True)
        for i, mt in enumerate(mts):
            mimetypes.add_type(mt, f".zz{i}", strict=True)      # unknown extensions reaching each supported MIME type
        for e in ("bak", "exe", "zzz", "log1"):
            mimetypes.add_type("application/pdf", "." + e, strict=True)
        return
    raise ValueError(cfg)


def check_path(p):
    """Returns (fails, outcome)."""
    import sharepoint2text
    from sharepoint2text.parsing.exceptions import ExtractionFileFormatNotSupportedError
    fails = []
    try:
        s = sharepoint2text.is_supported_file(p)
    except Exception as e:  # noqa
        return [("raises", f"is_supported_file({p!r}) raised {type(e).__name__}: {e}")], "exc"
    f = None
    try:
        f = sharepoint2text.get_extractor(p)
        ok = True
    except ExtractionFileFormatNotSupportedError:
        ok = False
    except Exception as e:  # noqa
        return [("raises", f"get_extractor({p!r}) raised {type(e).__name__}: {e}")], "exc"
    if s is not True and s is not False:
        fails.append(("equivalence", f"is_supported_file({p!r}) returned {s!r}"))
    if bool(s) != ok:
        fails.append(("equivalence", f"is_supported_file({p!r}) = {s} but get_extractor {'returns ' + f.__name__ if ok else 'raises not-supported'}"))
    e = ref_ext(p)
    name = None
    if ok:
        name = (f.__module__, f.__name__)
    if e in REF:
        exp = (_EX + REF[e][0], REF[e][1])
        if not ok:
            fails.append(("documented", f"{p!r} has documented extension .{e} but is not routed"))
        elif name != exp:
            fails.append(("documented", f"{p!r} (.{e}) routed to {name[0].rsplit('.', 1)[-1]}.{name[1]}, documented {REF[e][1]}"))
    return fails, (bool(s), name[1] if name else None)


def classify(p, ext):
    """coarse structural class of a path for fingerprints"""
    e = ref_ext(p)
    low_ext = (e or "")
    kind = "documented" if e in REF else ("alias" if e in ALIAS_BASE else "other")
    if e in ALIAS_BASE:
        kind = "alias"
    casek = "lower" if p == p.lower() else ("upper" if p.rsplit(".", 1)[-1] == p.rsplit(".", 1)[-1].upper() else "mixed")
    return [kind, casek]


def _part(arg):
    tier, cfg, k, n, seed = arg
    configure(cfg)
    ev = 0
    fails = []
    outs = {}
    samples = []
    for i, (kind, ext, p) in enumerate(paths(tier)):
        if i % n != k:
            continue
        f, oc = check_path(p)
        ev += 1
        outs[str(oc)] = outs.get(str(oc), 0) + 1
        for clause, msg in f:
            fails.append((clause, cfg, {"path": p, "class": classify(p, ext)}, msg))
        if ev in (5, 4000) and len(samples) < 2:
            samples.append({"config": cfg, "path": p, "outcome": str(oc)})
    # alias == base as the same function object (documented aliases), independent of configuration
    import sharepoint2text
    if k == 0:
        for a, b in ALIAS_BASE.items():
            ev += 1
            try:
                fa, fb = sharepoint2text.get_extractor("x." + a), sharepoint2text.get_extractor("x." + b)
                if fa is not fb:
                    fails.append(("alias", cfg, {"path": "x." + a, "class": ["alias", a, "lower"]}, f".{a} routes to {fa.__name__}, its base .{b} to {fb.__name__}"))
            except Exception as e:  # noqa
                fails.append(("alias", cfg, {"path": "x." + a, "class": ["alias", a, "lower"]}, f"alias .{a}/.{b}: {type(e).__name__}"))
    return {"ev": ev, "fails": fails, "outs": outs, "samples": samples}


_ORIG = {}      # (module, function) -> the library's own extractor, kept when the first spy replaces it in this process


def _install_spies(rich=None):
    """Replace every registered extractor by a spy generator that records (module, function); returns the record list.
    `rich` (a list) additionally receives (module, function, path argument, file-like argument) of every call."""
    import importlib
    from sharepoint2text.parsing import router
    called = []
    for ft, (mod, fn) in router._EXTRACTOR_REGISTRY.items():
        m = importlib.import_module(mod)
        cur = getattr(m, fn)
        if not getattr(cur, "_verif_spy", False):
            _ORIG[(mod, fn)] = cur

        def mk(mod=mod, fn=fn):
            def stub(file_like, path=None):
                called.append((mod, fn))
                if rich is not None:
                    rich.append((mod, fn, path, file_like))
                return
                yield
            stub.__name__ = fn
            stub.__module__ = mod
            stub._verif_spy = True
            return stub
        setattr(m, fn, mk())
    return called


def _readfile_part(arg):
    """read_file dispatches to the same extractor as get_extractor: spy stubs installed on every extractor module."""
    tier, cfg, seed = arg
    configure(cfg)
    import sharepoint2text
    from sharepoint2text.parsing.exceptions import ExtractionFileFormatNotSupportedError
    called = _install_spies()
    ev = 0
    fails = []
    outs = {}
    names = []
    for e in sorted(REF) + ["tar.gz", "tar.bz2", "tar.xz", "bak", "zzz", "text", "xhtml", "zz3"]:
        for v in case_variants(e)[:6] + [e.upper()]:
            for st in ("a", "a.b", ".h", "a b", "\u00e4", "a.pdf"):
                names.append(f"{st}.{v}")
    names = sorted(set(names))
    with tempfile.TemporaryDirectory(prefix="sp2t-verif-") as d:
        for nm in names:
            p = os.path.join(d, nm)
            with open(p, "wb") as fh:
                fh.write(b"x")
            del called[:]
            ev += 1
            try:
                list(sharepoint2text.read_file(p))
                got = called[0] if called else None
            except ExtractionFileFormatNotSupportedError:
                got = "unsupported"
            except Exception as e:  # noqa
                fails.append(("readfile", cfg, {"path": nm, "class": classify(nm, ""), "via": "readfile"}, f"read_file({nm!r}) raised {type(e).__name__}: {e}"))
                os.unlink(p)
                continue
            try:
                f = sharepoint2text.get_extractor(p)
                exp = (f.__module__, f.__name__)
            except ExtractionFileFormatNotSupportedError:
                exp = "unsupported"
            outs[str(got)] = outs.get(str(got), 0) + 1
            if got != exp:
                fails.append(("readfile", cfg, {"path": nm, "class": classify(nm, ""), "via": "readfile"}, f"read_file({nm!r}) dispatched to {got}, get_extractor gives {exp}"))
            e = ref_ext(nm)
            if e in REF and got != (_EX + REF[e][0], REF[e][1]):
                fails.append(("readfile", cfg, {"path": nm, "class": classify(nm, ""), "via": "readfile"}, f"read_file({nm!r}) dispatched to {got}, documented {REF[e][1]}"))
            os.unlink(p)
    return {"ev": ev, "fails": fails, "outs": outs, "samples": [{"config": cfg, "read_file": names[7], "files": len(names)}]}


# ---------------------------------------------------------------------------------------------------------------------
# Space F: filesystem layouts. The routing decision is a function of the path STRING; what the string designates on
# disk (a link to a differently named blob, a hard link, a directory component with an extension, the bytes) is not
# an input of it.
FS_FORMS = ("file", "symlink", "rellink", "chain", "hardlink", "dirlink", "dirext", "dotdot")
FS_LINK_FORMS = ("symlink", "rellink", "chain", "hardlink")
FS_DIR_FORMS = ("dirlink", "dirext", "dotdot")
FS_TARGETS = ("", "txt", "html", "pdf", "docx", "zip", "tar.gz", "bin", "=")     # "" no extension, "=" the given name's own
FS_ARGS = ("str", "Path", "rel", "dotrel")
FS_CONTENTS = {
    "x": b"x", "empty": b"", "pdf": b"%PDF-1.4\n", "zip": b"PK\x03\x04\x14\x00", "ole": b"\xd0\xcf\x11\xe0\xa1\xb1\x1a\xe1",
    "rtf": b"{\\rtf1 x}", "html": b"<html><body><p>x</p></body></html>", "gzip": b"\x1f\x8b\x08\x00", "bzip2": b"BZh9",
    "xz": b"\xfd7zXZ\x00", "7z": b"7z\xbc\xaf\x27\x1c", "mbox": b"From a@b Thu Jan  1 00:00:00 1970\n\nx\n",
    "mime": b"MIME-Version: 1.0\nContent-Type: text/plain\n\nx\n",
}
FS_UNDOC = ("bak", "zzz", "bin", "text", "xhtml", "zz3")
FS_NOEXT = "noext"


def _fs_names(tier):
    """(A, B): names that get the tier's full product / names that get the quick product."""
    exts = sorted(REF) + [c[1:] for c in COMPOUND] + list(FS_UNDOC)
    a, b = [], []
    if tier == "quick":
        for e in exts:
            b += ["a." + e, "a." + e.upper()]
        b.append(FS_NOEXT)
    else:
        for e in exts:
            for v in case_variants(e)[:6] + [e.upper()]:
                a.append("a." + v)
            for st in ("a.b", ".h", "a b", "\u00e4", "a.pdf"):
                b += [f"{st}.{e}", f"{st}.{e.upper()}"]
        a += [FS_NOEXT, ".txt"]
    return sorted(set(a)), sorted(set(b))


def _fs_suffix(name):
    """The given name's own dot-suffix in its own spelling ('' if it has none)."""
    low = name.lower()
    for c in COMPOUND:
        if low.endswith(c):
            return name[-len(c):]
    st = name.lstrip(".")
    if "." not in st:
        return ""
    return "." + st.rsplit(".", 1)[1]


def _fs_target(name, t, form="symlink"):
    stem = "dir" if form in ("dirext", "dotdot") else "blob"       # real directories are scaffold and are never link names
    if t == "=":
        return stem + _fs_suffix(name)
    return stem + ("." + t if t else "")


def _fs_tkind(t):
    if t == "":
        return "none"
    if t == "=":
        return "same"
    return "supported" if (t in REF or "." + t in COMPOUND) else "unsupported"


def _fs_case(form, name, t, content="x", arg="str"):
    return {"form": form, "name": name, "t": t, "target": None if form == "file" else _fs_target(name, t, form), "content": content, "arg": arg}


def fs_cases(tier):
    """Yield every layout of the tier (fs dicts)."""
    full, basic = _fs_names(tier)
    for name in basic:
        for c in FS_CONTENTS:
            yield _fs_case("file", name, "", c)
        for a in FS_ARGS[1:]:
            yield _fs_case("file", name, "", "x", a)
        for form in FS_LINK_FORMS + FS_DIR_FORMS:
            for t in FS_TARGETS:
                yield _fs_case(form, name, t)
        for t in ("", "txt", "bin"):
            for a in FS_ARGS[1:]:
                yield _fs_case("symlink", name, t, "x", a)
    for name in full:
        for c in FS_CONTENTS:
            for a in FS_ARGS:
                yield _fs_case("file", name, "", c, a)
        for form in FS_LINK_FORMS + FS_DIR_FORMS:
            for t in FS_TARGETS:
                for a in FS_ARGS:
                    yield _fs_case(form, name, t, "x", a)
        for t in FS_TARGETS:
            for c in FS_CONTENTS:
                if c != "x":
                    yield _fs_case("symlink", name, t, c)


def _fs_given(fs):
    """The path the caller writes, relative to the layout root."""
    form, name = fs["form"], fs["name"]
    if form in ("dirlink", "dirext"):
        return fs["target"] + "/" + name
    if form == "dotdot":
        return fs["target"] + "/../" + name
    return name


def _fs_wrap(fs):
    return {"path": _fs_given(fs), "class": ["fs", fs["form"], _fs_tkind(fs["t"]) if fs["form"] != "file" else "regular"], "via": "fs", "fs": fs}


def _fs_build(root, fs):
    form, name, target = fs["form"], fs["name"], fs["target"]
    data = FS_CONTENTS[fs["content"]]

    def put(*parts):
        with open(os.path.join(root, *parts), "wb") as fh:
            fh.write(data)
    if form == "file":
        put(name)
    elif form in FS_LINK_FORMS:
        put("store", target)
        if form == "symlink":
            os.symlink(os.path.join(root, "store", target), os.path.join(root, name))
        elif form == "rellink":
            os.symlink("store/" + target, os.path.join(root, name))
        elif form == "chain":
            os.symlink("store/" + target, os.path.join(root, "hop.json"))
            os.symlink("hop.json", os.path.join(root, name))
        else:
            os.link(os.path.join(root, "store", target), os.path.join(root, name))
    elif form == "dirlink":
        put("store", name)
        os.symlink("store", os.path.join(root, target))
    elif form == "dirext":
        put(target, name)
    elif form == "dotdot":
        put(name)
    else:
        raise ValueError(form)


def _fs_base():
    """Scratch directory for the layouts: a memory file system when the host has one (directory removal costs
    milliseconds on some disk file systems); verdicts do not depend on the choice."""
    for d in (os.environ.get("VERIF_FS_TMP"), "/dev/shm"):
        if d and os.path.isdir(d) and os.access(d, os.W_OK | os.X_OK):
            try:
                return tempfile.mkdtemp(prefix="sp2t-verif-", dir=d)
            except OSError:
                continue
    return tempfile.mkdtemp(prefix="sp2t-verif-")


_FS_MADE = set()      # scaffold directories this process has made (they are never removed before the scratch base is)


def _fs_scaffold(root, fs):
    """Directories that exist before AND after a layout: the root, store/, and the real directory component of the
    dirext / dotdot forms (left in place between layouts; a real directory never shares a name with anything else)."""
    for d in (os.path.join(root, "store"),) + ((os.path.join(root, fs["target"]),) if fs["form"] in ("dirext", "dotdot") else ()):
        if d not in _FS_MADE:
            os.makedirs(d, exist_ok=True)
            _FS_MADE.add(d)


def _fs_clear(root):
    """Remove every file and link a layout created below root (the scaffold directories stay, empty)."""
    for ent in list(os.scandir(root)):
        if ent.is_dir(follow_symlinks=False):
            for sub in list(os.scandir(ent.path)):
                os.unlink(sub.path)
        else:
            os.unlink(ent.path)


def _fs_probe(base):
    """Forms this host's file system cannot express (skipped, reported in the coverage)."""
    bad = []
    for form in FS_FORMS:
        root = os.path.join(base, "probe-" + form)
        try:
            _fs_scaffold(root, _fs_case(form, "a.txt", "bin"))
            _fs_build(root, _fs_case(form, "a.txt", "bin"))
            with open(os.path.join(root, _fs_given(_fs_case(form, "a.txt", "bin"))), "rb") as fh:
                fh.read()
        except OSError:
            bad.append(form)
        shutil.rmtree(root, ignore_errors=True)
    return bad


def _fs_eval(base, fs, called):
    """One layout: returns (fails [(clause, msg)], outcome)."""
    import pathlib
    import sharepoint2text
    from sharepoint2text.parsing.exceptions import ExtractionFileFormatNotSupportedError

    def route(p):
        try:
            s = sharepoint2text.is_supported_file(p)
        except Exception as e:  # noqa
            s = f"raised {type(e).__name__}"
        try:
            f = sharepoint2text.get_extractor(p)
            return s, (f.__module__, f.__name__)
        except ExtractionFileFormatNotSupportedError:
            return s, "unsupported"
        except Exception as e:  # noqa
            return s, f"raised {type(e).__name__}"
    root = os.path.join(base, "r")
    _fs_scaffold(root, fs)
    given = _fs_given(fs)
    how = fs["arg"]
    cwd = None
    fails = []
    try:
        if how in ("rel", "dotrel"):
            cwd = os.getcwd()
            os.chdir(root)
            arg = given if how == "rel" else "./" + given
        elif how == "Path":
            arg = pathlib.Path(os.path.join(root, given))
        else:
            arg = os.path.join(root, given)
        p = str(arg)
        shown = f"{given!r} [{fs['form']}" + (f" -> {fs['target']}" if fs["target"] else "") + f", {fs['content']}, {how}]"
        pre = route(p)
        _fs_build(root, fs)
        for clause, msg in check_path(p)[0]:
            fails.append((clause, f"{shown}: " + msg.replace(root + "/", "")))
        post = route(p)
        if post != pre:
            fails.append(("fsindep", f"{shown}: router answered {pre} for the bare string and {post} once the objects exist"))
        del called[:]
        try:
            list(sharepoint2text.read_file(arg))
            got = called[0] if called else None
        except ExtractionFileFormatNotSupportedError:
            got = "unsupported"
        except Exception as e:  # noqa
            got = f"raised {type(e).__name__}"
            fails.append(("readfile", f"read_file({shown}) raised {type(e).__name__}: {str(e).replace(root + '/', '')[:200]}"))
        if not str(got).startswith("raised"):
            if got != pre[1]:
                fails.append(("readfile", f"read_file({shown}) dispatched to {got}, get_extractor on the same string gives {pre[1]}"))
            e = ref_ext(p)
            if e in REF and got != (_EX + REF[e][0], REF[e][1]):
                fails.append(("readfile", f"read_file({shown}) dispatched to {got}, documented {REF[e][1]}"))
    finally:
        if cwd is not None:
            os.chdir(cwd)
        _fs_clear(root)
    return fails, got


def _fs_part(arg):
    tier, cfg, k, n, seed = arg
    configure(cfg)
    called = _install_spies()
    ev = 0
    fails = []
    outs = {}
    per_form = {}
    base = _fs_base()
    try:
        skipped = _fs_probe(base)
        for i, fs in enumerate(fs_cases(tier)):
            if i % n != k or fs["form"] in skipped:
                continue
            f, got = _fs_eval(base, fs, called)
            ev += 1
            if ev % 2000 == 0:
                P.note(("fs", cfg, k, ev))        # progress: the hard timeout then bounds 2000 layouts, not the whole partition
            per_form[fs["form"]] = per_form.get(fs["form"], 0) + 1
            outs["fs:" + str(got)] = outs.get("fs:" + str(got), 0) + 1
            for clause, msg in f:
                fails.append((clause, cfg, _fs_wrap(fs), msg))
    finally:
        shutil.rmtree(base, ignore_errors=True)
    samples = [{"config": cfg, "fs_layout": _fs_wrap(fs)["path"], "fs": fs}] if k == 0 and ev else []
    return {"ev": ev, "fails": fails, "outs": outs, "samples": samples, "per_form": per_form, "skipped": skipped}


def _fs_one(arg):
    cfg, fs = arg
    configure(cfg)
    called = _install_spies()
    base = _fs_base()
    try:
        if fs["form"] in _fs_probe(base):
            return []
        return _fs_eval(base, fs, called)[0]
    finally:
        shutil.rmtree(base, ignore_errors=True)


# ---------------------------------------------------------------------------------------------------------------------
# Space N: nested dispatch. Besides read_file the library has two more places where a NAME is handed to the router and the
# bytes to whatever it answers: the members of an archive (read_archive) and the attachments of a mail
# (EmailContent.iterate_supported_attachments). "Extension decides" and "dispatches to the same extractor" are judged there
# with the same spies: a part reaches exactly the extractor get_extractor(name of the part) names - whatever its siblings
# are, whatever their order, whatever the container.
ND_CONTAINERS = ("zip", "tar", "tar.gz", "tar.bz2", "tar.xz", "7z")
ND_DIRS = ("", "d/", "d.docx/e.x/")
ND_STEMS = ("a b", "ä", "a.b", "a.pdf", ".h")
ND_EXTRA_MIMES = ("application/octet-stream", "application/x-verif-unknown")
ND_ENTRIES = ("dataclass", "eml", "mbox")
_ARCHIVE_FN = (_EX + "archive_extractor", "read_archive")
_EML_FN = (_EX + "mail.eml_email_extractor", "read_eml_format_mail")
_MBOX_FN = (_EX + "mail.mbox_email_extractor", "read_mbox_format_mail")


def _route(p):
    """(is_supported_file answer, (module, function) | 'unsupported' | 'raised X') of the router for one string."""
    import sharepoint2text
    from sharepoint2text.parsing.exceptions import ExtractionFileFormatNotSupportedError
    try:
        s = sharepoint2text.is_supported_file(p)
    except Exception as e:  # noqa
        s = f"raised {type(e).__name__}"
    try:
        f = sharepoint2text.get_extractor(p)
        return s, (f.__module__, f.__name__)
    except ExtractionFileFormatNotSupportedError:
        return s, "unsupported"
    except Exception as e:  # noqa
        return s, f"raised {type(e).__name__}"


def _nd_exts():
    return sorted(REF) + [c[1:] for c in COMPOUND] + list(FS_UNDOC)


def _nd_rep_names():
    """One name per documented extractor (its first extension in sorted order), two undocumented ones (one of them is routed
    by the hostile MIME configuration) and a name without extension."""
    first = {}
    for e in sorted(REF):
        first.setdefault(REF[e], e)
    return ["a." + e for e in sorted(first.values())] + ["a.bak", "a.zz3", FS_NOEXT]


def _nd_names(tier):
    """Names that are judged alone (and, thorough, in pairs): every documented extension and alias, the compound forms,
    the undocumented ones; lower and UPPER case (thorough: the case variants of the other families too)."""
    out = []
    for e in _nd_exts():
        vs = [e, e.upper()] if tier == "quick" else case_variants(e)[:6] + [e.upper()]
        out += ["a." + v for v in vs]
    return sorted(set(out)) + [FS_NOEXT]


def _nd_catalogue(d, universe, tier):
    """Member names of one catalogue archive: directory prefix d x (every extension of the universe in lower and UPPER
    case with stem a; every documented/compound/undocumented extension with 5 further stems - blank, non-ASCII, inner dot,
    inner documented extension, leading dot = hidden - and in Title case; names without extension)."""
    names = []
    for e in universe:
        if not e or any(ord(ch) < 32 or ch in "/\\" for ch in e):
            continue
        names += [f"{d}a.{e}", f"{d}a.{e.upper()}"]
    for e in _nd_exts():
        for st in ND_STEMS:
            names.append(f"{d}{st}.{e}")
        names += [f"{d}a.{v}" for v in ([e.title()] if tier == "quick" else case_variants(e))]
    names += [d + "a", d + "docx", d + "a."]
    if not d:
        names += ["__MACOSX/a.docx", "__MACOSX/d/a.txt"]
    return sorted(set(names))


def _nd_mimes():
    from sharepoint2text.parsing.mime_types import MIME_TYPE_MAPPING
    return sorted(MIME_TYPE_MAPPING) + list(ND_EXTRA_MIMES)


def _nd_natural(name, mimes):
    """A declared type that fits the name: the first mapped MIME type whose file type is the name's (base) extension."""
    from sharepoint2text.parsing.mime_types import MIME_TYPE_MAPPING
    e = ref_ext(name)
    for m in mimes:
        if MIME_TYPE_MAPPING.get(m) in (e, ALIAS_BASE.get(e)):
            return m
    return "text/plain"


def nd_cases(tier):
    """Yield every container of the tier (nd dicts)."""
    quick = tier == "quick"
    rep = _nd_rep_names()
    names = _nd_names(tier)
    wide = rep if quick else ["a." + e for e in _nd_exts()] + [FS_NOEXT]
    # --- archives
    for c in ND_CONTAINERS:
        for d in (ND_DIRS if (c in ("zip", "tar") or not quick) else ND_DIRS[1:2]):
            yield {"kind": "archive", "container": c, "family": "catalogue", "dir": d}
    for c in (("zip", "tar", "7z") if quick else ND_CONTAINERS):
        for nm in names:
            yield {"kind": "archive", "container": c, "family": "list", "names": [nm]}
    for c in (("zip",) if quick else ND_CONTAINERS):
        for a, b in itertools.permutations(wide if c in ("zip", "tar", "7z") else rep, 2):
            yield {"kind": "archive", "container": c, "family": "list", "names": [a, b]}
        for nm in rep:                                   # the same base name in two directories, and next to its hidden twin
            yield {"kind": "archive", "container": c, "family": "list", "names": ["d/" + nm, "e/" + nm]}
            yield {"kind": "archive", "container": c, "family": "list", "names": ["." + nm, nm]}
    # --- attachments (data class)
    mimes = _nd_mimes()
    for nm in names:
        for m in mimes:
            yield {"kind": "atts", "entry": "dataclass", "seq": [[nm, m]]}
    for m in mimes:                                      # one declared type, two names (ordered, with repetition)
        for a, b in itertools.product(wide, repeat=2):
            yield {"kind": "atts", "entry": "dataclass", "seq": [[a, m], [b, m]]}
    for nm in rep:                                       # one name, two declared types
        routable = ref_ext(nm) in REF
        for i, m1 in enumerate(mimes):
            for m2 in ([mimes[(i + 1) % len(mimes)]] if (routable and quick) else mimes):
                yield {"kind": "atts", "entry": "dataclass", "seq": [[nm, m1], [nm, m2]]}
    for a, b in itertools.product(wide, repeat=2):       # two names, each with a declared type of its own
        yield {"kind": "atts", "entry": "dataclass", "seq": [[a, _nd_natural(a, mimes)], [b, _nd_natural(b, mimes)]]}
    if not quick:                                        # three attachments of one declared type
        for m in mimes:
            for t in itertools.product(rep, repeat=3):
                if len(set(t)) > 1:
                    yield {"kind": "atts", "entry": "dataclass", "seq": [[x, m] for x in t], "only": "default"}
    # --- attachments through the real .eml / mbox readers: all representative names under one declared type, both orders
    for entry in ND_ENTRIES[1:]:
        for m in mimes:
            if m.startswith(("message/", "multipart/")):
                continue                                 # the reference mail writer has no composite attachment parts
            for order in (rep, rep[::-1]):
                yield {"kind": "atts", "entry": entry, "seq": [[nm, m] for nm in order]}
            if not quick:
                for a, b in itertools.permutations(rep, 2):
                    yield {"kind": "atts", "entry": entry, "seq": [[a, m], [b, m]], "only": "default"}


def _nd_pack(container, names):
    members = [{"name": n, "data": b"x"} for n in names]
    if container == "zip":
        from verif.gen import zipforge
        return zipforge.zip_honest(members)
    if container == "7z":
        from verif.gen import sevenz
        return sevenz.sevenz(members)
    from verif.gen import tarforge
    return tarforge.tarforge(members, compression={"tar": None, "tar.gz": "gz", "tar.bz2": "bz2", "tar.xz": "xz"}[container], fmt="pax")


def _nd_state(cfg):
    """Per task: default-configuration extension universe, spies with a rich record, the library's own container readers."""
    configure("default")
    universe = extension_universe()
    configure(cfg)
    rich = []
    _install_spies(rich)
    # the archive reader memoises router answers per process; a task starts from a clean slate (new spies, new configuration)
    import importlib
    for v in list(vars(importlib.import_module(_ARCHIVE_FN[0])).values()):
        if callable(getattr(v, "cache_clear", None)):
            v.cache_clear()
    return {"cfg": cfg, "rich": rich, "universe": universe, "alone": {}, "tier": "quick"}


def _nd_short(t):
    return t[1] if isinstance(t, tuple) else t


def _nd_archive_eval(nd, st):
    """One archive: returns [(clause, member, msg)], number of members judged."""
    import io
    names = nd["names"] if nd["family"] == "list" else _nd_catalogue(nd["dir"], st["universe"], st["tier"])
    c = nd["container"]
    blob = _nd_pack(c, names)
    rich = st["rich"]
    del rich[:]
    shown = f"{c} archive of {len(names)} member(s)"
    try:
        list(_ORIG[_ARCHIVE_FN](io.BytesIO(blob), "box." + c))
    except Exception as e:  # noqa
        return [("member", names[0], f"read_archive({shown}, first {names[0]!r}) raised {type(e).__name__}: {str(e)[:200]}")], 0
    got = {}
    for mod, fn, path, _fl in rich:
        member = path.split("!/", 1)[1] if isinstance(path, str) and "!/" in path else path
        got.setdefault(member, []).append((mod, fn))
    del rich[:]
    fails = []
    for member in sorted(set(got) - set(names), key=str):
        fails.append(("member", names[0], f"{shown}: an extractor was called for {member!r}, which is not a member"))
    for f in names:
        b = f.rsplit("/", 1)[-1]
        s, tgt = _route(b)
        g = got.get(f, [])
        e = ref_ext(b)
        doc = (_EX + REF[e][0], REF[e][1]) if e in REF else None
        if b.startswith(".") or f.startswith("__MACOSX/") or tgt == _ARCHIVE_FN or doc == _ARCHIVE_FN:
            # hidden members and archives inside archives: the statement does not say whether they are opened; if they
            # are, then by the extractor the router names
            if any(x != tgt for x in g):
                fails.append(("member", f, f"{shown}: member {f!r} reached {[x[1] for x in g]}, get_extractor({b!r}) gives {_nd_short(tgt)}"))
            continue
        exp = [tgt] if isinstance(tgt, tuple) else []
        if g != exp:
            fails.append(("member", f, f"{shown}: member {f!r} reached {[x[1] for x in g] or 'no extractor'}, but is_supported_file({b!r}) = {s} and "
                                       f"get_extractor({b!r}) gives {_nd_short(tgt)}"))
        elif doc is not None and g != [doc]:
            fails.append(("member", f, f"{shown}: member {f!r} reached {[x[1] for x in g] or 'no extractor'}, documented {doc[1]}"))
    return fails, len(names)


def _nd_run_atts(pairs, st):
    """iterate_supported_attachments over fresh EmailAttachment objects: per attachment the list of extractors reached."""
    import io
    from sharepoint2text.parsing.extractors.data_types import EmailAddress, EmailAttachment, EmailContent
    from sharepoint2text.parsing.mime_types import is_supported_mime_type
    atts = [EmailAttachment(filename=n, mime_type=m, data=io.BytesIO(b"x"), is_supported_mime_type=is_supported_mime_type(m)) for n, m in pairs]
    return _nd_dispatch(EmailContent(from_email=EmailAddress(), attachments=atts), st)


def _nd_dispatch(mail, st):
    rich = st["rich"]
    del rich[:]
    try:
        list(mail.iterate_supported_attachments())
    except Exception as e:  # noqa
        del rich[:]
        return f"raised {type(e).__name__}: {str(e)[:160]}"
    per = [[] for _ in mail.attachments]
    order = []
    for mod, fn, _path, fl in rich:
        for i, a in enumerate(mail.attachments):
            if a.data is fl:
                per[i].append((mod, fn))
                order.append(i)
                break
        else:
            order.append(-1)
    del rich[:]
    if order != sorted(order) or -1 in order:
        return f"extractors were called in the order {order} of the attachment list (-1: a stream that is no attachment's)"
    return per


def _nd_alone(n, m, st):
    key = (n, m)
    if key not in st["alone"]:
        r = _nd_run_atts([(n, m)], st)
        st["alone"][key] = r if isinstance(r, str) else r[0]
    return st["alone"][key]


def _nd_atts_eval(nd, st):
    """One mail: returns [(clause, index, msg)], number of attachments judged."""
    import io
    from sharepoint2text.parsing.mime_types import is_supported_mime_type
    seq = [tuple(x) for x in nd["seq"]]
    entry = nd["entry"]
    if entry == "dataclass":
        per = _nd_run_atts(seq, st)
        parsed = seq
    else:
        from verif.gen import mail as GM
        spec = {"structure": "mixed-plain-att-att", "attachments": [{"filename": n, "ctype": m, "data_hex": "78"} for n, m in seq]}
        data = GM.eml(spec) if entry == "eml" else GM.mbox([spec])
        try:
            mails = list(_ORIG[_EML_FN if entry == "eml" else _MBOX_FN](io.BytesIO(data), "m." + entry))
        except Exception as e:  # noqa
            return [("attachment", 0, f"{entry} reader raised {type(e).__name__} on a mail with {len(seq)} attachments: {str(e)[:160]}")], 0
        if len(mails) != 1:
            return [("attachment", 0, f"{entry} reader returned {len(mails)} mails for one message with {len(seq)} attachments")], 0
        parsed = [(a.filename, a.mime_type) for a in mails[0].attachments]
        flags = [a.is_supported_mime_type for a in mails[0].attachments]
        # judged on the names and declared types the reader reports (it lower-cases the type); how a mail is parsed into
        # attachments is another property's subject
        if [n for n, _ in parsed] != [n for n, _ in seq] or flags != [is_supported_mime_type(m) for _, m in parsed]:
            st["incomparable"] = st.get("incomparable", 0) + 1
            return [], 0
        per = _nd_dispatch(mails[0], st)
    shown = f"{entry} mail with attachments {[list(x) for x in seq[:4]]}" + (f" ... ({len(seq)})" if len(seq) > 4 else "")
    if isinstance(per, str):
        return [("attachment", 0, f"{shown}: iterate_supported_attachments {per}")], 0
    fails = []
    for i, (n, m) in enumerate(parsed):
        g = per[i]
        s, tgt = _route(n)
        if is_supported_mime_type(m) and isinstance(tgt, tuple) and g != [tgt]:
            fails.append(("attachment", i, f"{shown}: attachment #{i} {n!r} ({m}) reached {[x[1] for x in g] or 'no extractor'}, get_extractor({n!r}) gives {tgt[1]}"))
            continue
        if len(parsed) > 1 or entry != "dataclass":
            al = _nd_alone(n, m, st)
            if g != al:
                fails.append(("attachment", i, f"{shown}: attachment #{i} {n!r} ({m}) reached {[x[1] for x in g] or 'no extractor'} here and "
                                               f"{[x[1] for x in al] if not isinstance(al, str) else al or 'no extractor'} as the only attachment of a mail"))
    return fails, len(parsed)


def _nd_eval(nd, st):
    if nd.get("only") and nd["only"] != st["cfg"]:
        return [], 0
    return _nd_archive_eval(nd, st) if nd["kind"] == "archive" else _nd_atts_eval(nd, st)


def _nd_wrap(nd, target):
    nd = dict(nd)
    if nd["kind"] == "archive":
        nd["member"] = target
        b = str(target).rsplit("/", 1)[-1]
        return {"path": target, "class": ["member", nd["container"], classify(b, "")[0]], "via": "nd", "nd": nd}
    nd["index"] = target
    return {"path": nd["seq"][target][0], "class": ["attachment", nd["entry"]], "via": "nd", "nd": nd}


def _nd_part(arg):
    tier, cfg, k, n, seed = arg
    st = _nd_state(cfg)
    st["tier"] = tier
    ev = parts = 0
    fails = []
    outs = {}
    per_kind = {}
    last = None
    for i, nd in enumerate(nd_cases(tier)):
        if i % n != k:
            continue
        f, np_ = _nd_eval(nd, st)
        if not np_ and not f:
            continue
        if nd.get("family") == "catalogue":
            nd = dict(nd, tier=tier)
        ev += 1
        parts += np_
        if ev % 5000 == 0:
            P.note(("nd", cfg, k, ev))
        key = nd["kind"] + ":" + (nd["container"] + ":" + nd["family"] if nd["kind"] == "archive" else nd["entry"] + ":" + str(len(nd["seq"])))
        per_kind[key] = per_kind.get(key, 0) + 1
        for clause, target, msg in f:
            fails.append((clause, cfg, _nd_wrap(nd, target), msg))
        last = nd
    samples = [{"config": cfg, "nested": last}] if k == 0 and last else []
    return {"ev": ev, "fails": fails, "outs": outs, "samples": samples, "per_kind": per_kind, "parts": parts, "incomparable": st.get("incomparable", 0)}


def _nd_one(arg):
    cfg, case = arg
    st = _nd_state(cfg)
    nd = dict(case["nd"])
    st["tier"] = nd.pop("tier", "quick")
    nd.pop("only", None)
    target = nd.pop("member", None) if nd["kind"] == "archive" else nd.pop("index", None)
    return [(c, m) for c, t, m in _nd_eval(nd, st)[0] if t == target]


def _nd_shrinks(case):
    nd = case["nd"]
    out = []
    if nd["kind"] == "archive":
        f = nd["member"]
        names = nd["names"] if nd["family"] == "list" else None
        base = {"kind": "archive", "container": nd["container"], "family": "list"}
        if names is None or len(names) > 1:
            out.append(_nd_wrap(dict(base, names=[f]), f))
        if names is not None and len(names) > 2:
            for x in names:
                if x != f:
                    out.append(_nd_wrap(dict(base, names=[y for y in names if y != x]), f))
        if names is not None:
            b = f.rsplit("/", 1)[-1]
            for g in (b, "a" + _fs_suffix(b), f.lower()):      # no directory, plain stem, lower case (the container kind stays)
                if g != f and g not in names:
                    out.append(_nd_wrap(dict(base, names=[g if y == f else y for y in names]), g))
        return out
    seq, i = nd["seq"], nd["index"]
    for j in range(len(seq)):
        if j != i:
            out.append(_nd_wrap({"kind": "atts", "entry": nd["entry"], "seq": seq[:j] + seq[j + 1:]}, i - (j < i)))
    if nd["entry"] != "dataclass":
        out.append(_nd_wrap({"kind": "atts", "entry": "dataclass", "seq": seq}, i))
    return out


_REEXEC_POOL = []


def _fs_single(cfg, fs):
    # one long-lived worker for all re-executions (the spies must never be installed in the master process)
    if not _REEXEC_POOL:
        _REEXEC_POOL.append(P.Pool(1))
    res = _REEXEC_POOL[0].map("verif.props.C07", "_fs_one", [(cfg, fs)], hard_timeout=600)
    st, r, _ = res[0]
    if st != "done":
        raise RuntimeError(f"fs re-execution failed: {st}: {str(r)[-300:]}")
    return [tuple(x) for x in r]


def _nd_single(cfg, case):
    if not _REEXEC_POOL:
        _REEXEC_POOL.append(P.Pool(1))
    res = _REEXEC_POOL[0].map("verif.props.C07", "_nd_one", [(cfg, case)], hard_timeout=600)
    st, r, _ = res[0]
    if st != "done":
        raise RuntimeError(f"nested-dispatch re-execution failed: {st}: {str(r)[-300:]}")
    return [tuple(x) for x in r]


def reexec(fmt, case):
    if case.get("via") == "fs":
        return _fs_single(fmt, case["fs"])
    if case.get("via") == "nd":
        return _nd_single(fmt, case)
    configure(fmt)
    p = case["path"]
    if case.get("via") == "readfile":
        return _readfile_single(fmt, p)
    out = list(check_path(p)[0])
    if case["class"][0] == "alias" and p.startswith("x."):
        import sharepoint2text
        a = p[2:]
        try:
            if sharepoint2text.get_extractor(p) is not sharepoint2text.get_extractor("x." + ALIAS_BASE.get(a, a)):
                out.append(("alias", "alias and base differ"))
        except Exception:
            out.append(("alias", "alias lookup raised"))
    return out


def _readfile_single(cfg, nm):
    if "/" in nm or "\\" in nm or "\x00" in nm or not nm or nm in (".", ".."):
        return []
    res = P.run_all("verif.props.C07", "_readfile_part", [("quick", cfg, 0)], n=1)
    st, r, _ = res[0]
    if st != "done":
        return []
    return [(c, m) for c, f, cs, m in r["fails"] if cs["path"] == nm]


def shrinks(case):
    if case.get("via") == "nd":
        return _nd_shrinks(case)
    if case.get("via") != "fs":
        return []
    fs = case["fs"]
    out = []

    def alt(**kw):
        f = dict(fs)
        f.update(kw)
        if f["form"] != "file":
            f["target"] = _fs_target(f["name"], f["t"], f["form"])
        if f != fs:
            out.append(_fs_wrap(f))
    alt(arg="str")
    alt(content="x")
    if fs["name"] != FS_NOEXT:
        alt(name="a.txt")
    alt(name=fs["name"].lower())
    return out


def embeds(small, big):
    return small["class"] == big["class"]


def run(ctx):
    cfgs = ["default", "empty", "hostile"]
    n = 10 if ctx.quick else 16
    args = [(ctx.tier, c, k, n, ctx.seed) for c in cfgs for k in range(n)]
    random.Random(ctx.seed).shuffle(args)
    res = P.run_all("verif.props.C07", "_part", args, n=ctx.ncpu, hard_timeout=1800)
    res2 = P.run_all("verif.props.C07", "_readfile_part", [(ctx.tier, c, ctx.seed) for c in cfgs], n=3, hard_timeout=1800)
    nf = 5 if ctx.quick else 16
    args3 = [(ctx.tier, c, k, nf, ctx.seed) for c in cfgs for k in range(nf)]
    random.Random(ctx.seed + 1).shuffle(args3)
    res3 = P.run_all("verif.props.C07", "_fs_part", args3, n=ctx.ncpu, hard_timeout=1800)
    nn = 2 if ctx.quick else 16
    args4 = [(ctx.tier, c, k, nn, ctx.seed) for c in cfgs for k in range(nn)]
    random.Random(ctx.seed + 2).shuffle(args4)
    res4 = P.run_all("verif.props.C07", "_nd_part", args4, n=ctx.ncpu, hard_timeout=1800)
    ev = 0
    fails = []
    outs = {}
    samples = []
    herr = []
    per_cfg = {}
    fs_ev = 0
    fs_forms = {}
    fs_skipped = set()
    nd_ev = nd_parts = nd_incomp = 0
    nd_kinds = {}
    for (st, r, _), a in list(zip(res, args)) + list(zip(res2, [(ctx.tier, c, "rf") for c in cfgs])) + list(zip(res3, args3)) + list(zip(res4, args4)):
        if st != "done":
            herr.append(f"task {a} failed: {st}: {str(r)[-500:]}")
            continue
        if "per_form" in r:
            fs_ev += r["ev"]
            fs_skipped |= set(r["skipped"])
            for k_, v in r["per_form"].items():
                fs_forms[k_] = fs_forms.get(k_, 0) + v
        if "per_kind" in r:
            nd_ev += r["ev"]
            nd_parts += r["parts"]
            nd_incomp += r["incomparable"]
            for k_, v in r["per_kind"].items():
                nd_kinds[k_] = nd_kinds.get(k_, 0) + v
        ev += r["ev"]
        per_cfg[a[1]] = per_cfg.get(a[1], 0) + r["ev"]
        fails += [tuple(x) for x in r["fails"]]
        for k_, v in r["outs"].items():
            outs[k_] = outs.get(k_, 0) + v
        samples += r["samples"]
    cov = {"evaluations": ev, "distinct_nontrivial": len(outs),
           "rule": "every path = stem x '.' x case-variant(extension) x trailer for every extension known to the router, the README, the "
                   "platform mimetypes maps and a junk list (all 2^n case patterns for n<=4 letters), all ordered pairs of 12 extensions as "
                   "compound forms, data: URLs for every mapped MIME type; under 3 mimetypes configurations (default, empty, hostile); "
                   "plus read_file on real temp files with spy extractors; plus filesystem layouts (names x forms x targets x contents x "
                   "argument kinds, see fs_family) judged for router independence of the disk state and read_file == get_extractor; "
                   "plus nested dispatch (archive members, mail attachments, see nested_family): every part reaches exactly "
                   "get_extractor(its name), alone and next to siblings; "
                   "distinct_nontrivial = distinct (supported?, extractor) outcomes",
           "fs_family": {"evaluations": fs_ev, "names": dict(zip(("full_product", "quick_product"), map(len, _fs_names(ctx.tier)))), "forms": list(FS_FORMS), "targets": list(FS_TARGETS),
                         "contents": sorted(FS_CONTENTS), "args": list(FS_ARGS), "per_form": dict(sorted(fs_forms.items())),
                         "skipped_forms": sorted(fs_skipped),
                         "bounds": "quick_product names x (file x 13 contents + file x 3 other args + 7 link/dir forms x 9 targets + symlink x 3 "
                                   "targets x 3 other args); full_product names (thorough only) x (file x 13 contents x 4 args + 7 link/dir "
                                   "forms x 9 targets x 4 args + symlink x 9 targets x 12 contents)"},
           "nested_family": {"evaluations": nd_ev, "parts_judged": nd_parts, "containers": list(ND_CONTAINERS), "directories": list(ND_DIRS),
                             "entries": list(ND_ENTRIES), "representative_names": _nd_rep_names(), "names_alone": len(_nd_names(ctx.tier)),
                             "declared_types": len(_nd_mimes()), "per_kind": dict(sorted(nd_kinds.items())),
                             "mails_parsed_differently_not_judged": nd_incomp,
                             "bounds": "archives: catalogue (every extension of the default-configuration universe, lower+UPPER, + 5 stems and "
                                       "Title case [thorough: all case variants] for the documented ones, + extension-less and __MACOSX names) x "
                                       "3 directory prefixes x zip, tar [quick: 1 prefix for tar.gz, tar.bz2, tar.xz, 7z; thorough: 3]; every name "
                                       "alone x zip, tar, 7z [thorough: 6 containers]; ordered pairs of the representative names x zip [thorough: "
                                       "of all documented lower-case names x zip, tar, 7z, representative x the compressed tars]; same base name in "
                                       "two directories / next to its hidden twin. attachments (EmailContent data class): every name x every "
                                       "declared type alone; one declared type x ordered pairs with repetition of representative names [thorough: "
                                       "all documented lower-case names]; one name x ordered pairs of declared types (all pairs for unroutable "
                                       "names, ring successor for routable ones [thorough: all]); two names with a fitting declared type each; "
                                       "thorough: triples of representative names per declared type (default configuration). attachments "
                                       "through the real .eml and mbox readers: all representative names under one declared type in both orders, "
                                       "per non-composite declared type [thorough: + ordered pairs, default configuration]"},
           "per_config": per_cfg, "outcomes": {k: v for k, v in sorted(outs.items())[:80]}, "samples": sorted(samples, key=str)[:6], "exhaustive": True}
    return {"coverage": cov, "failures": fails, "harness_errors": herr,
            "assumptions": ["reference table transcribed from the README format tables", "paths whose trailing extension is not documented "
                            "are only required to satisfy the equivalence and exception-type clauses (MIME fallback is host dependent by design)",
                            "filesystem layouts are built under a tempfile.mkdtemp directory whose own components contain no dot; forms the "
                            "host file system refuses (symbolic or hard links) are skipped and listed in fs_family.skipped_forms",
                            "nested dispatch: hidden archive members (leading dot, __MACOSX/) and archives inside archives may be left "
                            "unopened (if opened, then by the router's extractor); an attachment whose declared type is not a supported one, "
                            "or whose name the router does not know, is only required to be treated as it is when it is the only attachment"]}
