"""C07 - routing: is_supported_file <=> get_extractor succeeds; extension decides; MIME-database independent.

Space I x configurations: every path string of a grammar (extension x case pattern x stem x trailer, compound pairs,
data: URLs) under three mimetypes configurations (default, empty, hostile), each configuration in its own worker.
"""
from __future__ import annotations

import itertools
import os
import random
import tempfile

from verif.mc import pool as P

LEVEL = "exploration"

# Reference router table: documented extension -> (module suffix, function). Written from the README format tables.
_EX = "sharepoint2text.parsing.extractors."
REF = {
    "docx": ("ms_modern.docx_extractor", "read_docx"), "docm": ("ms_modern.docx_extractor", "read_docx"),
    "dotx": ("ms_modern.docx_extractor", "read_docx"), "dotm": ("ms_modern.docx_extractor", "read_docx"),
    "xlsx": ("ms_modern.xlsx_extractor", "read_xlsx"), "xlsm": ("ms_modern.xlsx_extractor", "read_xlsx"),
    "xltx": ("ms_modern.xlsx_extractor", "read_xlsx"), "xltm": ("ms_modern.xlsx_extractor", "read_xlsx"),
    "pptx": ("ms_modern.pptx_extractor", "read_pptx"), "pptm": ("ms_modern.pptx_extractor", "read_pptx"),
    "potx": ("ms_modern.pptx_extractor", "read_pptx"), "potm": ("ms_modern.pptx_extractor", "read_pptx"),
    "ppsx": ("ms_modern.pptx_extractor", "read_pptx"), "ppsm": ("ms_modern.pptx_extractor", "read_pptx"),
    "doc": ("ms_legacy.doc_extractor", "read_doc"), "dot": ("ms_legacy.doc_extractor", "read_doc"),
    "xls": ("ms_legacy.xls_extractor", "read_xls"), "xlt": ("ms_legacy.xls_extractor", "read_xls"),
    "ppt": ("ms_legacy.ppt_extractor", "read_ppt"), "pot": ("ms_legacy.ppt_extractor", "read_ppt"), "pps": ("ms_legacy.ppt_extractor", "read_ppt"),
    "rtf": ("ms_legacy.rtf_extractor", "read_rtf"),
    "odt": ("open_office.odt_extractor", "read_odt"), "ott": ("open_office.odt_extractor", "read_odt"),
    "odp": ("open_office.odp_extractor", "read_odp"), "otp": ("open_office.odp_extractor", "read_odp"),
    "ods": ("open_office.ods_extractor", "read_ods"), "ots": ("open_office.ods_extractor", "read_ods"),
    "odg": ("open_office.odg_extractor", "read_odg"), "odf": ("open_office.odf_extractor", "read_odf"),
    "msg": ("mail.msg_email_extractor", "read_msg_format_mail"), "mbox": ("mail.mbox_email_extractor", "read_mbox_format_mail"),
    "eml": ("mail.eml_email_extractor", "read_eml_format_mail"),
    "csv": ("plain_extractor", "read_plain_text"), "json": ("plain_extractor", "read_plain_text"), "txt": ("plain_extractor", "read_plain_text"),
    "tsv": ("plain_extractor", "read_plain_text"), "md": ("plain_extractor", "read_plain_text"),
    "pdf": ("pdf.pdf_extractor", "read_pdf"), "html": ("html_extractor", "read_html"), "htm": ("html_extractor", "read_html"),
    "epub": ("epub_extractor", "read_epub"), "mhtml": ("mhtml_extractor", "read_mhtml"), "mht": ("mhtml_extractor", "read_mhtml"),
    "zip": ("archive_extractor", "read_archive"), "tar": ("archive_extractor", "read_archive"), "tgz": ("archive_extractor", "read_archive"),
    "tbz2": ("archive_extractor", "read_archive"), "txz": ("archive_extractor", "read_archive"), "7z": ("archive_extractor", "read_archive"),
    "gz": ("archive_extractor", "read_archive"), "bz2": ("archive_extractor", "read_archive"), "xz": ("archive_extractor", "read_archive"),
}
ALIAS_BASE = {"htm": "html", "mht": "mhtml", "dot": "doc", "dotx": "docx", "dotm": "docm", "xlt": "xls", "xltx": "xlsx", "xltm": "xlsm",
              "pot": "ppt", "potx": "pptx", "potm": "pptm", "pps": "ppt", "ppsx": "pptx", "ppsm": "pptm", "ott": "odt", "ots": "ods",
              "otp": "odp", "gz": "tgz", "bz2": "tbz2", "xz": "txz"}
COMPOUND = {".tar.gz": "tgz", ".tar.bz2": "tbz2", ".tar.xz": "txz"}
STEMS = ["a", "a.b", ".h", "a b", "\u00e4", "", "a.", "dir.d/a", "C:\\x\\a", "http://h/p/a", "dir.docx/a", "a.pdf", "/abs/a", "a?q=1", "a#f"]
TRAILERS = ["", " ", ".", "/", "~", "?x=1"]
JUNK = ["", "x", "docxx", "ddocx", "doc x", "d\u00f6cx", "pdf1", "1", "tar", "TAR.GZ", "tar.gz.bak", "gz.tar", "zzz", "htmlx", "mh", "7", "z7",
        "docx\n", "doc\x00x", "exe", "dll", "bin", "dat", "tmp", "bak", "old", "orig", "log1", "cfgx", "lock", "part", "crdownload"]


def ref_ext(path: str):
    """Reference: lower-cased trailing extension of the last path component (None if there is none)."""
    low = path.lower()
    for c, t in COMPOUND.items():
        if low.endswith(c):
            return t
    base = low.rsplit("/", 1)[-1]
    stripped = base.lstrip(".")
    if "." not in stripped:
        return None
    ext = stripped.rsplit(".", 1)[1]
    return ext or None


def case_variants(ext: str):
    letters = [i for i, ch in enumerate(ext) if ch.isalpha()]
    if len(letters) <= 4:
        out = []
        for mask in range(1 << len(letters)):
            s = list(ext)
            for j, i in enumerate(letters):
                if mask >> j & 1:
                    s[i] = s[i].upper()
            out.append("".join(s))
        return out
    alt = "".join(ch.upper() if i % 2 else ch for i, ch in enumerate(ext))
    return [ext, ext.upper(), ext.title(), alt]


def extension_universe():
    import mimetypes
    exts = set(REF) | set(JUNK) | {c[1:] for c in COMPOUND}
    for m in (mimetypes.types_map, mimetypes.common_types, mimetypes.encodings_map, mimetypes.suffix_map):
        exts |= {k[1:].lower() for k in m}
    return sorted(exts)


def paths(tier):
    """Yield (kind, ext, path)"""
    quick = tier == "quick"
    E = extension_universe()
    for e in E:
        doc = e in REF or e in ("tar.gz", "tar.bz2", "tar.xz")
        stems = STEMS if (doc or not quick) else STEMS[:6]
        trailers = TRAILERS if (doc or not quick) else TRAILERS[:3]
        for v in case_variants(e):
            for st in stems:
                for tr in trailers:
                    yield ("doc" if doc else "other"), e, f"{st}.{v}{tr}"
        yield "noext", e, e
        yield "noext", e, "dir/" + e
    twelve = ["docx", "pdf", "txt", "gz", "tar", "zip", "7z", "htm", "bak", "xz", "bz2", "eml"]
    for a, b in itertools.product(twelve, twelve):
        for st in ("a", "A B", "d.x/a"):
            yield "pair", b, f"{st}.{a}.{b}"
            yield "pair", b, f"{st}.{a.upper()}.{b.upper()}"
    from sharepoint2text.parsing.mime_types import MIME_TYPE_MAPPING
    for mt in sorted(MIME_TYPE_MAPPING):
        yield "dataurl", "", f"data:{mt},x"
        yield "dataurl", "", f"data:{mt};base64,AAAA"


def configure(cfg):
    import mimetypes
    mimetypes.init()
    if cfg == "default":
        return
    db = mimetypes._db
    if cfg == "empty":
        mimetypes.init(files=[])
        db = mimetypes._db
        for d in db.types_map:
            d.clear()
        for d in db.types_map_inv:
            d.clear()
        return
    if cfg == "hostile":
        from sharepoint2text.parsing.mime_types import MIME_TYPE_MAPPING
        mts = sorted(MIME_TYPE_MAPPING)
        exts = sorted(REF)
        for i, e in enumerate(exts):
            # every supported extension claims to be some *other* supported type
            mt = mts[(i * 7 + 3) % len(mts)]
            if MIME_TYPE_MAPPING[mt] == e:
                mt = mts[(i * 7 + 4) % len(mts)]
            mimetypes.add_type(mt, "." + e, strict=True)
        for i, mt in enumerate(mts):
            mimetypes.add_type(mt, f".zz{i}", strict=True)      # unknown extensions reaching each supported MIME type
        for e in ("bak", "exe", "zzz", "log1"):
            mimetypes.add_type("application/pdf", "." + e, strict=True)
        return
    raise ValueError(cfg)


def check_path(p):
    """Returns (fails, outcome)."""
    import sharepoint2text
    from sharepoint2text.parsing.exceptions import ExtractionFileFormatNotSupportedError
    fails = []
    try:
        s = sharepoint2text.is_supported_file(p)
    except Exception as e:  # noqa
        return [("raises", f"is_supported_file({p!r}) raised {type(e).__name__}: {e}")], "exc"
    f = None
    try:
        f = sharepoint2text.get_extractor(p)
        ok = True
    except ExtractionFileFormatNotSupportedError:
        ok = False
    except Exception as e:  # noqa
        return [("raises", f"get_extractor({p!r}) raised {type(e).__name__}: {e}")], "exc"
    if s is not True and s is not False:
        fails.append(("equivalence", f"is_supported_file({p!r}) returned {s!r}"))
    if bool(s) != ok:
        fails.append(("equivalence", f"is_supported_file({p!r}) = {s} but get_extractor {'returns ' + f.__name__ if ok else 'raises not-supported'}"))
    e = ref_ext(p)
    name = None
    if ok:
        name = (f.__module__, f.__name__)
    if e in REF:
        exp = (_EX + REF[e][0], REF[e][1])
        if not ok:
            fails.append(("documented", f"{p!r} has documented extension .{e} but is not routed"))
        elif name != exp:
            fails.append(("documented", f"{p!r} (.{e}) routed to {name[0].rsplit('.', 1)[-1]}.{name[1]}, documented {REF[e][1]}"))
    return fails, (bool(s), name[1] if name else None)


def classify(p, ext):
    """coarse structural class of a path for fingerprints"""
    e = ref_ext(p)
    low_ext = (e or "")
    kind = "documented" if e in REF else ("alias" if e in ALIAS_BASE else "other")
    if e in ALIAS_BASE:
        kind = "alias"
    casek = "lower" if p == p.lower() else ("upper" if p.rsplit(".", 1)[-1] == p.rsplit(".", 1)[-1].upper() else "mixed")
    return [kind, casek]


def _part(arg):
    tier, cfg, k, n, seed = arg
    configure(cfg)
    ev = 0
    fails = []
    outs = {}
    samples = []
    for i, (kind, ext, p) in enumerate(paths(tier)):
        if i % n != k:
            continue
        f, oc = check_path(p)
        ev += 1
        outs[str(oc)] = outs.get(str(oc), 0) + 1
        for clause, msg in f:
            fails.append((clause, cfg, {"path": p, "class": classify(p, ext)}, msg))
        if ev in (5, 4000) and len(samples) < 2:
            samples.append({"config": cfg, "path": p, "outcome": str(oc)})
    # alias == base as the same function object (documented aliases), independent of configuration
    import sharepoint2text
    if k == 0:
        for a, b in ALIAS_BASE.items():
            ev += 1
            try:
                fa, fb = sharepoint2text.get_extractor("x." + a), sharepoint2text.get_extractor("x." + b)
                if fa is not fb:
                    fails.append(("alias", cfg, {"path": "x." + a, "class": ["alias", a, "lower"]}, f".{a} routes to {fa.__name__}, its base .{b} to {fb.__name__}"))
            except Exception as e:  # noqa
                fails.append(("alias", cfg, {"path": "x." + a, "class": ["alias", a, "lower"]}, f"alias .{a}/.{b}: {type(e).__name__}"))
    return {"ev": ev, "fails": fails, "outs": outs, "samples": samples}


def _readfile_part(arg):
    """read_file dispatches to the same extractor as get_extractor: spy stubs installed on every extractor module."""
    tier, cfg, seed = arg
    configure(cfg)
    import importlib
    import sharepoint2text
    from sharepoint2text.parsing import router
    from sharepoint2text.parsing.exceptions import ExtractionFileFormatNotSupportedError
    called = []
    for ft, (mod, fn) in router._EXTRACTOR_REGISTRY.items():
        m = importlib.import_module(mod)

        def mk(mod=mod, fn=fn):
            def stub(file_like, path=None):
                called.append((mod, fn))
                return
                yield
            stub.__name__ = fn
            stub.__module__ = mod
            return stub
        setattr(m, fn, mk())
    ev = 0
    fails = []
    outs = {}
    names = []
    for e in sorted(REF) + ["tar.gz", "tar.bz2", "tar.xz", "bak", "zzz", "text", "xhtml", "zz3"]:
        for v in case_variants(e)[:6] + [e.upper()]:
            for st in ("a", "a.b", ".h", "a b", "\u00e4", "a.pdf"):
                names.append(f"{st}.{v}")
    names = sorted(set(names))
    with tempfile.TemporaryDirectory(prefix="sp2t-verif-") as d:
        for nm in names:
            p = os.path.join(d, nm)
            with open(p, "wb") as fh:
                fh.write(b"x")
            del called[:]
            ev += 1
            try:
                list(sharepoint2text.read_file(p))
                got = called[0] if called else None
            except ExtractionFileFormatNotSupportedError:
                got = "unsupported"
            except Exception as e:  # noqa
                fails.append(("readfile", cfg, {"path": nm, "class": classify(nm, ""), "via": "readfile"}, f"read_file({nm!r}) raised {type(e).__name__}: {e}"))
                os.unlink(p)
                continue
            try:
                f = sharepoint2text.get_extractor(p)
                exp = (f.__module__, f.__name__)
            except ExtractionFileFormatNotSupportedError:
                exp = "unsupported"
            outs[str(got)] = outs.get(str(got), 0) + 1
            if got != exp:
                fails.append(("readfile", cfg, {"path": nm, "class": classify(nm, ""), "via": "readfile"}, f"read_file({nm!r}) dispatched to {got}, get_extractor gives {exp}"))
            e = ref_ext(nm)
            if e in REF and got != (_EX + REF[e][0], REF[e][1]):
                fails.append(("readfile", cfg, {"path": nm, "class": classify(nm, ""), "via": "readfile"}, f"read_file({nm!r}) dispatched to {got}, documented {REF[e][1]}"))
            os.unlink(p)
    return {"ev": ev, "fails": fails, "outs": outs, "samples": [{"config": cfg, "read_file": names[7], "files": len(names)}]}


def reexec(fmt, case):
    configure(fmt)
    p = case["path"]
    if case.get("via") == "readfile":
        return _readfile_single(fmt, p)
    out = list(check_path(p)[0])
    if case["class"][0] == "alias" and p.startswith("x."):
        import sharepoint2text
        a = p[2:]
        try:
            if sharepoint2text.get_extractor(p) is not sharepoint2text.get_extractor("x." + ALIAS_BASE.get(a, a)):
                out.append(("alias", "alias and base differ"))
        except Exception:
            out.append(("alias", "alias lookup raised"))
    return out


def _readfile_single(cfg, nm):
    if "/" in nm or "\\" in nm or "\x00" in nm or not nm or nm in (".", ".."):
        return []
    res = P.run_all("verif.props.C07", "_readfile_part", [("quick", cfg, 0)], n=1)
    st, r, _ = res[0]
    if st != "done":
        return []
    return [(c, m) for c, f, cs, m in r["fails"] if cs["path"] == nm]


def shrinks(case):
    return []


def embeds(small, big):
    return small["class"] == big["class"]


def run(ctx):
    cfgs = ["default", "empty", "hostile"]
    n = 10 if ctx.quick else 16
    args = [(ctx.tier, c, k, n, ctx.seed) for c in cfgs for k in range(n)]
    random.Random(ctx.seed).shuffle(args)
    res = P.run_all("verif.props.C07", "_part", args, n=ctx.ncpu, hard_timeout=1800)
    res2 = P.run_all("verif.props.C07", "_readfile_part", [(ctx.tier, c, ctx.seed) for c in cfgs], n=3, hard_timeout=1800)
    ev = 0
    fails = []
    outs = {}
    samples = []
    herr = []
    per_cfg = {}
    for (st, r, _), a in list(zip(res, args)) + list(zip(res2, [(ctx.tier, c, "rf") for c in cfgs])):
        if st != "done":
            herr.append(f"task {a} failed: {st}: {str(r)[-500:]}")
            continue
        ev += r["ev"]
        per_cfg[a[1]] = per_cfg.get(a[1], 0) + r["ev"]
        fails += [tuple(x) for x in r["fails"]]
        for k_, v in r["outs"].items():
            outs[k_] = outs.get(k_, 0) + v
        samples += r["samples"]
    cov = {"evaluations": ev, "distinct_nontrivial": len(outs),
           "rule": "every path = stem x '.' x case-variant(extension) x trailer for every extension known to the router, the README, the "
                   "platform mimetypes maps and a junk list (all 2^n case patterns for n<=4 letters), all ordered pairs of 12 extensions as "
                   "compound forms, data: URLs for every mapped MIME type; under 3 mimetypes configurations (default, empty, hostile); "
                   "plus read_file on real temp files with spy extractors; distinct_nontrivial = distinct (supported?, extractor) outcomes",
           "per_config": per_cfg, "outcomes": {k: v for k, v in sorted(outs.items())[:80]}, "samples": sorted(samples, key=str)[:6], "exhaustive": True}
    return {"coverage": cov, "failures": fails, "harness_errors": herr,
            "assumptions": ["reference table transcribed from the README format tables", "paths whose trailing extension is not documented "
                            "are only required to satisfy the equivalence and exception-type clauses (MIME fallback is host dependent by design)"]}
