"""C10 - archive members come out as themselves: right bytes, name, order.

Space I over (member sequence x container layout x one corruption).  A case is plain JSON

    {"lay": {...layout...}, "members": [kind, ...], "corrupt": None | [position, how]}

members   every sequence of length 0..2 (quick) / 0..3 (thorough) over
              txt html docx xlsx pdf eml   small generated documents (distinct tokens per position)
              empty                        a 0-byte file  <tok>.txt
              dir                          a directory entry; the members after it live inside it (dir/<tok>.txt, dir/dir/..)
              hidden                       .<tok>.txt  (dot file: must produce no result)
              bin                          <tok>.bin   (unsupported type: must produce no result)
layouts   zip  {"arch": "zip", "comp": stored | deflated | mixed}                     written by zipfile (zipforge.zip_honest)
          tar  {"arch": "tar", "comp": plain | gz | bz2 | xz}                         written by tarfile (tarforge, ustar)
          7z   {"arch": "7z", "coder": copy | lzma | lzma2, "layout": solid | per_file | two_folders,
                "header": plain | encoded, "between": False | True}                   independent writer verif.gen.sevenz
          packer variants (base cases only): tar + {"fmt": "gnu"} (GNU tar headers); 7z plain header + {"attrs": "unix"}
          (attribute and modification-time records as p7zip writes them)
long      order family (base cases only): longer member sequences over reduced alphabets, so that every relative placement of
          empty files, directories and skipped members among >= 2 data streams in >= 2 folders occurs (with two members there is
          one pair; a re-ordering keyed on a per-member attribute - folder number, has-a-stream, supported, depth - needs three):
              quick     length 3 over txt html empty dir bin (125) + length 4 over txt empty dir bin (256)
              thorough  length 4 over txt html empty dir bin (625) + length 5 over txt empty bin (243)
          on long_layouts(): quick = zip 3, tar 4, 7z 3 coders x 3 folder layouts (plain header) + 2 with empty files between
          (copy per_file plain / lzma2 two_folders encoded) = 18; thorough = every layout without a name family (56)
names     member-name families (lay["names"], base cases only); each is crossed with every member sequence on the layouts listed
          in name_layouts(): quick = zip stored/deflated, tar plain (ustar, GNU) / gz, 7z copy-solid / lzma2-per-file unless noted;
          thorough = every zip / tar (x ustar, GNU, pax) / 7z coder x folder layout (sequences of length 0..3 on the quick
          layouts, 0..2 on the added ones)
              wide       names outside ASCII (incl. UTF-16 code units with a zero byte next to a zero byte)
              dotslash   every name relative to the current directory: ./<tok>.txt, ./dir/<tok>.txt (tar -cf x.tar . / zip -r x.zip .)
              dotdir     every directory is a dot directory .<dir>/ ; presence of the files below it is NOT judged (hidden or not is a
                         matter of reading), what is yielded must be right
              inner:0-2  look-alikes of the skip rules where they do not decide: directories <d>.zip/ __MACOSX<d>.bin/ x__MACOSX/, stems
                         <n>.tar.<ext> __MACOSX.v1.2<n>.<ext> <n>.bin..zip.x.<ext>  (3 rotations: every form at every position)
              upper      extensions in upper case / capitalised (.TXT, .Docx)
              space      leading, inner, double and trailing blanks in stems and directory names
              same       one stem and one directory name for all positions: two versions of a file under one name (what tar -r / -u,
                         tarfile mode "a" and zipfile.writestr leave behind; tar plain/gz/bz2/xz + GNU, zip), namesakes in different
                         directories, the same stem with different extensions.  7z archives with one name twice are not judged
              long       stems of 120 and directory names of 90 characters: GNU ././@LongLink members, pax extended headers (tar), zip, 7z
              split      directory names of 90 + stems of 60 characters: the ustar prefix / name split (tar ustar only)
              lead:<m>   every stem and directory name starts with the printable start of a magic number, <m> in BZ PK 7z (thorough:
                         also PK\x03\x04): a plain tar begins with the name of its first member (tar plain x ustar/GNU[/pax]; tar gz, zip,
                         7z as controls)
          results are matched to members by (file_path, occurrence number); "." components of a path are not compared
corrupt   one member at a time, every position that carries a data stream, archives with >= 1 other member that has a result
          "doc"    damaged document: the member's bytes are cut in half, the container is consistent        (zip, tar, 7z)
          "crc"    zip: the CRC-32 field of the member (local + central header) is wrong
          "trunc"  zip: the deflate stream of the member ends early (header says so, the container is structurally intact)
                   7z:  the pack stream of the member's folder ends early (pack size in the header agrees)
          "flip"   7z:  one byte of the member's packed data is inverted (copy coder: a byte in the middle of the member, the stored
                        CRC no longer matches; LZMA / LZMA2: the first byte of the folder's pack stream, which no decoder accepts)
          truncation keeps the first half of the stream
          "zbtype" "zstored" "zdist"   zip, deflated members: the deflate stream itself is invalid while every header field and
                   the CRC stay those of the honest archive (the first bytes of the member's compressed data are overwritten):
                   reserved block type 3 / a stored block whose LEN and NLEN disagree / a fixed-Huffman match that points before
                   the start of the output.  The inflater (not the CRC check, not the end of the data) rejects the member.
far       dictionary family (base cases only, 7z LZMA / LZMA2): the coder properties declare a SMALL dictionary
          (lay["dict"] in 4096 6144 8192 12288; thorough + 16384 24576 65536 and encoded headers) and the members are large
          against it:   far  <tok>.txt = a block of 3/4 dictionary size of pseudo-random words, written twice (matches at a
                                         distance in (dict/2, dict] inside one member)
                        blk  <tok>.txt = the same block once (two of them in one solid folder: the match crosses members)
                        txt  the small text document
          every sequence of length 1..2 (thorough 1..3) over far blk txt x lzma lzma2 x solid per_file two_folders x dict.
          A decoder set up with less than the declared dictionary cannot resolve the far matches.  run() reports for which
          (coder, dict) the stream of a "far" member really needs more than half the declared dictionary (coverage
          bounds.far_family.needs_full_dict).

Oracle
  base cases (no corruption): [(filename, file_path, to_json minus file metadata)] of read_archive(BytesIO(archive), path=A) equals,
  in archive order, the direct extraction get_extractor(basename)(BytesIO(member bytes), path=f"{A}!/{member}") of every supported
  visible member (clauses raises / member_result [absent or different] / missing_empty / extra / order / filename).
  corrupted cases: the results of the members that the corruption cannot reach (other members; for a damaged compressed 7z folder:
  members of other folders) are, as far as they were yielded, the same and in the same order as for the uncorrupted archive
  (clause corrupt_spreads); a damaged document yields what extracting the damaged bytes on their own yields (clause damaged_own).
  Corrupted cases are judged only if the uncorrupted archive passes the base clauses (one defect, one clause).
Every archive is first read back by an independent reader (zipfile / tarfile / selftest_sevenz.Reader7z); a generator that does
not round-trip is a harness error, not a finding.
"""
from __future__ import annotations

import hashlib
import io
import itertools
import json
import logging
import os
import random
import tarfile
import warnings
import zipfile
import zlib

from verif.gen import htmlfam, mail, ooxml, pdfw, plain, sevenz as SZ, tarforge, zipforge
from verif.gen.tokens import Tokens
from verif.mc import pool as P

LEVEL = "exploration"

KINDS = ["txt", "html", "docx", "xlsx", "pdf", "eml", "xls", "ppt", "empty", "dir", "hidden", "bin"]
DOC_KINDS = ("txt", "html", "docx", "xlsx", "pdf", "eml", "xls", "ppt")   # xls/ppt: legacy readers have their own error class
FAR_KINDS = ("far", "blk")                             # dictionary family: text documents that are large against the dictionary
RESULT_KINDS = DOC_KINDS + ("empty", "between") + FAR_KINDS        # supported visible members
STREAM_KINDS = DOC_KINDS + ("hidden", "bin") + FAR_KINDS           # members that own a non-empty data stream
EXT = {"txt": "txt", "html": "html", "docx": "docx", "xlsx": "xlsx", "pdf": "pdf", "eml": "eml", "xls": "xls", "ppt": "ppt", "empty": "txt", "hidden": "txt",
       "bin": "bin", "far": "txt", "blk": "txt"}
# deflate streams that the inflater itself rejects (written over the first bytes of a member's compressed data)
ZSTREAM = {"zbtype": b"\x07",                       # BFINAL=1 BTYPE=3 (reserved)
           "zstored": b"\x01\x05\x00\x00\x00",       # stored block, LEN=5 NLEN=0 (not the complement)
           "zdist": b"\x03\x02\x00"}                 # fixed Huffman block: length 3, distance 1 with no output yet
# dictionary family: declared 7z LZMA / LZMA2 dictionary sizes (the writer's default is 65536), (length, kinds) per tier
FAR_DICTS = {"quick": [4096, 6144, 8192, 12288], "thorough": [4096, 6144, 8192, 12288, 16384, 24576, 65536]}
FAR_SEQ_KINDS = ["far", "blk", "txt"]
FAR_MAXLEN = {"quick": 2, "thorough": 3}
FAR_CODERS = ["lzma", "lzma2"]
ZIP_COMP = ["stored", "deflated", "mixed"]
TAR_COMP = ["plain", "gz", "bz2", "xz"]
SZ_CODERS = ["copy", "lzma", "lzma2"]
SZ_LAYOUTS = ["solid", "per_file", "two_folders"]
SZ_HEADERS = ["plain", "encoded"]
ARCH_PATH = {"zip": "pkg/Archive.zip", "7z": "pkg/Archive.7z", "tar:plain": "pkg/Archive.tar", "tar:gz": "pkg/Archive.tar.gz",
             "tar:bz2": "pkg/Archive.tar.bz2", "tar:xz": "pkg/Archive.tar.xz"}
META_FILE_FIELDS = ("filename", "file_extension", "file_path", "folder_path")
MAXLEN = 6
# order family: longer sequences over reduced alphabets (base cases only); (length, kinds) per tier
LONG_SEQS = {"quick": [(3, ["txt", "html", "empty", "dir", "bin"]), (4, ["txt", "empty", "dir", "bin"])],
             "thorough": [(4, ["txt", "html", "empty", "dir", "bin"]), (5, ["txt", "empty", "bin"])]}
WIDE_NAMES = ["a\u4e00b", "\u00e9\u3000x", "z\u0100", "2024\u3000\u5831\u544a", "\u0436\u0400q", "\u7b2c\u4e00\u7ae0"]
# member-name families (lay["names"]); every family is crossed with every member sequence on a small set of layouts (name_layouts)
LEADS = ["BZ", "PK", "7z"]                      # printable starts of the compression / container magics
LEADS_THOROUGH = ["PK\x03\x04"]                # a complete binary magic (thorough tier)
NAME_FAMILIES = (["dotslash", "dotdir", "inner:0", "inner:1", "inner:2", "upper", "space", "same", "long", "split"]
                 + ["lead:" + x for x in LEADS])
# look-alikes of the skip rules (dot file, __MACOSX/ prefix, unsupported / nested-archive extension) in the part of the name that
# does not decide: directory names and the inside of the stem
INNER_DIRS = ["{}.zip", "__MACOSX{}.bin", "x__MACOSX"]
INNER_STEMS = ["{}.tar", "__MACOSX.v1.2{}", "{}.bin..zip.x"]
SPACE_FORMS = [" {} {}", "{}  {} "]
LONG_STEM, LONG_DIR, SPLIT_STEM = 120, 90, 60


# ------------------------------------------------------------------------------------------------------------ members
_TOK = {}
_BYTES = {}


def _tokens(seed):
    if seed not in _TOK:
        tk = Tokens(seed)
        _TOK[seed] = [{"name": tk.new("N"), "dir": tk.new("N"), "sheet": tk.new("N"), "h": tk.new("H"), "b1": tk.new("B"), "b2": tk.new("B"),
                       "c": [tk.new("C") for _ in range(3)], "x": tk.new("X")} for _ in range(MAXLEN)]
    return _TOK[seed]


def _p(*toks):
    return ["p", [["t", t] for t in toks]]


def member_bytes(seed, pos, kind):
    key = (seed, pos, kind)
    if key in _BYTES:
        return _BYTES[key]
    t = _tokens(seed)[pos]
    if kind == "txt":
        b = plain.txt(["doc", {}, [["unit", [_p(t["b1"]), _p(t["b2"])], {}]]])
    elif kind == "html":
        b = htmlfam.html_page(f"<h1>{t['h']}</h1><p>{t['b1']}</p><p>{t['b2']}</p>", title=t["h"]).encode("utf-8")
    elif kind == "docx":
        b = ooxml.docx(["doc", {"title": t["h"]}, [["unit", [_p(t["b1"]), _p(t["b2"])], {}]]])
    elif kind == "xlsx":
        c = t["c"]
        b = ooxml.xlsx(["doc", {}, [["sheet", t["sheet"], [[["s", c[0]], ["s", c[1]]], [["s", c[2]], ["i", 7 + pos]]]]]])
    elif kind == "pdf":
        b = pdfw.pdf(["doc", {}, [["unit", [_p(t["b1"]), _p(t["b2"])], {}]]])
    elif kind == "eml":
        b = mail.eml({"structure": "plain", "body_plain": t["b1"] + "\n" + t["b2"], "subject": ["ascii", t["h"]]})
    elif kind == "xls":
        from verif.gen import biff8
        c = t["c"]
        b = biff8.xls(["doc", {}, [["sheet", t["sheet"], [[["s", c[0]], ["s", c[1]]], [["s", c[2]], ["i", 7 + pos]]]]]])
    elif kind == "ppt":
        from verif.gen import pptbin
        b = pptbin.ppt(["doc", {}, [["unit", [["h", 1, [["t", t["h"]]]], _p(t["b1"])], {}]]])
    elif kind == "empty":
        b = b""
    elif kind == "hidden":
        b = (t["x"] + "\n").encode()
    elif kind == "bin":
        b = b"\x00\x01\x02" + t["x"].encode() + b"\xff\xfe"
    else:
        raise ValueError(kind)
    _BYTES[key] = b
    return b


_FAR = {}


def far_block(seed, n):
    """n bytes of pseudo-random lower-case words (poorly compressible within themselves), deterministic in (seed, n)"""
    key = (seed, n)
    if key not in _FAR:
        out, k = [], 0
        size = 0
        while size < n:
            h = hashlib.sha256(f"C10far:{seed}:{k}".encode()).digest()
            k += 1
            w = "".join(chr(97 + b % 26) for b in h)
            for a, b in ((0, 5), (5, 12), (12, 16), (16, 25), (25, 32)):
                out.append(w[a:b])
                size += b - a + 1
            if k % 3 == 0:
                out.append("\n")
        text = " ".join(out).replace(" \n ", "\n")
        _FAR[key] = text[:n - 1].encode() + b"\n"
    return _FAR[key]


def far_bytes(seed, kind, dict_size):
    blk = far_block(seed, dict_size * 3 // 4)
    return blk + blk if kind == "far" else blk


def damage(data: bytes) -> bytes:
    return data[:len(data) // 2]


def name_parts(fam, i, toks):
    """(stem, directory name, extension transform) of position i in the member-name family fam"""
    stem, d, ext = toks[i]["name"], toks[i]["dir"], (lambda e: e)
    if fam == "wide":
        # non-ASCII names; in UTF-16LE (7z) a character below U+0100 followed by one whose low byte is 00 puts two zero
        # bytes next to each other across a code-unit boundary
        stem = stem[:4] + WIDE_NAMES[i % len(WIDE_NAMES)]
    elif fam == "same":
        stem, d = toks[0]["name"], toks[0]["dir"]          # one stem, one directory name: versions of a file, namesakes
    elif fam == "dotdir":
        d = "." + d
    elif fam and fam.startswith("inner:"):
        k = (i + int(fam[6:])) % len(INNER_DIRS)
        stem, d = INNER_STEMS[k].format(stem), INNER_DIRS[k].format(d)
    elif fam == "upper":
        ext = (lambda e: e.upper()) if i % 2 == 0 else (lambda e: e.capitalize())
    elif fam == "space":
        f = SPACE_FORMS[i % len(SPACE_FORMS)]
        stem, d = f.format(stem[:3], stem[3:]), f.format(d[:2], d[2:])
    elif fam == "long":
        stem, d = stem + "L" * (LONG_STEM - len(stem)), d + "d" * (LONG_DIR - len(d))
    elif fam == "split":
        stem, d = stem + "s" * (SPLIT_STEM - len(stem)), d + "d" * (LONG_DIR - len(d))
    elif fam and fam.startswith("lead:"):
        stem, d = fam[5:] + stem, fam[5:] + d
    return stem, d, ext


def build_members(case, seed):
    """-> list of {"name", "kind", "data" (bytes | None for directories), "pos"} in archive order (7z 'between' not yet applied);
    "optional": True marks a member whose presence among the results is not judged (file below a dot directory)"""
    toks = _tokens(seed)
    cor = case.get("corrupt")
    fam = case["lay"].get("names")
    out = []
    cur = "./" if fam == "dotslash" else ""
    root = cur
    for i, kind in enumerate(case["members"]):
        stem, d, ext = name_parts(fam, i, toks)
        if kind == "dir":
            cur = cur + d + "/"
            out.append({"name": cur.rstrip("/"), "kind": "dir", "data": None, "pos": i})
            continue
        base = ("." if kind == "hidden" else "") + stem + "." + ext(EXT[kind])
        data = far_bytes(seed, kind, case["lay"].get("dict", 1 << 16)) if kind in FAR_KINDS else member_bytes(seed, i, kind)
        if cor and cor[0] == i and cor[1] == "doc":
            data = damage(data)
        m = {"name": cur + base, "kind": kind, "data": data, "pos": i}
        if fam == "dotdir" and cur != root:
            m["optional"] = True
        out.append(m)
    return out


def final_members(case, seed):
    ms = build_members(case, seed)
    if case["lay"]["arch"] == "7z" and case["lay"].get("between"):
        out = []
        for i, m in enumerate(ms):
            if i:
                out.append({"name": f"empty{i}.txt", "kind": "between", "data": b"", "pos": None})
            out.append(m)
        return out
    return ms


def arch_path(lay):
    return ARCH_PATH[lay["arch"] if lay["arch"] != "tar" else "tar:" + lay["comp"]]


# ------------------------------------------------------------------------------------------------------------ archive writers
def _zip_method(lay, i):
    if lay["comp"] == "stored":
        return zipfile.ZIP_STORED
    if lay["comp"] == "deflated":
        return zipfile.ZIP_DEFLATED
    return zipfile.ZIP_STORED if i % 2 == 0 else zipfile.ZIP_DEFLATED


def _deflate_len(data):
    c = zlib.compressobj(zlib.Z_DEFAULT_COMPRESSION, zlib.DEFLATED, -15)
    return len(c.compress(data) + c.flush())


def build_zip(case, ms):
    lay, cor = case["lay"], case.get("corrupt")
    zm = []
    for i, m in enumerate(ms):
        if m["kind"] == "dir":
            zm.append({"name": m["name"], "is_dir": True})
        else:
            zm.append({"name": m["name"], "data": m["data"], "method": _zip_method(lay, i)})
    if not cor or cor[1] == "doc":
        with warnings.catch_warnings():
            warnings.simplefilter("ignore")          # zipfile: "Duplicate name" (two versions of one file)
            return zipforge.zip_honest(zm), set()
    p, how = cor
    idx = [i for i, m in enumerate(ms) if m["pos"] == p][0]
    tgt = dict(zm[idx])
    if how in ZSTREAM:
        if tgt["method"] != zipfile.ZIP_DEFLATED:
            raise ValueError(how + " needs a deflated member")
        with warnings.catch_warnings():
            warnings.simplefilter("ignore")
            raw = bytearray(zipforge.zip_honest(zm))
        with zipfile.ZipFile(io.BytesIO(bytes(raw))) as z:
            zi = z.infolist()[idx]
        off = zi.header_offset
        if raw[off:off + 4] != b"PK\x03\x04":
            raise ValueError("no local header where the directory says")
        start_ = off + 30 + int.from_bytes(raw[off + 26:off + 28], "little") + int.from_bytes(raw[off + 28:off + 30], "little")
        pat = ZSTREAM[how]
        if zi.compress_size < len(pat) + 1:
            raise ValueError("deflate stream too short to damage")
        raw[start_:start_ + len(pat)] = pat
        return bytes(raw), {idx}
    if how == "crc":
        tgt["crc"] = (zlib.crc32(tgt["data"]) & 0xFFFFFFFF) ^ 0x5A5A5A5A
    elif how == "trunc":
        if tgt["method"] != zipfile.ZIP_DEFLATED:
            raise ValueError("trunc needs a deflated member")
        n = _deflate_len(tgt["data"])
        tgt["compress_size"] = max(1, n // 2)
    else:
        raise ValueError(how)
    zm[idx] = tgt
    return zipforge.zipforge(zm), {idx}


def build_tar(case, ms):
    tm = []
    for m in ms:
        if m["kind"] == "dir":
            tm.append({"name": m["name"], "type": "DIR"})
        else:
            tm.append({"name": m["name"], "data": m["data"]})
    comp = case["lay"]["comp"]
    return tarforge.tarforge(tm, None if comp == "plain" else comp, case["lay"].get("fmt", "ustar")), set()


def sz_groups(ms, layout):
    stream_idx = [i for i, m in enumerate(ms) if m["data"]]
    if not stream_idx:
        return []
    if layout == "solid":
        return [stream_idx]
    if layout == "per_file":
        return [[i] for i in stream_idx]
    cut = (len(stream_idx) + 1) // 2
    return [g for g in (stream_idx[:cut], stream_idx[cut:]) if g]


def build_7z(case, ms):
    """ms already contains the 'between' members. -> (bytes, affected member indices)"""
    lay, cor = case["lay"], case.get("corrupt")
    sm = []
    for m in ms:
        if m["kind"] == "dir":
            sm.append({"name": m["name"], "data": None, "dir": True})
        else:
            sm.append({"name": m["name"], "data": m["data"]})
    opts = {"coder": lay["coder"], "layout": lay["layout"], "header": lay["header"]}
    if lay.get("dict"):
        opts["dict_size"] = int(lay["dict"])
    if lay.get("attrs") == "unix":
        # what p7zip writes: FILE_ATTRIBUTE_UNIX_EXTENSION | st_mode << 16 | DOS bits, plus a modification time
        for m, s in zip(ms, sm):
            s["attrs"] = 0x41ED8010 if m["kind"] == "dir" else 0x81A48020
            s["mtime"] = 1700000000
    if not cor or cor[1] == "doc":
        return SZ.sevenz(sm, opts), set()
    p, how = cor
    idx = [i for i, m in enumerate(ms) if m["pos"] == p][0]
    groups = sz_groups(ms, lay["layout"])
    gi = [k for k, g in enumerate(groups) if idx in g][0]
    g = groups[gi]
    start = sum(len(ms[i]["data"]) for i in g[:g.index(idx)])
    orig = SZ.encode
    calls = {"n": 0}

    def enc(data, coder, dict_size=1 << 16):
        packed, mid, props = orig(data, coder, dict_size)
        k = calls["n"]
        calls["n"] += 1
        if k == gi:
            b = bytearray(packed)
            if how == "flip":
                # copy: a byte in the middle of the member; LZMA / LZMA2: the first byte of the stream (range coder
                # start byte / chunk control byte), which no decoder accepts once inverted
                off = start + len(ms[idx]["data"]) // 2 if coder == "copy" else 0
                b[off] ^= 0xFF
            elif how == "trunc":
                del b[len(b) // 2:]
            else:
                raise ValueError(how)
            packed = bytes(b)
        return packed, mid, props
    SZ.encode = enc
    try:
        data = SZ.sevenz(sm, opts)
    finally:
        SZ.encode = orig
    if how == "flip" and lay["coder"] == "copy":
        return data, {idx}
    return data, set(g)


def build_archive(case, seed):
    ms = final_members(case, seed)
    arch = case["lay"]["arch"]
    data, affected = {"zip": build_zip, "tar": build_tar, "7z": build_7z}[arch](case, ms)
    cor = case.get("corrupt")
    if cor and cor[1] == "doc":
        affected = {i for i, m in enumerate(ms) if m["pos"] == cor[0]}
    return ms, data, affected


# ------------------------------------------------------------------------------------------------------------ trusted base check
def readback(case, ms, data, affected):
    """independent reader round trip; -> None or text describing a generator problem"""
    arch = case["lay"]["arch"]
    cor = case.get("corrupt")
    container_cor = bool(cor) and cor[1] != "doc"
    want = [(m["name"], "dir" if m["kind"] == "dir" else "file", b"" if m["data"] is None else m["data"]) for m in ms]
    try:
        if arch == "zip":
            got = []
            bad = set()
            with zipfile.ZipFile(io.BytesIO(data)) as z:
                for i, zi in enumerate(z.infolist()):
                    try:
                        got.append((zi.filename.rstrip("/"), "dir" if zi.is_dir() else "file", z.read(zi)))
                    except Exception:  # noqa
                        bad.add(i)
                        got.append(want[i] if i < len(want) else None)
            if bad != (affected if container_cor else set()):
                return f"zipfile cannot read members {sorted(bad)}, intended {sorted(affected)}"
        elif arch == "tar":
            got = []
            with tarfile.open(fileobj=io.BytesIO(data), mode="r:*") as tf:
                for ti in tf.getmembers():
                    got.append((ti.name, "dir" if ti.isdir() else "file", tf.extractfile(ti).read() if ti.isreg() else b""))
        else:
            from verif.gen import selftest_sevenz as S7
            if container_cor:
                try:
                    S7.Reader7z(data).extract()
                except S7.Invalid7z:
                    return None
                return "independent 7z reader accepts the corrupted archive"
            got = [(n, "dir" if k == "dir" else "file", d) for n, k, d in S7.Reader7z(data).extract()]
    except Exception as e:  # noqa
        return f"independent reader failed: {type(e).__name__}: {e}"
    if got != want:
        return f"independent reader sees {[(n, k, len(d)) for n, k, d in got]} instead of {[(n, k, len(d)) for n, k, d in want]}"
    return None


# ------------------------------------------------------------------------------------------------------------ observation
def view(r):
    """(filename, file_path, content) of one result; content = to_json() without the four file-location fields"""
    try:
        md = r.get_metadata()
        fn, fp = md.filename, md.file_path
    except Exception as e:  # noqa
        fn = fp = f"<get_metadata raised {type(e).__name__}>"
    try:
        j = r.to_json()
        if isinstance(j, dict) and isinstance(j.get("metadata"), dict):
            j = dict(j)
            j["metadata"] = {k: v for k, v in j["metadata"].items() if k not in META_FILE_FIELDS}
        content = json.dumps(j, sort_keys=True, default=str)
    except Exception as e:  # noqa
        content = f"<to_json raised {type(e).__name__}: {e}>"
    return (fn, fp, content)


_DIRECT = {}


def direct(name, data, full_path):
    """the member's bytes extracted on their own -> (list of views, error text | None)"""
    key = (full_path, hashlib.sha1(data).digest())
    if key in _DIRECT:
        return _DIRECT[key]
    from sharepoint2text.parsing.router import get_extractor
    out, err = [], None
    try:
        ex = get_extractor(os.path.basename(name))
        for r in ex(io.BytesIO(data), path=full_path):
            out.append(view(r))
    except Exception as e:  # noqa
        err = f"{type(e).__name__}: {e}"
    _DIRECT[key] = (out, err)
    return out, err


def observe(data, path):
    """-> (list of views yielded, exception text | None)"""
    from sharepoint2text.parsing.extractors.archive_extractor import read_archive
    got, err = [], None
    try:
        for r in read_archive(io.BytesIO(data), path=path):
            got.append(view(r))
    except Exception as e:  # noqa
        c = getattr(e, "__cause__", None)
        err = f"{type(e).__name__}: {e}" + (f" (cause {type(c).__name__}: {c})" if c is not None else "")
    return got, err


def short(s, n=160):
    s = str(s)
    return s if len(s) <= n else s[:n] + "..."


# ------------------------------------------------------------------------------------------------------------ oracle
def norm_path(p):
    """archive!/member path without "." components in the member part (a/./b and ./a name the same member as a/b and a)"""
    if "!/" not in p:
        return p
    head, tail = p.split("!/", 1)
    return head + "!/" + "/".join(c for c in tail.split("/") if c != ".")


def _keyed(paths):
    """k-th occurrence of a path -> (path, k): two members (versions of a file) may carry one name"""
    seen, out = {}, []
    for p in paths:
        k = seen.get(p, 0)
        seen[p] = k + 1
        out.append((p, k))
    return out


def _show(keys):
    return [p if k == 0 else f"{p} (#{k + 1})" for p, k in keys]


def judge_base(case, ms, apath, got, err, seed):
    """clauses of an uncorrupted archive -> (fails, outcome)"""
    fails = []
    exp = []        # (member index, filename, file_path, content)
    for i, m in enumerate(ms):
        if m["kind"] not in RESULT_KINDS:
            continue
        full = f"{apath}!/{m['name']}"
        views, _ = direct(m["name"], m["data"], full)
        for v in views:
            exp.append((i, os.path.basename(m["name"]), norm_path(full), v[2]))
    got = [(g[0], norm_path(g[1]), g[2]) for g in got]
    lay = case["lay"]
    exp_keys = _keyed([e[2] for e in exp])
    got_keys = _keyed([g[1] for g in got])
    required = [(e, k) for e, k in zip(exp, exp_keys) if not ms[e[0]].get("optional")]
    if err is not None:
        if lay["arch"] == "tar" and lay["comp"] == "plain" and not ms:
            return [], "empty-plain-tar:" + err.split(":")[0]          # 10 KiB of zeros carry no magic: not judged
        lost = _show([k for e, k in required if k not in got_keys])
        if lost:
            fails.append(("member_result", f"no result for supported member(s) {lost}: read_archive raised {short(err, 300)} after yielding "
                                           f"{len(got)} of {len(exp)} expected results; members {[m['name'] for m in ms]}"))
        else:
            fails.append(("raises", f"read_archive raised {short(err, 300)} on a valid archive (all {len(required)} expected results had been "
                                    f"yielded); members {[m['name'] for m in ms]}"))
        return fails, "raises:" + err.split(":")[0] + (":lost" if lost else "")
    by_key = {k: e for e, k in zip(exp, exp_keys)}
    all_paths = {norm_path(f"{apath}!/{m['name']}"): m for m in ms}
    got_paths = _show(got_keys)
    missing = [(e, k) for e, k in required if k not in got_keys]
    miss_empty = [(e, k) for e, k in missing if ms[e[0]]["kind"] in ("empty", "between")]
    miss_other = [(e, k) for e, k in missing if ms[e[0]]["kind"] not in ("empty", "between")]
    if miss_other:
        fails.append(("member_result", f"no result for supported member(s) {[(ms[e[0]]['kind'], _show([k])[0]) for e, k in miss_other]}; "
                                       f"got paths {got_paths}"))
    if miss_empty:
        fails.append(("missing_empty", f"no result for the empty file(s) {_show([k for _, k in miss_empty])} although extracting 0 bytes as "
                                       f"{os.path.basename(miss_empty[0][0][2])!r} on its own yields a result; got paths {got_paths}"))
    extra = [(g, k) for g, k in zip(got, got_keys) if k not in by_key]
    if extra:
        desc = []
        for g, k in extra:
            m = all_paths.get(g[1])
            desc.append((g[0], _show([k])[0], m["kind"] if m else "no such member"))
        fails.append(("extra", f"result(s) that belong to no supported visible member: {desc}"))
    exp_order = [k for k in exp_keys if k in set(got_keys)]         # optional members that were not yielded do not count
    if not missing and not extra and got_keys != exp_order:
        fails.append(("order", f"results come as {got_paths}, archive order is {_show(exp_order)}"))
    contents = {}
    for e, k in zip(exp, exp_keys):
        contents.setdefault(e[3], _show([k])[0])
    for g, k in zip(got, got_keys):
        if k not in by_key:
            continue
        e = by_key[k]
        if g[0] != e[1]:
            fails.append(("filename", f"result with file_path {g[1]!r} is labelled filename {g[0]!r}, member base name is {e[1]!r}"))
        if g[2] != e[3]:
            other = contents.get(g[2])
            why = f"it equals the extraction of member {other!r}" if other else f"got {short(g[2], 200)}"
            fails.append(("member_result", f"{ms[e[0]]['kind']} member {_show([k])[0]!r}: content differs from extracting its bytes on "
                                     f"their own (expected {short(e[3], 200)}); {why}"))
            break
    oc = "ok" if not fails else "fail:" + ",".join(sorted({c for c, _ in fails}))
    return fails, oc


BASE_BLOCKERS = {"raises", "member_result", "extra", "order", "filename"}


def judge_corrupt(case, ms, apath, affected, clean, got, err, seed):
    """relational clause: members the corruption cannot reach keep their results (as far as results were yielded)"""
    fails = []
    aff_paths = {f"{apath}!/{ms[i]['name']}" for i in affected}
    keep_clean = [g for g in clean if g[1] not in aff_paths]
    keep_got = [g for g in got if g[1] not in aff_paths]
    cor = case["corrupt"]
    tgt = [m for m in ms if m["pos"] == cor[0]][0]
    if keep_got != keep_clean:
        lost = [g[1] for g in keep_clean if g not in keep_got]
        changed = [g[1] for g in keep_got if g not in keep_clean]
        fails.append(("corrupt_spreads", f"{cor[1]}-corrupted member {tgt['name']!r} ({tgt['kind']}): other members lose or change their "
                                         f"results: lost {lost}, new/changed {changed}"
                                         + (f"; read_archive raised {short(err, 240)}" if err else "")))
    if cor[1] == "doc":
        full = f"{apath}!/{tgt['name']}"
        exp_own = [(os.path.basename(tgt["name"]), full, v[2]) for v in direct(tgt["name"], tgt["data"], full)[0]] \
            if tgt["kind"] in RESULT_KINDS else []
        own = [g for g in got if g[1] == full]
        if err is None and own != exp_own:
            fails.append(("damaged_own", f"damaged {tgt['kind']} member {full!r}: archive gives {[short(o, 120) for o in own]}, the damaged "
                                         f"bytes on their own give {[short(o, 120) for o in exp_own]}"))
    if fails:
        oc = "fail:" + ",".join(sorted({c for c, _ in fails}))
    elif err is not None:
        oc = "ok-but-raises-after-others:" + err.split(":")[0]
    else:
        own_n = len([g for g in got if g[1] in aff_paths])
        oc = f"ok:own_results={min(own_n, 1)}"
    return fails, oc


def evaluate(case, seed=0, clean_cache=None):
    """-> (fails [(clause, msg)], outcome text, harness problem | None)"""
    logging.disable(logging.CRITICAL)       # the library logs every skipped member; this process only runs the check
    lay = case["lay"]
    apath = arch_path(lay)
    if lay["arch"] == "7z" and lay.get("names"):
        names = [m["name"] for m in final_members(case, seed)]
        if len(set(names)) != len(names):
            # tar -r / -u and zipfile append a second version under the same name; no 7z packer writes one name twice
            if clean_cache is not None:
                clean_cache["got"], clean_cache["blocked"] = [], True
            return [], "7z:base:not-judged(two entries with one name)", None
    try:
        ms, data, affected = build_archive(case, seed)
    except NotImplementedError as e:
        if lay["arch"] == "tar" and lay.get("names") and "not expressible" in str(e):
            if clean_cache is not None:
                clean_cache["got"], clean_cache["blocked"] = [], True
            return [], f"tar:base:not-built(name too long for a {lay.get('fmt', 'ustar')} header)", None
        raise
    prob = readback(case, ms, data, affected)
    if prob:
        return [], "generator-problem", f"{json.dumps(case)}: {prob}"
    got, err = observe(data, apath)
    if not case.get("corrupt"):
        fails, oc = judge_base(case, ms, apath, got, err, seed)
        if clean_cache is not None:
            clean_cache["got"] = got
            clean_cache["blocked"] = bool({c for c, _ in fails} & BASE_BLOCKERS)
        return fails, f"{lay['arch']}:base:{oc}", None
    if clean_cache is None or "got" not in clean_cache:
        base = dict(case)
        base["corrupt"] = None
        clean_cache = {}
        evaluate(base, seed, clean_cache)
    if clean_cache["blocked"]:
        return [], f"{lay['arch']}:{case['corrupt'][1]}:not-judged(base case fails)", None
    fails, oc = judge_corrupt(case, ms, apath, affected, clean_cache["got"], got, err, seed)
    return fails, f"{lay['arch']}:{case['corrupt'][1]}:{oc}", None


def _seed():
    return int(os.environ.get("VERIF_SEED", "0") or 0)


def reexec(fmt, case):
    fails, _, prob = evaluate(case, _seed())
    if prob:
        return [("harness", prob)]
    return fails


# ------------------------------------------------------------------------------------------------------------ enumeration
def layouts(tier):
    out = [{"arch": "zip", "comp": c} for c in ZIP_COMP]
    out += [{"arch": "tar", "comp": c} for c in TAR_COMP]
    for coder, layout, header, between in itertools.product(SZ_CODERS, SZ_LAYOUTS, SZ_HEADERS, (False, True)):
        out.append({"arch": "7z", "coder": coder, "layout": layout, "header": header, "between": between})
    # packer variants (base cases only): GNU tar headers; 7z members with attribute + time records as p7zip writes them
    out += [{"arch": "tar", "comp": c, "fmt": "gnu"} for c in TAR_COMP]
    for coder, layout in itertools.product(SZ_CODERS, SZ_LAYOUTS):
        out.append({"arch": "7z", "coder": coder, "layout": layout, "header": "plain", "between": False, "attrs": "unix"})
    # member names outside ASCII (base cases only)
    out += [{"arch": "zip", "comp": "stored", "names": "wide"}, {"arch": "tar", "comp": "plain", "names": "wide"},
            {"arch": "tar", "comp": "gz", "fmt": "gnu", "names": "wide"}]
    for coder, layout in itertools.product(SZ_CODERS, SZ_LAYOUTS):
        out.append({"arch": "7z", "coder": coder, "layout": layout, "header": "plain", "between": False, "names": "wide"})
    out.append({"arch": "7z", "coder": "lzma2", "layout": "solid", "header": "encoded", "between": True, "names": "wide"})
    out.append({"arch": "tar", "comp": "plain", "fmt": "pax", "names": "wide"})
    for fam in name_families(tier):
        for lay in name_layouts(fam, tier):
            lay = dict(lay)
            lay["names"] = fam
            out.append(lay)
    return out


def name_families(tier):
    return NAME_FAMILIES + (["lead:" + x for x in LEADS_THOROUGH] if tier != "quick" else [])


_Z = lambda c: {"arch": "zip", "comp": c}                                                            # noqa: E731
_T = lambda c, f=None: {"arch": "tar", "comp": c, **({"fmt": f} if f else {})}                       # noqa: E731
_S = lambda c, l: {"arch": "7z", "coder": c, "layout": l, "header": "plain", "between": False}       # noqa: E731


def name_layouts(fam, tier):
    """the layouts a member-name family is crossed with (base cases only)"""
    quick = tier == "quick"
    tar_fmts = [None, "gnu"] if quick else [None, "gnu", "pax"]
    if fam == "split":                       # ustar prefix/name split: the only format that has one
        return [_T(c) for c in (["plain", "gz"] if quick else TAR_COMP)]
    if fam.startswith("lead:"):              # only a plain tar starts with its first member's name; gz / zip / 7z as controls
        return [_T("plain", f) for f in tar_fmts] + [_T("gz"), _Z("stored"), _S("copy", "solid")]
    if fam == "long":                        # > 100 bytes: GNU long-name members / pax records (ustar: see "split")
        out = [_T("plain", "gnu"), _T("plain", "pax"), _T("gz", "pax")]
        if not quick:
            out += [_T(c, f) for c in TAR_COMP for f in ("gnu", "pax") if _T(c, f) not in out]
    elif fam == "same":                      # versions of one file: what tar -r / -u and zipfile append
        out = [_T(c) for c in TAR_COMP] + [_T("plain", "gnu")]
        if not quick:
            out += [_T(c, f) for c in TAR_COMP for f in ("gnu", "pax") if _T(c, f) not in out]
    elif fam.startswith("inner:") and quick:
        return [_Z("stored"), _T("plain"), _S("copy", "solid")]
    else:
        out = [_T("plain", f) for f in tar_fmts] + [_T("gz")]
        if not quick:
            out += [_T(c) for c in ("bz2", "xz")]
    out += [_Z("stored"), _Z("deflated")] if quick else [_Z(c) for c in ZIP_COMP]
    out += [_S("copy", "solid"), _S("lzma2", "per_file")] if quick else [_S(c, l) for c in SZ_CODERS for l in SZ_LAYOUTS]
    return out


def maxlen(tier):
    return 2 if tier == "quick" else 3


def sequences(tier):
    for n in range(0, maxlen(tier) + 1):
        for seq in itertools.product(KINDS, repeat=n):
            yield list(seq)


def corruptions(lay, seq):
    """corruption kinds applicable at each position (the base archive has >= 1 other member with a result)"""
    out = []
    if lay.get("fmt") or lay.get("attrs") or lay.get("names") or lay.get("dict"):
        return out
    for p, kind in enumerate(seq):
        if kind not in STREAM_KINDS:
            continue
        if not any(k in RESULT_KINDS for j, k in enumerate(seq) if j != p):
            continue
        hows = []
        if kind in DOC_KINDS:
            hows.append("doc")
        if lay["arch"] == "zip":
            hows.append("crc")
            if lay["comp"] == "deflated" or (lay["comp"] == "mixed" and p % 2 == 1):
                hows.append("trunc")
                hows += sorted(ZSTREAM)
        elif lay["arch"] == "7z":
            # stream corruption is explored on the plain-header, no-empties-between variants (the header coding and the
            # interleaved empty files are already crossed with every layout in the base cases)
            if lay["header"] == "plain" and not lay["between"]:
                hows += ["flip", "trunc"]
        for h in hows:
            out.append([p, h])
    return out


def reaches_others(case, seed):
    """False if the corruption legitimately reaches every member that has a result (e.g. damaged solid LZMA folder)"""
    ms = final_members(case, seed)
    lay, cor = case["lay"], case["corrupt"]
    idx = [i for i, m in enumerate(ms) if m["pos"] == cor[0]][0]
    affected = {idx}
    if lay["arch"] == "7z" and cor[1] in ("flip", "trunc") and not (cor[1] == "flip" and lay["coder"] == "copy"):
        affected = set([g for g in sz_groups(ms, lay["layout"]) if idx in g][0])
    return any(m["kind"] in RESULT_KINDS and i not in affected for i, m in enumerate(ms))


def seq_tier(lay, tier):
    """member sequences of a layout: a name family gets the long sequences of the thorough tier on its quick layouts, the
    short ones on the layouts that only the thorough tier adds"""
    fam = lay.get("names")
    if tier == "quick" or fam is None or fam == "wide" or fam not in NAME_FAMILIES:
        return tier
    plain = {k: v for k, v in lay.items() if k != "names"}
    return tier if plain in name_layouts(fam, "quick") else "quick"


def long_layouts(tier):
    """the layouts of the order family"""
    if tier != "quick":
        return [lay for lay in layouts(tier) if not lay.get("names")]
    out = [_Z(c) for c in ZIP_COMP] + [_T(c) for c in TAR_COMP] + [_S(c, l) for c in SZ_CODERS for l in SZ_LAYOUTS]
    out.append({"arch": "7z", "coder": "copy", "layout": "per_file", "header": "plain", "between": True})
    out.append({"arch": "7z", "coder": "lzma2", "layout": "two_folders", "header": "encoded", "between": True})
    return out


def long_sequences(tier):
    for n, kinds in LONG_SEQS["quick" if tier == "quick" else "thorough"]:
        for seq in itertools.product(kinds, repeat=n):
            yield list(seq)


def far_layouts(tier):
    """the layouts of the dictionary family"""
    t = "quick" if tier == "quick" else "thorough"
    out = []
    for coder, layout, d in itertools.product(FAR_CODERS, SZ_LAYOUTS, FAR_DICTS[t]):
        for header in (["plain"] if t == "quick" else SZ_HEADERS):
            out.append({"arch": "7z", "coder": coder, "layout": layout, "header": header, "between": False, "dict": d})
    return out


def far_sequences(tier):
    for n in range(1, FAR_MAXLEN["quick" if tier == "quick" else "thorough"] + 1):
        for seq in itertools.product(FAR_SEQ_KINDS, repeat=n):
            yield list(seq)


def is_long(case, tier):
    return len(case["members"]) > maxlen(tier)


def bases(tier):
    for lay in layouts(tier):
        for seq in sequences(seq_tier(lay, tier)):
            yield {"lay": lay, "members": seq, "corrupt": None}
    for lay in long_layouts(tier):
        for seq in long_sequences(tier):
            yield {"lay": lay, "members": seq, "corrupt": None}
    for lay in far_layouts(tier):
        for seq in far_sequences(tier):
            yield {"lay": lay, "members": seq, "corrupt": None}


def far_probe(seed, dicts):
    """for which (coder, declared dictionary) the packed stream of a "far" member cannot be decoded with half the dictionary
    (i.e. the family really contains matches beyond dict/2); reported in the coverage, not a verdict"""
    import lzma
    out = {}
    for coder in FAR_CODERS:
        for d in dicts:
            data = far_bytes(seed, "far", d)
            packed, _, props = SZ.encode(data, coder, d)
            if coder == "lzma2":
                real = SZ.lzma2_dict_prop(max(4096, d))[1]
                flt = {"id": lzma.FILTER_LZMA2, "dict_size": max(4096, real // 2)}
            else:
                flt = {"id": lzma.FILTER_LZMA1, "dict_size": max(4096, d // 2), "lc": 3, "lp": 0, "pb": 2}
            try:
                ok = lzma.LZMADecompressor(format=lzma.FORMAT_RAW, filters=[flt]).decompress(packed, len(data)) == data
            except lzma.LZMAError:
                ok = False
            out[f"{coder}:{d}"] = not ok
    return out


def _part(arg):
    tier, k, n, seed = arg
    ev = 0
    fails, herr = [], []
    outcomes = {}
    per = {}
    examples = {}
    for i, base in enumerate(bases(tier)):
        if i % n != k:
            continue
        cases = [base]
        for cor in ([] if is_long(base, tier) else corruptions(base["lay"], base["members"])):
            c = dict(base)
            c["corrupt"] = cor
            cases.append(c)
        cache = {}
        for case in cases:
            arch = case["lay"]["arch"]
            try:
                if case["corrupt"] and case["corrupt"][1] != "doc" and not reaches_others(case, seed):
                    continue
                f, oc, prob = evaluate(case, seed, cache)
            except Exception as e:  # noqa  (a crash of the harness itself on this case)
                import traceback
                herr.append(f"case {json.dumps(case)}: {type(e).__name__}: {e} {traceback.format_exc()[-500:]}")
                continue
            ev += 1
            key = arch + (":corrupt" if case["corrupt"] else ":base-far" if case["lay"].get("dict") else
                          ":base-long" if is_long(case, tier) else ":base")
            per[key] = per.get(key, 0) + 1
            outcomes[oc] = outcomes.get(oc, 0) + 1
            if oc not in examples or json.dumps(case, sort_keys=True) < json.dumps(examples[oc], sort_keys=True):
                examples[oc] = case
            if prob:
                herr.append(prob)
            for clause, msg in f:
                fails.append((clause, arch, case, msg))
    return {"ev": ev, "fails": fails, "herr": herr[:5], "outcomes": outcomes, "per": per, "examples": examples}


def run(ctx):
    n = ctx.ncpu * (2 if ctx.quick else 8)
    args = [(ctx.tier, k, n, ctx.seed) for k in range(n)]
    random.Random(ctx.seed).shuffle(args)
    res = P.run_all("verif.props.C10", "_part", args, n=ctx.ncpu, hard_timeout=3000)
    ev = 0
    fails, herr = [], []
    outcomes, per, examples = {}, {}, {}
    for (st, r, _), a in zip(res, args):
        if st != "done":
            herr.append(f"partition {a} failed: {st}: {str(r)[-600:]}")
            continue
        ev += r["ev"]
        fails += [tuple(x) for x in r["fails"]]
        herr += r["herr"]
        for k_, v in r["examples"].items():
            if k_ not in examples or json.dumps(v, sort_keys=True) < json.dumps(examples[k_], sort_keys=True):
                examples[k_] = v
        for k_, v in r["outcomes"].items():
            outcomes[k_] = outcomes.get(k_, 0) + v
        for k_, v in r["per"].items():
            per[k_] = per.get(k_, 0) + v
    samples = []
    for c in SAMPLE_CASES:
        try:
            f, oc, _ = evaluate(c, ctx.seed)
            ms, data, _ = build_archive(c, ctx.seed)
            got, err = observe(data, arch_path(c["lay"]))
            samples.append({"case": c, "archive": arch_path(c["lay"]), "archive_bytes": len(data), "members": [m["name"] for m in ms],
                            "read_archive_labels": [[g[0], g[1]] for g in got], "raised": err, "outcome": oc,
                            "failed_clauses": sorted({x for x, _ in f})})
        except Exception as e:  # noqa
            herr.append(f"sample {json.dumps(c)}: {type(e).__name__}: {e}")
    L = maxlen(ctx.tier)
    tq = "quick" if ctx.quick else "thorough"
    cov = {"evaluations": ev, "distinct_nontrivial": len(outcomes), "exhaustive": True, "samples": samples,
           "rule": f"every member sequence of length 0..{L} over {KINDS} x every layout (zip 3, tar 4 (+4 with GNU headers), 7z 3 coders x 3 "
                   "folder layouts x 2 header codings x with/without empty files between = 36 (+9 with attribute/time records)) written by "
                   "the reference writers, read back by an independent reader, "
                   "then read by read_archive and compared with the direct extraction of every member; plus, for every position that owns a "
                   "data stream (and >= 1 other member with a result), one corruption at a time: damaged document (all containers), bad CRC / "
                   "truncated deflate stream / deflate stream that the inflater rejects: reserved block type, stored-block length "
                   "mismatch, match before the start of the output (zip), flipped byte / truncated pack stream (7z, plain header "
                   "without interleaved empties); "
                   f"plus the dictionary family (base cases only): every sequence of length 1..{FAR_MAXLEN[tq]} over {FAR_SEQ_KINDS} (far = a "
                   "text whose second half repeats the first at 3/4 of the declared dictionary size, blk = that block once) x 7z "
                   f"{FAR_CODERS} x {SZ_LAYOUTS} x declared dictionary {FAR_DICTS[tq]} ({len(far_layouts(ctx.tier))} layouts); "
                   f"plus the member-name families {name_families(ctx.tier)} (names relative to ./, dot directories, skip-rule look-alikes "
                   "inside names, upper-case extensions, blanks, one name for several members = versions of a file, names over 100 bytes, "
                   "ustar prefix split, names that start like a magic number), each x every member sequence x the layouts of "
                   "name_layouts(); "
                   f"plus the order family (base cases only): every sequence of {[(n, k) for n, k in LONG_SEQS['quick' if ctx.quick else 'thorough']]} "
                   f"(length, kinds) x the {len(long_layouts(ctx.tier))} layouts of long_layouts(); "
                   "distinct_nontrivial = distinct (container, case family, verdict / failing clause set / exception type) classes",
           "per_family": dict(sorted(per.items())), "outcomes": dict(sorted(outcomes.items())),
           "outcome_examples": {k: examples[k] for k in sorted(examples)},
           "bounds": {"tier": ctx.tier, "max_members": L, "layouts": len(layouts(ctx.tier)),
                      "long_sequences": {"layouts": len(long_layouts(ctx.tier)),
                                         "length_x_kinds": LONG_SEQS["quick" if ctx.quick else "thorough"],
                                         "sequences": sum(len(k) ** n for n, k in LONG_SEQS["quick" if ctx.quick else "thorough"])},
                      "name_families": {f: len(name_layouts(f, ctx.tier)) for f in name_families(ctx.tier)},
                      "zip_stream_damage": sorted(ZSTREAM),
                      "far_family": {"layouts": len(far_layouts(ctx.tier)), "dicts": FAR_DICTS[tq], "coders": FAR_CODERS,
                                     "max_members": FAR_MAXLEN[tq], "kinds": FAR_SEQ_KINDS,
                                     "needs_full_dict": far_probe(ctx.seed, FAR_DICTS[tq])},
                      "long_stem": LONG_STEM, "long_dir": LONG_DIR, "split_stem": SPLIT_STEM}}
    return {"coverage": cov, "failures": fails, "harness_errors": herr[:10],
            "assumptions": [
                "an empty plain .tar (10 KiB of zero bytes) has no magic bytes; whether read_archive may refuse it is not judged",
                "the own result of a container-level corrupted member (bad CRC, truncated / flipped stream) is don't-care; for a damaged "
                "compressed or truncated 7z folder all members of that folder are don't-care",
                "an exception that ends read_archive on a corrupted archive is only judged through the results of the unaffected "
                "members that were not yielded before it",
                "TAR has no per-member checksum or stream: only the damaged-document corruption is applied to TAR members",
                "corrupted archives are judged against the library's own results for the uncorrupted archive and only when that "
                "archive passes the base clauses (missing_empty does not block)",
                "file_extension / folder_path are not named by the statement and are not compared; filename and file_path are compared "
                "with strings computed by the harness",
                "sequences longer than max_members are explored over the reduced alphabets of the order family only and are "
                "not corrupted",
                "member names are at most two (thorough: three) directory levels deep (order family: up to four); beyond the plain short ASCII names only the "
                "listed name families are explored, and only on uncorrupted archives",
                "a file below a dot directory (.git/x.txt) may or may not count as visible: its presence is not judged, its result is",
                "\"./\" and \"/./\" inside the member part of a file_path are not compared (a!/./b and a!/b name the same member)",
                "two entries with one name are what tar -r / -u and zipfile produce; a 7z archive with one name twice is not judged"]}


SAMPLE_CASES = [
    {"lay": {"arch": "zip", "comp": "mixed"}, "members": ["dir", "docx", "hidden"], "corrupt": None},
    {"lay": {"arch": "tar", "comp": "gz"}, "members": ["txt", "empty", "pdf"], "corrupt": None},
    {"lay": {"arch": "7z", "coder": "lzma2", "layout": "two_folders", "header": "encoded", "between": True}, "members": ["xlsx", "dir", "eml"],
     "corrupt": None},
    {"lay": {"arch": "zip", "comp": "deflated"}, "members": ["html", "bin", "txt"], "corrupt": [0, "trunc"]},
    {"lay": {"arch": "7z", "coder": "lzma", "layout": "per_file", "header": "plain", "between": False}, "members": ["txt", "docx"],
     "corrupt": [1, "flip"]},
    {"lay": {"arch": "tar", "comp": "gz", "names": "same"}, "members": ["txt", "dir", "txt"], "corrupt": None},
    {"lay": {"arch": "zip", "comp": "deflated", "names": "dotslash"}, "members": ["docx", "dir", "pdf"], "corrupt": None},
    {"lay": {"arch": "7z", "coder": "lzma2", "layout": "per_file", "header": "plain", "between": False},
     "members": ["txt", "html", "empty", "txt"], "corrupt": None},
]


# ------------------------------------------------------------------------------------------------------------ triage support
_SIMPLE_LAY = {"zip": {"comp": "stored"}, "tar": {"comp": "plain"},
               "7z": {"coder": "copy", "layout": "solid", "header": "plain", "between": False}}


def _valid(case):
    cor = case.get("corrupt")
    if not cor:
        return True
    return cor in corruptions_all(case["lay"], case["members"])


def corruptions_all(lay, seq):
    """like corruptions() but without the restriction of the 7z stream corruptions to plain-header archives (used for shrinking)"""
    lay2 = dict(lay)
    if lay2["arch"] == "7z":
        lay2["header"], lay2["between"] = "plain", False
    return corruptions(lay2, seq)


def _explicit_between(case):
    """the same archive with the interleaved empty files written as explicit members"""
    mem = []
    for i, k in enumerate(case["members"]):
        if i:
            mem.append("empty")
        mem.append(k)
    lay = dict(case["lay"])
    lay["between"] = False
    cor = case.get("corrupt")
    return {"lay": lay, "members": mem, "corrupt": None if not cor else [2 * cor[0], cor[1]]}


def shrinks(case):
    mem = case["members"]
    cor = case.get("corrupt")
    # drop a member
    for i in range(len(mem)):
        if cor and cor[0] == i:
            continue
        c = {"lay": case["lay"], "members": mem[:i] + mem[i + 1:], "corrupt": None if not cor else [cor[0] - (1 if i < cor[0] else 0), cor[1]]}
        if _valid(c):
            yield c
    # simpler layout
    arch = case["lay"]["arch"]
    for k, v in _SIMPLE_LAY[arch].items():
        if case["lay"].get(k) != v:
            lay = dict(case["lay"])
            lay[k] = v
            c = {"lay": lay, "members": mem, "corrupt": cor}
            if _valid(c):
                yield c
    for k in ("fmt", "attrs", "names", "dict"):
        if k in case["lay"]:
            lay = dict(case["lay"])
            del lay[k]
            yield {"lay": lay, "members": mem, "corrupt": cor}
    if arch == "7z" and case["lay"]["layout"] == "two_folders":
        lay = dict(case["lay"])
        lay["layout"] = "per_file"
        c = {"lay": lay, "members": mem, "corrupt": cor}
        if _valid(c):
            yield c
    if arch == "7z" and case["lay"]["coder"] == "lzma2":
        lay = dict(case["lay"])
        lay["coder"] = "lzma"
        c = {"lay": lay, "members": mem, "corrupt": cor}
        if _valid(c):
            yield c
    if cor and cor[0] > 0 and "dir" not in mem:
        c = {"lay": case["lay"], "members": [mem[cor[0]]] + mem[:cor[0]] + mem[cor[0] + 1:], "corrupt": [0, cor[1]]}
        if _valid(c):
            yield c
    if arch == "7z" and case["lay"]["between"] and len(mem) <= 3:
        c = _explicit_between(case)
        if _valid(c):
            yield c
    # canonical member kind: everything that is not a directory tries to become a txt
    for i, kind in enumerate(mem):
        if kind not in ("txt", "dir"):
            c = {"lay": case["lay"], "members": mem[:i] + ["txt"] + mem[i + 1:], "corrupt": cor}
            if _valid(c):
                yield c
    # ... all members of one kind at once (namesakes stay namesakes only if their extensions stay equal)
    for kind in sorted(set(mem) - {"txt", "dir", "empty", "hidden", "bin"}):
        c = {"lay": case["lay"], "members": ["txt" if k == kind else k for k in mem], "corrupt": cor}
        if mem.count(kind) > 1 and _valid(c):
            yield c
    for i, kind in enumerate(mem):
        if kind == "bin":
            c = {"lay": case["lay"], "members": mem[:i] + ["hidden"] + mem[i + 1:], "corrupt": cor}
            if _valid(c):
                yield c


def _kind_match(a, b):
    return a == b or (a == "txt" and b != "dir") or (a == "hidden" and b == "bin")


def embeds(small, big):
    ls, lb = small["lay"], big["lay"]
    if ls["arch"] != lb["arch"]:
        return False
    if ls["arch"] == "7z" and lb["between"] and not ls["between"] and len(big["members"]) <= 3:
        big = _explicit_between(big)
        lb = big["lay"]
    for k, v in ls.items():
        if k == "arch" or v == _SIMPLE_LAY[ls["arch"]].get(k) or lb.get(k) == v:
            continue
        if k == "layout" and v == "per_file" and lb.get(k) == "two_folders":
            continue
        if k == "coder" and v == "lzma" and lb.get(k) == "lzma2":
            continue
        return False
    cs, cb = small.get("corrupt"), big.get("corrupt")
    if bool(cs) != bool(cb) or (cs and cs[1] != cb[1]):
        return False
    sm, bm = small["members"], big["members"]
    if not sm:
        return not bm          # the empty archive explains only empty archives
    if cs:
        if not _kind_match(sm[cs[0]], bm[cb[0]]):
            return False
        if "dir" in sm:
            return _subseq(sm[:cs[0]], bm[:cb[0]]) and _subseq(sm[cs[0] + 1:], bm[cb[0] + 1:])
        return _subseq(sm[:cs[0]] + sm[cs[0] + 1:], bm[:cb[0]] + bm[cb[0] + 1:])
    return _subseq(sm, bm)


def _subseq(s, b):
    it = iter(b)
    return all(any(_kind_match(x, y) for y in it) for x in s)
