"""C05 helper: the generated part of the results corpus.

    rich_cases(seed) -> [(fmt, gen_case), ...]     one rich document per writer format (plus containers of them)
    sheet_cases(tier, seed) -> [(fmt, gen_case)]   xlsx / xls / ods sheets: header vocabulary x typed body cells
    render(gen_case) -> (file name, bytes)         deterministic; a gen_case is plain JSON

gen_case shapes (all plain JSON, shrinkable by deleting list elements):
    {"fmt": F, "doc": ADM document, "images": {key: [ext, w, h, uid]}, "opts": {...}}        F in ADM_FORMATS
    {"fmt": "eml", "spec": mail spec}      {"fmt": "mbox", "specs": [mail spec, ...]}
    {"fmt": "zip" | "tar" | "7z", "members": [[member name, gen_case], ...]}
    {"fmt": "edge", "kind": "txt" | "csv" | "md" | "json" | "tsv" | "eml" | "mbox", "pre": [names], "mid": [names] | None,
     "suf": [names], "body": [tok, tok'], "enc": "utf-8" | "utf-8-sig" | "utf-16"}
         a text whose edges / interior carry decoration characters (names of DECOR below):
         text = pre + tok + (mid + tok' if mid is not None) + suf; plain kinds: the file IS the encoded text (raw bytes, no
         writer in between: c05.<kind>); eml / mbox: the text is the text/plain body (base64, utf-8) of a one-part message.
    {"fmt": "hdr", "kind": "eml" | "mbox", "devs": [[header, position, spelling], ...], "tok": [tok, tok'], "le": "lf" | "crlf"}
         a raw one-part message (HDR_BASE below; multipart/mixed with one attachment part as soon as a "part:" header deviates)
         written byte by byte (no writer, no validation in between) in which every listed header carries, at the named
         position of its value (HDR_POS), the token in the named wire spelling (HDR_SPELL: ascii, raw 8-bit bytes, RFC 2047
         encoded-words good and bad, folded, empty, NUL, marker string); the pseudo positions "absent" / "twice" delete /
         repeat the header. See header_cases().
A mail attachment {"filename", "ctype", "gen": gen_case} is rendered and put into the spec as data_hex.
"""
from __future__ import annotations

import copy

from verif.gen import adm
from verif.gen.tokens import Tokens

ADM_FORMATS = ["docx", "pptx", "xlsx", "odt", "odp", "ods", "odg", "odf", "rtf", "pdf", "xls", "ppt",
               "txt", "csv", "md", "json", "html", "mhtml", "epub"]
MATH = ["omath", [["f", [["r", "L"]], [["r", "L"]]]]]
CLASS_NAME = "TableDim"      # a registered dataclass name whose fields all have defaults (checked in C05.run)
MARKER_STRINGS = ["_type", "_bytes", "_bytesio", CLASS_NAME]


def _caps(fmt):
    if fmt in ("docx", "pptx", "xlsx"):
        from verif.gen import ooxml
        return getattr(ooxml, "CAPS_" + fmt.upper())
    if fmt in ("odt", "odp", "ods", "odg", "odf"):
        from verif.gen import odf
        return getattr(odf, "CAPS_" + fmt.upper())
    if fmt == "rtf":
        from verif.gen import rtf
        return rtf.CAPS_RTF
    if fmt == "pdf":
        from verif.gen import pdfw
        return pdfw.CAPS_PDF
    if fmt == "xls":
        from verif.gen import biff8
        return biff8.CAPS_XLS
    if fmt == "ppt":
        from verif.gen import pptbin
        return pptbin.CAPS_PPT
    if fmt in ("txt", "csv", "md", "json"):
        from verif.gen import plain
        return plain.CAPS_PLAIN[fmt]
    if fmt in ("html", "mhtml", "epub"):
        return {"unit", "p", "h", "ul", "ul-nested", "tbl", "img", "t", "br", "a", "meta:title"} | ({"multiunit"} if fmt == "epub" else set())
    raise ValueError(fmt)


# ----------------------------------------------------------------------------------------------- rich ADM document

def _rich_text_doc(tk: Tokens):
    T = lambda c: ["t", tk.new(c)]   # noqa: E731
    p = lambda *inl: ["p", list(inl)]   # noqa: E731
    u1 = [
        ["h", 1, [T("H")]],
        p(T("B"), ["tab"], T("B"), ["br"], T("B"), ["a", "http://verif.example/x", [T("K")]]),
        p(T("B"), ["ins", tk.new("I")], ["del", tk.new("D")], ["cref", tk.new("M")], ["fn", tk.new("Z")]),
        p(["sdt", [T("S")]], ["box", [p(T("S"))]]),
        p(T("B"), ["math", MATH]),
        ["ul", [[p(T("L"))], [p(T("L")), ["ul", [[p(T("L"))]]]]]],
        ["tbl", [[[p(T("C"))], [p(T("C"))]], [[p(T("C")), ["tbl", [[[p(T("C"))]]]]], [p(T("C"))]]]],
        ["img", "k1"],
        ["pb"],
        p(T("B")),
    ]
    u2 = [["h", 2, [T("H")]], p(T("B")), ["img", "k2"], ["tbl", [[[p(T("C"))], [p(T("C"))]]]]]
    meta = {"title": tk.new("Z"), "author": tk.new("Z"), "subject": tk.new("Z"), "keywords": tk.new("Z"),
            "description": tk.new("Z"), "header": tk.new("R"), "footer": tk.new("R")}
    return ["doc", meta, [["unit", u1, {"notes": [tk.new("P")], "comments": [tk.new("M")], "name": tk.new("Z")}],
                          ["unit", u2, {}]]]


def prune(doc, caps, fmt):
    """Drop every constructor of `doc` that the writer of `fmt` cannot express."""
    def inl(xs):
        out = []
        for x in xs:
            k = x[0]
            if k not in caps:
                continue
            if k == "a":
                sub = [y for y in inl(x[2]) if y[0] != "a"]
                if sub:
                    out.append(["a", x[1], sub])
            elif k == "sdt":
                out.append(["sdt", inl(x[1])])
            elif k == "box":
                out.append(["box", blocks(x[1], 0, 0)])
            else:
                out.append(x)
        return out

    def blocks(bs, dl, dt):
        out = []
        for b in bs:
            k = b[0]
            if k not in caps:
                continue
            if k == "p":
                x = inl(b[1])
                if x or not b[1]:
                    out.append(["p", x])
            elif k == "h":
                x = inl(b[2])
                if x or not b[2]:
                    out.append(["h", b[1], x])
            elif k == "ul":
                if dl and "ul-nested" not in caps:
                    continue
                items = [blocks(it, dl + 1, dt) for it in b[1]]
                out.append(["ul", [it for it in items if it]])
            elif k == "tbl":
                if dt and "tbl-nested" not in caps:
                    continue
                if dl and fmt in ("odt", "odp", "odg"):
                    continue
                out.append(["tbl", [[blocks(c, dl, dt + 1) for c in row] for row in b[1]]])
            else:
                out.append(b)
        return out
    meta = {k: v for k, v in (doc[1] or {}).items() if "meta:" + k in caps}
    units = []
    for u in doc[2]:
        ex = {k: v for k, v in (u[2] or {}).items() if "extra:" + k in caps}
        units.append(["unit", blocks(u[1], 0, 0), ex])
    if "multiunit" not in caps:
        units = units[:1]
    return ["doc", meta, units]


def _specialise(fmt, doc):
    """Format-specific expressibility limits that CAPS does not carry."""
    def walk_blocks(bs, f):
        out = []
        for b in bs:
            b = f(b)
            if b is not None:
                out.append(b)
        return out
    if fmt in ("odp", "pptx", "ppt"):
        # one heading per slide (title placeholder); table cells hold paragraphs only
        for u in doc[2]:
            seen = [False]

            def f(b):
                if b[0] == "h":
                    if seen[0]:
                        return ["p", b[2]]
                    seen[0] = True
                if b[0] == "tbl":
                    return ["tbl", [[[x for x in c if x[0] == "p"] for c in row] for row in b[1]]]
                return b
            u[1] = walk_blocks(u[1], f)
    if fmt == "ppt":
        for u in doc[2]:
            u[1] = [b for b in u[1] if b[0] in ("h", "p", "img")]
    if fmt == "pdf":
        for u in doc[2]:
            u[1] = [b for b in u[1] if b[0] in ("h", "p", "img")]
    if fmt == "json":
        doc[2] = doc[2][:1]
    if fmt == "odf":
        doc[2] = [["unit", [b for b in doc[2][0][1] if b[0] == "p"][:1], {}]]
    if fmt == "csv":
        tbl = [b for u in doc[2] for b in u[1] if b[0] == "tbl"]
        doc[2] = [["unit", tbl[-1:], {}]]
        doc[1] = {}
    return doc


def _images_for(fmt):
    if fmt in ("pdf",):
        return {"k1": ["jpeg", 16, 8, 1], "k2": ["jpeg", 8, 8, 2]}
    if fmt == "ppt":
        return {"k1": ["png", 16, 8, 1], "k2": ["png", 8, 8, 2]}
    if fmt in ("txt", "csv", "md", "json", "odf", "xlsx", "ods", "xls"):
        return {}
    return {"k1": ["jpeg", 16, 8, 1], "k2": ["png", 8, 8, 2]}


def rich_text_case(fmt, seed):
    tk = Tokens(seed)
    doc = _rich_text_doc(tk)
    doc = prune(doc, _caps(fmt), fmt)
    doc = _specialise(fmt, doc)
    imgs = _images_for(fmt)
    used = set()

    def find(bs):
        for b in bs:
            if b[0] == "img":
                used.add(b[1])
            elif b[0] == "ul":
                for it in b[1]:
                    find(it)
            elif b[0] == "tbl":
                for row in b[1]:
                    for c in row:
                        find(c)
    for u in doc[2]:
        find(u[1])
    return {"fmt": fmt, "doc": doc, "images": {k: v for k, v in imgs.items() if k in used}, "opts": {}}


TYPED_CELLS = [["i", 42], ["f", 2.5], ["b", True], ["d", "2024-03-05"], ["dt", "2024-03-05T14:07:09"], ["tm", "14:07:09"],
               ["dur", 93784], ["err", "#DIV/0!"], ["fml", "=1+2", ["i", 3]], None]


def rich_sheet_case(fmt, seed):
    tk = Tokens(seed)
    S = lambda c="C": ["s", tk.new(c)]   # noqa: E731
    header = [["s", "_type"], ["s", "_bytes"], ["s", "_bytesio"], ["s", CLASS_NAME], S(), S(), S(), S(), S(), S()]
    row1 = copy.deepcopy(TYPED_CELLS)
    row2 = [["s", CLASS_NAME], ["s", "QUJD"], S(), S(), ["i", 7], ["f", 0.5], ["b", False], ["dur", 59], ["tm", "00:00:01"], S()]
    g2 = [[S(), S()], [["i", 1], ["dur", 3600]]]
    meta = {"title": tk.new("Z"), "author": tk.new("Z")}
    s1 = ["sheet", tk.new("N"), [header, row1, row2]]
    images, opts = {"k2": ["png", 8, 8, 2]}, {}
    if fmt == "xlsx":
        s1.append({"images": ["k2"]})
    elif fmt == "ods":
        opts = {"images_at": [[0, "k2"]]}
    elif fmt == "xls":
        opts = {"pictures": [[0, "k2"]]}
    else:
        images = {}
    return {"fmt": fmt, "doc": ["doc", meta, [s1, ["sheet", tk.new("N"), g2]]], "images": images, "opts": opts}


def sheet_cases(tier, seed):
    """Bounded-exhaustive sheet lattice: a 2-column sheet [[h1, h2], [b1, b2]]; (h1, b1) ranges over the full product
    header vocabulary x body vocabulary with column 2 at its baseline; thorough additionally lets (h2, b2) range over
    marker header x marker body while (h1, b1) ranges over the marker pairs (two confusable columns in one row).
    Both tiers: typed_position_grids (every typed cell kind at every position of small sheets)."""
    out = []
    tk = Tokens(seed)
    t = [tk.new("C") for _ in range(4)]
    name = tk.new("N")
    t9 = t + [tk.new("C") for _ in range(5)]     # distinct plain tokens for the typed-position grids (<= 3 x 3)
    headers = [["s", t[0]]] + [["s", m] for m in MARKER_STRINGS] + [["s", "value"], ["i", 5], None]
    bodies = [["s", t[1]], ["s", CLASS_NAME], ["s", "QUJD"], ["s", "_type"], ["s", ""]] + copy.deepcopy(TYPED_CELLS)
    for fmt in ("xlsx", "xls", "ods"):
        for h in headers:
            for b in bodies:
                grid = [[h, ["s", t[2]]], [b, ["s", t[3]]]]
                out.append((fmt, {"fmt": fmt, "doc": ["doc", {}, [["sheet", name, grid]]], "images": {}, "opts": {}}))
        if tier != "quick":
            mh = [["s", m] for m in MARKER_STRINGS]
            mb = [["s", CLASS_NAME], ["s", "QUJD"], ["s", t[1]], ["i", 42]]
            for h1 in mh:
                for b1 in mb:
                    for h2 in mh:
                        for b2 in mb:
                            grid = [[h1, h2], [b1, b2]]
                            out.append((fmt, {"fmt": fmt, "doc": ["doc", {}, [["sheet", name, grid]]], "images": {}, "opts": {}}))
            # three rows: the marker column meets a typed cell in a later row
            for h in mh:
                for b in copy.deepcopy(TYPED_CELLS):
                    grid = [[h, ["s", t[2]]], [["s", t[1]], ["s", t[3]]], [b, None]]
                    out.append((fmt, {"fmt": fmt, "doc": ["doc", {}, [["sheet", name, grid]]], "images": {}, "opts": {}}))
        for grid in typed_position_grids(tier, t9):
            out.append((fmt, {"fmt": fmt, "doc": ["doc", {}, [["sheet", name, grid]]], "images": {}, "opts": {}}))
    return out


SHEET_SHAPES_QUICK = [(1, 1), (1, 2), (2, 1), (2, 2), (3, 1)]
SHEET_SHAPES_THOROUGH = SHEET_SHAPES_QUICK + [(1, 3), (3, 3)]


def typed_position_grids(tier, t):
    """Typed cell x position: every typed cell kind (TYPED_CELLS without the empty cell) at EVERY position (row, column) of an
    r x c sheet whose other cells are plain tokens, for the shapes SHEET_SHAPES_* (single cell, single row, single column,
    2 x 2, 3 x 1: first / inner / last row, first / last column - the first row is what the readers take the column labels
    from). thorough: also 1 x 3 and 3 x 3, and every ordered pair of typed kinds at two different positions of the 2 x 2 sheet."""
    kinds = [c for c in TYPED_CELLS if c is not None]
    tok = lambda i: ["s", t[i % len(t)]]   # noqa: E731
    grids = []
    for (nr, nc) in (SHEET_SHAPES_QUICK if tier == "quick" else SHEET_SHAPES_THOROUGH):
        for r in range(nr):
            for c in range(nc):
                for k in kinds:
                    g = [[tok(i * nc + j) for j in range(nc)] for i in range(nr)]
                    g[r][c] = copy.deepcopy(k)
                    grids.append(g)
    if tier != "quick":
        pos = [(0, 0), (0, 1), (1, 0), (1, 1)]
        for p in pos:
            for q in pos:
                if p >= q:
                    continue
                for k1 in kinds:
                    for k2 in kinds:
                        g = [[tok(0), tok(1)], [tok(2), tok(3)]]
                        g[p[0]][p[1]] = copy.deepcopy(k1)
                        g[q[0]][q[1]] = copy.deepcopy(k2)
                        grids.append(g)
    return grids


# ----------------------------------------------------------------------------------------------- decorated texts

# characters that text normalisers treat specially (the same alphabet as c05_instances.DECOR): sp nl cr tab nbsp are white
# space for str.strip(), bom zwsp nul are not
DECOR = [("sp", " "), ("nl", "\n"), ("cr", "\r"), ("tab", "\t"), ("bom", "\ufeff"), ("nbsp", "\u00a0"), ("zwsp", "\u200b"),
         ("nul", "\x00")]
DECOR_CHAR = dict(DECOR)
EDGE_PLAIN_KINDS = ["txt", "csv", "md", "json", "tsv"]
EDGE_MAIL_KINDS = ["eml", "mbox"]


def edge_text(g):
    d = lambda names: "".join(DECOR_CHAR[n] for n in names)   # noqa: E731
    body = g["body"]
    t = d(g.get("pre") or []) + body[0]
    if g.get("mid") is not None:
        t += d(g["mid"]) + body[1]
    return t + d(g.get("suf") or [])


def _edge_frames(maxlen, names):
    """[(pre, mid, suf)]: every sequence of 1..maxlen names placed before the text, after it, inside it, and mirrored
    around it; shorter sequences first"""
    import itertools
    out = []
    for ln in range(1, maxlen + 1):
        for seq in itertools.product(names, repeat=ln):
            seq = list(seq)
            out.append((seq, None, []))
            out.append(([], None, seq))
            out.append(([], seq, []))
            out.append((seq, None, seq[::-1]))
    return out


def edge_cases(tier, seed):
    """Bounded-exhaustive decorated texts as extraction inputs.
    quick:    c05.txt (utf-8): all frames of length <= 2 over the 8 DECOR names (288);  csv / md / json / tsv: length 1 (32 each);
              eml body: all frames of length <= 2 over DECOR without cr (the mail writer has no CR in bodies) (224)
    thorough: txt: length <= 3 (pre / suf / mid; mirrored <= 2) and length <= 2 in utf-8-sig and utf-16;  other plain kinds
              length <= 2;  eml as quick;  mbox: length <= 2"""
    tk = Tokens(seed)
    body = [tk.new("B"), tk.new("B")]
    names = [n for n, _ in DECOR]
    out = []

    def add(kind, frames, enc="utf-8"):
        for pre, mid, suf in frames:
            out.append((kind, {"fmt": "edge", "kind": kind, "pre": pre, "mid": mid, "suf": suf, "body": list(body), "enc": enc}))
    quick = tier == "quick"
    if quick:
        add("txt", _edge_frames(2, names))
    else:
        add("txt", [f for f in _edge_frames(3, names) if not (len(f[0]) == 3 and len(f[2]) == 3)])
        for enc in ("utf-8-sig", "utf-16"):
            add("txt", _edge_frames(2, names), enc)
    for kind in EDGE_PLAIN_KINDS[1:]:
        add(kind, _edge_frames(1 if quick else 2, names))
    mail_names = [n for n in names if n != "cr"]
    add("eml", _edge_frames(2, mail_names))
    if not quick:
        add("mbox", _edge_frames(2, mail_names))
    return out



# ----------------------------------------------------------------------------------------------- header spellings

# Everything a mail reader copies out of a message header is produced by a third-party parser (email / mailparser), whose
# return type and content depend on the WIRE SPELLING of the value (compat32 gives an email.header.Header object, not a str,
# for a value with raw 8-bit bytes; encoded-words may not decode; folded values keep line breaks ...). The family below puts
# one token in every spelling at every syntactic position of every header the readers look at.
HDR_ADDRESS = ["From", "To", "Cc", "Bcc", "Reply-To"]
_ADDR_POS = [("name", "{} <a1@verif.example>"), ("qname", '"{}" <a1@verif.example>'), ("local", "<{}@verif.example>"),
             ("bare", "{}@verif.example"), ("domain", "<a1@{}.example>")]
HDR_POS = dict(
    [("Subject", [("value", "{}")])] + [(h, list(_ADDR_POS)) for h in HDR_ADDRESS] +
    [("Message-ID", [("id", "<{}.1@verif.example>"), ("raw", "{}")]), ("In-Reply-To", [("id", "<{}.1@verif.example>"), ("raw", "{}")]),
     ("Date", [("comment", "Tue, 05 Mar 2024 14:07:09 +0000 ({})"), ("raw", "{}")]),
     ("Content-Type", [("charset", 'text/plain; charset="{}"'), ("name", 'text/plain; charset=utf-8; name="{}"')]),
     ("Content-Disposition", [("filename", 'inline; filename="{}"')]),
     ("part:Content-Type", [("name", 'application/octet-stream; name="{}"')]),
     ("part:Content-Disposition", [("filename", 'attachment; filename="{}"')])])
HDR_NAMES = list(HDR_POS)
HDR_SPELL = ["ascii", "latin1", "utf8", "bad8", "ew-b", "ew-q", "ew-unk", "ew-bad", "ew-surr", "fold", "empty", "nul", "marker"]
HDR_PSEUDO = ["absent", "twice"]          # header-level deviations (position None)
HDR_PAIR_SPELL = ["latin1", "fold"]       # thorough: two headers deviating at once
HDR_BASE = [("From", "Nsender <sender@verif.example>"), ("To", "<rcpt@verif.example>"), ("Subject", "Hsubjct"),
            ("Date", "Tue, 05 Mar 2024 14:07:09 +0000"), ("Message-ID", "<base.1@verif.example>"), ("MIME-Version", "1.0"),
            ("Content-Type", "text/plain; charset=utf-8"), ("Content-Transfer-Encoding", "7bit")]
_HDR_PART_BASE = [("Content-Type", "application/octet-stream; name=\"base.bin\""), ("Content-Disposition", "attachment; filename=\"base.bin\""),
                  ("Content-Transfer-Encoding", "base64")]


def hdr_spelling(sp, tok, le):
    """wire bytes of the token pair `tok` in spelling `sp`"""
    import base64
    a, b = tok[0].encode("ascii"), tok[1].encode("ascii")
    if sp == "ascii":
        return a
    if sp == "latin1":
        return a + b"\xe9" + b
    if sp == "utf8":
        return a + "é".encode("utf-8") + b
    if sp == "bad8":
        return a + b"\xff" + b
    if sp == "ew-b":
        return b"=?utf-8?B?" + base64.b64encode(a + "é".encode("utf-8") + b) + b"?="
    if sp == "ew-q":
        return b"=?iso-8859-1?Q?" + a + b"=E9" + b + b"?="
    if sp == "ew-unk":
        return b"=?x-verif-unknown?Q?" + a + b"=E9?="
    if sp == "ew-bad":
        return b"=?utf-8?B?" + a + b"@@?="
    if sp == "ew-surr":
        return b"=?utf-8?Q?" + a + b"=ED=A0=80?="
    if sp == "fold":
        return a + le + b" " + b
    if sp == "empty":
        return b""
    if sp == "nul":
        return a + b"\x00" + b
    if sp == "marker":
        return b"_type"
    raise ValueError(sp)


def hdr_message(g):
    """the raw message of a "hdr" case (without mbox envelope)"""
    le = {"lf": b"\n", "crlf": b"\r\n"}[g.get("le", "lf")]
    tok = g["tok"]
    top = [[k, [v.encode("ascii")]] for k, v in HDR_BASE]
    part = [[k, [v.encode("ascii")]] for k, v in _HDR_PART_BASE]
    multipart = False
    for h, pos, sp in g.get("devs") or []:
        if h not in HDR_POS:
            raise ValueError(h)
        is_part = h.startswith("part:")
        multipart = multipart or is_part
        hs, name = (part, h[5:]) if is_part else (top, h)
        slot = [x for x in hs if x[0] == name]
        if pos is None:
            if sp == "absent":
                hs[:] = [x for x in hs if x[0] != name]
            elif sp == "twice":
                if not slot:
                    hs.append([name, [dict(HDR_POS[h])[HDR_POS[h][0][0]].replace("{}", tok[0]).encode("ascii")]])
                    slot = [hs[-1]]
                slot[0][1] = slot[0][1] * 2
            else:
                raise ValueError(sp)
            continue
        tpl = dict(HDR_POS[h])[pos].encode("ascii")
        val = tpl.replace(b"{}", hdr_spelling(sp, tok, le))
        if slot:
            slot[0][1] = [val]
        else:
            hs.append([name, [val]])

    def lines(hs):
        return b"".join(k.encode("ascii") + b":" + (b" " + v if v else b"") + le for k, vs in hs for v in vs)
    body = tok[0].encode("ascii") + b" body " + tok[1].encode("ascii") + le
    if not multipart:
        return lines(top) + le + body
    ct = [x for x in top if x[0] == "Content-Type"]
    text_ct = ct[0][1] if ct else []
    top = [x for x in top if x[0] not in ("Content-Type", "Content-Transfer-Encoding")]
    bnd = b"verifbnd01"
    out = lines(top) + b"Content-Type: multipart/mixed; boundary=\"" + bnd + b"\"" + le + le
    out += b"--" + bnd + le + lines([["Content-Type", text_ct], ["Content-Transfer-Encoding", [b"7bit"]]]) + le + body
    out += b"--" + bnd + le + lines(part) + le + b"AP9/" + le + b"--" + bnd + b"--" + le
    return out


def _render_hdr(g):
    msg = hdr_message(g)
    if g["kind"] == "eml":
        return "c05.eml", msg
    if g["kind"] == "mbox":
        le = {"lf": b"\n", "crlf": b"\r\n"}[g.get("le", "lf")]
        return "c05.mbox", b"From sender@verif.example Tue Mar  5 14:07:09 2024" + le + msg + le
    raise ValueError(g["kind"])


def header_single_devs():
    """every (header, position, spelling) and every (header, None, absent | twice)"""
    out = []
    for h in HDR_NAMES:
        for pos, _ in HDR_POS[h]:
            for sp in HDR_SPELL:
                out.append([h, pos, sp])
        for sp in HDR_PSEUDO:
            out.append([h, None, sp])
    return out


def header_cases(tier, seed):
    """Bounded-exhaustive header spellings as extraction inputs ("hdr" cases), kinds eml and mbox.
    quick:    every single deviation (header x position x spelling, header x {absent, twice}), line end LF
    thorough: the same with line end CRLF as well, plus every unordered pair of (header, position) slots of two different headers,
              both in the same spelling of HDR_PAIR_SPELL (line end LF)"""
    tk = Tokens(seed)
    tok = [tk.new("X"), tk.new("X")]
    out = []
    singles = header_single_devs()
    for kind in EDGE_MAIL_KINDS:
        for le in (["lf"] if tier == "quick" else ["lf", "crlf"]):
            for d in singles:
                out.append((kind, {"fmt": "hdr", "kind": kind, "devs": [list(d)], "tok": list(tok), "le": le}))
        if tier != "quick":
            slots = [(h, pos) for h in HDR_NAMES for pos, _ in HDR_POS[h]]
            for i, (h1, p1) in enumerate(slots):
                for h2, p2 in slots[i + 1:]:
                    if h1 == h2:
                        continue
                    for sp in HDR_PAIR_SPELL:
                        out.append((kind, {"fmt": "hdr", "kind": kind, "devs": [[h1, p1, sp], [h2, p2, sp]], "tok": list(tok), "le": "lf"}))
    return out


def mail_cases(seed):
    tk = Tokens(seed)
    small_txt = {"fmt": "txt", "doc": ["doc", {}, [["unit", [["p", [["t", tk.new("B")]]]], {}]]], "images": {}, "opts": {}}
    small_docx = {"fmt": "docx", "doc": ["doc", {}, [["unit", [["p", [["t", tk.new("B")]]], ["img", "k2"]], {}]]],
                  "images": {"k2": ["png", 8, 8, 2]}, "opts": {}}
    atts = [{"filename": "a.txt", "ctype": "text/plain", "gen": small_txt},
            {"filename": "b.docx", "ctype": "application/vnd.openxmlformats-officedocument.wordprocessingml.document", "gen": small_docx},
            {"filename": "c.bin", "ctype": "application/octet-stream", "data_hex": "00ff7f"}]
    out = []
    out.append(("eml", {"fmt": "eml", "spec": {"structure": "mixed-alt-att", "attachments": atts,
                                                "cc": [["Nccccc", "cc@verif.example"]], "reply_to": [[None, "r@verif.example"]],
                                                "in_reply_to": "<prev.1@verif.example>"}}))
    out.append(("eml", {"fmt": "eml", "spec": {"structure": "related-html-img"}}))
    out.append(("eml", {"fmt": "eml", "spec": {"structure": "rfc822-attachment"}}))
    out.append(("eml", {"fmt": "eml", "spec": {}}))
    out.append(("mbox", {"fmt": "mbox", "specs": [{}, {"structure": "alternative"}]}))
    out.append(("mbox", {"fmt": "mbox", "specs": [{"structure": "html"}]}))
    return out


def small_case(fmt, seed):
    """The small generated document of a format (used for the CLI part and as archive member)."""
    tk = Tokens(seed)
    if fmt in ("xlsx", "ods", "xls"):
        return {"fmt": fmt, "doc": ["doc", {}, [["sheet", tk.new("N"), [[["s", tk.new("C")], ["s", tk.new("C")]], [["i", 1], ["s", tk.new("C")]]]]]],
                "images": {}, "opts": {}}
    if fmt == "csv":
        return {"fmt": fmt, "doc": ["doc", {}, [["unit", [["tbl", [[[["p", [["t", tk.new("C")]]]], [["p", [["t", tk.new("C")]]]]]]]], {}]]],
                "images": {}, "opts": {}}
    blocks = [["p", [["t", tk.new("B")]]]]
    imgs = {}
    if fmt in ("docx", "pptx", "odt", "odp", "odg", "rtf", "pdf", "ppt", "html", "mhtml", "epub"):
        blocks.append(["img", "k1"])
        imgs = {"k1": ["png" if fmt == "ppt" else "jpeg", 16, 8, 1]}
    units = [["unit", blocks, {}]]
    if fmt in ("pptx", "odp", "pdf", "ppt", "epub"):
        units.append(["unit", [["p", [["t", tk.new("B")]]]], {}])
    return {"fmt": fmt, "doc": ["doc", {}, units], "images": imgs, "opts": {}}


def archive_cases(seed):
    mem = [["m1.docx", small_case("docx", seed)], ["d/m2.txt", small_case("txt", seed)], ["m3.xlsx", small_case("xlsx", seed)],
           ["m4.bin", {"fmt": "raw", "hex": "00ff"}]]
    out = []
    for f in ("zip", "tar", "7z"):
        out.append((f, {"fmt": f, "members": copy.deepcopy(mem)}))
    out.append(("zip", {"fmt": "zip", "members": copy.deepcopy(mem[:1])}))
    return out


def rich_cases(seed):
    out = []
    for fmt in ADM_FORMATS:
        if fmt in ("xlsx", "ods", "xls"):
            out.append((fmt, rich_sheet_case(fmt, seed)))
        else:
            out.append((fmt, rich_text_case(fmt, seed)))
    out.append(("csv", {"fmt": "csv", "doc": ["doc", {}, [["sheet", "Nsheet", rich_sheet_case("csv", seed)["doc"][2][0][2]]]], "images": {}, "opts": {}}))
    out += mail_cases(seed)
    out += archive_cases(seed)
    return out


# ----------------------------------------------------------------------------------------------- rendering

_EXT_CT = {"png": "image/png", "jpeg": "image/jpeg", "gif": "image/gif", "bmp": "image/bmp"}


def _image_bytes(images):
    from verif.props import c14_images
    return {k: (c14_images.make(v[0], v[1], v[2], v[3]), v[0]) for k, v in (images or {}).items()}


def _esc(s):
    return s.replace("&", "&amp;").replace("<", "&lt;").replace(">", "&gt;")


def _html_body(doc_unit, img_src):
    def inl(xs):
        out = []
        for x in xs:
            k = x[0]
            if k == "t":
                out.append(_esc(x[1]))
            elif k == "br":
                out.append("<br/>")
            elif k == "a":
                out.append('<a href="%s">%s</a>' % (x[1], inl(x[2])))
            else:
                raise NotImplementedError(k)
        return " ".join(out)

    def blocks(bs):
        out = []
        for b in bs:
            k = b[0]
            if k == "p":
                out.append("<p>%s</p>" % inl(b[1]))
            elif k == "h":
                out.append("<h%d>%s</h%d>" % (b[1], inl(b[2]), b[1]))
            elif k == "ul":
                out.append("<ul>%s</ul>" % "".join("<li>%s</li>" % blocks(it) for it in b[1]))
            elif k == "tbl":
                out.append("<table>%s</table>" % "".join("<tr>%s</tr>" % "".join("<td>%s</td>" % blocks(c) for c in row) for row in b[1]))
            elif k == "img":
                out.append('<p><img src="%s" alt="Zaltxt"/></p>' % img_src(b[1]))
            else:
                raise NotImplementedError(k)
        return "".join(out)
    return blocks(doc_unit[1])


def render(case):
    """-> (file name, bytes)"""
    fmt = case["fmt"]
    if fmt == "raw":
        return "m.bin", bytes.fromhex(case["hex"])
    if fmt == "hdr":
        return _render_hdr(case)
    if fmt == "edge":
        text = edge_text(case)
        kind = case["kind"]
        if kind in EDGE_PLAIN_KINDS:
            enc = case.get("enc", "utf-8")
            if enc not in ("utf-8", "utf-8-sig", "utf-16"):
                raise ValueError(enc)
            return "c05." + kind, text.encode(enc)
        from verif.gen import mail
        spec = {"structure": "plain", "body_plain": text, "charset": "utf-8", "cte": "base64"}
        if kind == "eml":
            return "c05.eml", mail.eml(spec)
        if kind == "mbox":
            return "c05.mbox", mail.mbox([spec])
        raise ValueError(kind)
    if fmt in ("eml", "mbox"):
        from verif.gen import mail

        def fix(spec):
            spec = copy.deepcopy(spec)
            atts = []
            for a in spec.get("attachments", []) or []:
                a = dict(a)
                if "gen" in a:
                    a["data_hex"] = render(a.pop("gen"))[1].hex()
                a.setdefault("filename_style", "plain")
                a.setdefault("cte", "base64")
                atts.append(a)
            if atts:
                spec["attachments"] = atts
            return spec
        if fmt == "eml":
            return "c05.eml", mail.eml(fix(case["spec"]))
        return "c05.mbox", mail.mbox([fix(s) for s in case["specs"]])
    if fmt in ("zip", "tar", "7z"):
        members = [{"name": n, "data": render(g)[1]} for n, g in case["members"]]
        if fmt == "zip":
            from verif.gen import zipforge
            return "c05.zip", zipforge.zip_honest(members)
        if fmt == "tar":
            from verif.gen import tarforge
            return "c05.tar", tarforge.tarforge(members)
        from verif.gen import sevenz
        return "c05.7z", sevenz.sevenz(members, {"coder": "lzma2"})
    doc, images, opts = case["doc"], _image_bytes(case.get("images")), dict(case.get("opts") or {})
    name = "c05." + fmt
    if fmt in ("docx", "pptx", "xlsx"):
        from verif.gen import ooxml
        return name, getattr(ooxml, fmt)(doc, images, opts)
    if fmt in ("odt", "odp", "ods", "odg", "odf"):
        from verif.gen import odf
        return name, getattr(odf, fmt)(doc, images, opts)
    if fmt == "rtf":
        from verif.gen import rtf
        return name, rtf.rtf(doc, images, opts)
    if fmt == "pdf":
        from verif.gen import pdfw
        return name, pdfw.pdf(doc, images, opts)
    if fmt == "xls":
        from verif.gen import biff8
        return name, biff8.xls(doc, {k: v[0] for k, v in images.items()}, opts)
    if fmt == "ppt":
        from verif.gen import pptbin
        return name, pptbin.ppt(doc, {k: v[0] for k, v in images.items()}, opts)
    if fmt in ("txt", "csv", "md", "json"):
        from verif.gen import plain
        return name, {"txt": plain.txt, "csv": plain.csv, "md": plain.md, "json": plain.json_}[fmt](doc, opts)
    from verif.gen import htmlfam
    title = (doc[1] or {}).get("title", "")
    if fmt == "html":
        import base64
        src = lambda k: "data:%s;base64,%s" % (_EXT_CT[images[k][1]], base64.b64encode(images[k][0]).decode())   # noqa: E731
        return name, htmlfam.html_page(_html_body(doc[2][0], src), title).encode("utf-8")
    if fmt == "mhtml":
        src = lambda k: "http://h/%s.%s" % (k, images[k][1])   # noqa: E731
        extra = [(_EXT_CT[e], "http://h/%s.%s" % (k, e), d) for k, (d, e) in sorted(images.items())]
        return name, htmlfam.mhtml(htmlfam.html_page(_html_body(doc[2][0], src), title), "quoted-printable", extra)
    if fmt == "epub":
        src = lambda k: "%s.%s" % (k, images[k][1])   # noqa: E731
        chapters = [htmlfam.xhtml_page(_html_body(u, src), "ch") for u in doc[2]]
        extra = [("img" + k, "%s.%s" % (k, e), _EXT_CT[e], d) for k, (d, e) in sorted(images.items())]
        return name, htmlfam.epub(chapters, {"title": title or "t", "creator": "Zauthr"}, extra)
    raise ValueError(fmt)


def used_constructors(case):
    if "doc" in case and case["fmt"] not in ("xlsx", "ods", "xls", "csv"):
        return sorted(adm.constructors(case["doc"]))
    return []
